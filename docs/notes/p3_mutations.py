#!/usr/bin/env python3
"""apply one mutation at a time to /work/p3/repo, run the designated checks in /work/p3/mut/verif, restore"""
import subprocess, sys, json, os, glob, time
REPO='/work/p3/repo'; VERIF='/work/p3/mut/verif'
R=REPO+'/rodbus/src/'
MUTS=[
 ('drop-expect_empty-read-coils', R+'server/request.rs',
  "let x = Request::ReadCoils(AddressRange::parse(cursor)?.of_read_bits()?);\n                cursor.expect_empty()?;",
  "let x = Request::ReadCoils(AddressRange::parse(cursor)?.of_read_bits()?);", ['C01','C02']),
 ('swap-coil-constants', R+'constants.rs', None, None, ['C01','C02']),
 ('msb-first-packing', R+'common/serialize.rs', "acc |= 1 << num_bits;", "acc |= 0x80 >> num_bits;", ['C01']),
 ('no-exception-fallback', R+'common/frame.rs',
  "Err(RequestError::Exception(ex)) => {\n                self.format_ex(header, FunctionField::Exception(function), ex, decode_level)\n            }",
  "Err(RequestError::Exception(ex)) => Err(RequestError::Exception(ex)),", ['C01']),
 ('authorization-after-unit-lookup', R+'server/task.rs', None, None, ['C08']),
 ('broadcast-error-reply-enabled', R+'server/task.rs', "if header.destination != FrameDestination::Broadcast {\n            let bytes = self.writer.format_ex", "if true {\n            let bytes = self.writer.format_ex", ['C17','C01']),
 ('read-limit-off-by-one', R+'types.rs', "if self.count > limit {", "if self.count >= limit {", ['C01','C02']),
 ('broadcast-reaches-first-unit-only', R+'server/task.rs', "for handler in self.handlers.iter_mut() {", "for handler in self.handlers.iter_mut().take(1) {", ['C17','C02']),
 ('write-single-register-handler-called-twice', R+'server/request.rs',
  "let result = handler.write_single_register(*request).map(|_| *request);",
  "let _ = handler.write_single_register(*request);\n                let result = handler.write_single_register(*request).map(|_| *request);", ['C02']),
 ('read-only-allows-write-single-coil', R+'server/handler.rs', None, None, ['C08']),
 ('dispatch-write-single-coil-to-register-callback', R+'server/task.rs',
  "Request::WriteSingleCoil(x) => handler.write_single_coil(unit_id, x.index, role),",
  "Request::WriteSingleCoil(x) => handler.write_single_register(unit_id, x.index, role),", ['C08']),
 ('max-read-registers-126', R+'constants.rs', "pub const MAX_READ_REGISTERS_COUNT: u16 = 0x007D;", "pub const MAX_READ_REGISTERS_COUNT: u16 = 0x007E;", ['C01','C02']),
 ('bit-iterator-msb-first', R+'types.rs', "let bit = (*value & (1 << bit)) != 0;", "let bit = (*value & (0x80 >> bit)) != 0;", ['C02']),
 ('deny-answers-exception-02', R+'server/task.rs',
  "request.get_function(),\n                    ExceptionCode::IllegalFunction,", "request.get_function(),\n                    ExceptionCode::IllegalDataAddress,", ['C08']),
 ('allow-carries-over', R+'server/task.rs', None, None, ['C08']),
 ('tx-id-not-echoed', REPO+'/rodbus/src/tcp/frame.rs', "cursor.write_u16_be(tx_id.to_u16())?;", "cursor.write_u16_be(tx_id.to_u16().wrapping_add(1))?;", ['C01']),
 ('write-multiple-echo-count-minus-one', R+'server/request.rs',
  "let result = handler.write_multiple_coils(*items).map(|_| items.range);",
  "let result = handler.write_multiple_coils(*items).map(|_| AddressRange { start: items.range.start, count: items.range.count - 1 });", ['C01']),
 ('register-iterator-index-off-by-one', R+'types.rs', "let index = self.pos + self.range.start;", "let index = self.pos + self.range.start + 1;", ['C02']),
 ('unit-check-dropped-for-parse-errors(F8)', R+'server/task.rs', None, None, ['C17','C01']),
 ('write-multiple-limit-dropped(F6)', R+'server/request.rs', None, None, ['C01','C02']),
 ('address-iterator-overflow(F7)', R+'types.rs', "self.current = self.current.wrapping_add(1);", "self.current += 1;", ['C01']),
 ('broadcast-read-executed', R+'server/request.rs', None, None, ['C17']),
 ('ignore-handler-write-exception', R+'server/request.rs',
  "let result = handler.write_single_coil(*request).map(|_| *request);",
  "let result = handler.write_single_coil(*request).map(|_| *request).or(Ok(*request));", ['C01']),
]
def special(name, path):
    s=open(path).read()
    if name=='swap-coil-constants':
        a="pub(crate) const ON: u16 = 0xFF00;"; b="pub(crate) const OFF: u16 = 0x0000;"
        assert a in s and b in s
        return s.replace(a,"pub(crate) const ON: u16 = 0x0000;").replace(b,"pub(crate) const OFF: u16 = 0xFF00;")
    if name=='authorization-after-unit-lookup':
        # move the unit lookup check before the authorization check
        a="        // check authorization\n"
        assert a in s
        return s.replace(a,"        if let FrameDestination::UnitId(unit_id) = frame.header.destination {\n            if self.handlers.get(unit_id).is_none() {\n                return Ok(());\n            }\n        }\n        // check authorization\n",1)
    if name=='read-only-allows-write-single-coil':
        i=s.index("impl AuthorizationHandler for ReadOnlyAuthorizationHandler")
        j=s.index("fn write_single_coil", i)
        k=s.index("Authorization::Deny", j)
        return s[:k]+"Authorization::Allow"+s[k+len("Authorization::Deny"):]
    if name=='allow-carries-over':
        a="            AuthorizationType::Handler(handler, role) => {\n                let result = Self::check_authorization(handler.as_ref(), unit_id, request, role);"
        assert a in s
        return s.replace(a,"            AuthorizationType::Handler(handler, role) => {\n                static ALLOWED: std::sync::atomic::AtomicBool = std::sync::atomic::AtomicBool::new(false);\n                if ALLOWED.load(std::sync::atomic::Ordering::SeqCst) {\n                    return Authorization::Allow;\n                }\n                let result = Self::check_authorization(handler.as_ref(), unit_id, request, role);\n                if let Authorization::Allow = result {\n                    ALLOWED.store(true, std::sync::atomic::Ordering::SeqCst);\n                }")
    if name=='unit-check-dropped-for-parse-errors(F8)':
        a="                if !self.is_served(frame.header.destination) {\n                    return Ok(());\n                }\n"
        assert a in s
        return s.replace(a,"")
    if name=='write-multiple-limit-dropped(F6)':
        a="                let max = crate::constants::limits::MAX_WRITE_COILS_COUNT;\n                if range.count > max {\n                    return Err(InvalidRange::CountTooLargeForType(range.count, max).into());\n                }\n"
        assert a in s
        return s.replace(a,"")
    if name=='broadcast-read-executed':
        a="            Request::ReadHoldingRegisters(_) => None,\n            Request::ReadInputRegisters(_) => None,\n            Request::WriteSingleCoil(x)"
        assert a in s
        # a broadcast read-holding-registers is turned into a write of register 0 (some effect on every unit)
        return s.replace(a,"            Request::ReadHoldingRegisters(r) => Some(BroadcastRequest::WriteSingleRegister(Indexed::new(r.inner.start, 0))),\n            Request::ReadInputRegisters(_) => None,\n            Request::WriteSingleCoil(x)")
    raise KeyError(name)
def run(cmd, cwd):
    p=subprocess.run(cmd, cwd=cwd, shell=True, stdout=subprocess.PIPE, stderr=subprocess.STDOUT, text=True)
    return p.returncode, p.stdout
def main():
    only=sys.argv[1:]
    results=[]
    for name,path,old,new,checks in MUTS:
        if only and name not in only: continue
        rc,out=run('git status --short', REPO)
        assert out.strip()=='' , 'repo not clean: '+out
        s=open(path).read()
        if old is None: m=special(name,path)
        else:
            assert s.count(old)==1, (name, s.count(old))
            m=s.replace(old,new)
        open(path,'w').write(m)
        row={'name':name,'checks':{}}
        try:
            for c in checks:
                t=time.time()
                rc,out=run(f'bin/check {c}', VERIF)
                lines=[l for l in out.split('\n') if l.startswith('VIOLATION') or l.startswith('OK ') or l.startswith('KNOWN')]
                det='VIOLATION' in out
                info=''
                for l in lines:
                    if l.startswith('VIOLATION'):
                        pth=l.split('replay=')[1].split()[0]
                        try:
                            e=json.load(open(pth)); info=f"{e['key']} nfi={e['no_failing_input_found']}"
                        except Exception as ex: info=str(ex)
                        break
                row['checks'][c]={'detected':det,'rc':rc,'first':info,'secs':round(time.time()-t)}
                print(name,c,'DETECTED' if det else 'MISSED',info,f'{round(time.time()-t)}s',flush=True)
        finally:
            run('git checkout -- .', REPO)
        results.append(row)
    json.dump(results,open('/work/p3/mut/results.json','w'),indent=1)
main()
