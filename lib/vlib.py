"""Shared machinery of /verif/bin/check: translate, prove, audit, build, correspond, decide.

See /verif/DESIGN.md sections 2, 3 and 5. Nothing here is property specific; the per-property
logic lives in lib/checks/cNN.py, each exposing `run(ctx)`.
"""
import concurrent.futures
import fcntl
import hashlib
import json
import os
import random
import re
import shutil
import subprocess
import sys
import time

ROOT = os.path.dirname(os.path.dirname(os.path.abspath(__file__)))
def _repo_path():
    # the repository under test: $VERIF_REPO, else the path in <root>/.repo_path (scratch worlds), else /repo
    if os.environ.get('VERIF_REPO'):
        return os.environ['VERIF_REPO']
    p = os.path.join(ROOT, '.repo_path')
    if os.path.exists(p):
        return open(p).read().strip()
    return '/repo'


REPO = _repo_path()
CACHE = os.path.join(ROOT, '.cache')
COQ = os.path.join(ROOT, 'coq')
THEORIES = os.path.join(COQ, 'theories')
HARNESS_BIN = os.path.join(CACHE, 'target', 'debug', 'verif-harness')
NPROC = os.cpu_count() or 4

TRUSTED_BASE = [
    'Coq 8.16.1 kernel + vm_compute (no native_compute); coqchk in the thorough tier',
    'axioms: none (every Print Assumptions must say "Closed under the global context")',
    'translator /verif/translator (Rust-subset reader producing coq/theories/Gen/*.v)',
    'correspondence harness /verif/harness (Rust, links /repo crates by path with feature verif-hooks), its generators and canonicalisation in /verif/lib',
    'in-Coq evaluation of the model on the generated cases (coqc + vm_compute); no extraction',
    'rustc/cargo, tokio (paused clock where used)',
]

FORBIDDEN = [
    r'\bAdmitted\b', r'\badmit\b', r'\bAxiom\b', r'\bAxioms\b', r'\bParameter\b', r'\bParameters\b',
    r'\bConjecture\b', r'\bConjectures\b', r'Unset\s+Guard', r'bypass_check', r'Admit\s+Obligations',
    r'Unset\s+Positivity', r'Unset\s+Universe\s+Checking', r'type-in-type', r'impredicative-set',
    r'\bgive_up\b',
]


def sh(cmd, cwd=None, timeout=None, input=None, env=None):
    """run a command, return (returncode, stdout+stderr)"""
    e = dict(os.environ)
    e.setdefault('CARGO_NET_OFFLINE', 'true')
    if env:
        e.update(env)
    try:
        p = subprocess.run(cmd, cwd=cwd, input=input, stdout=subprocess.PIPE, stderr=subprocess.STDOUT,
                           text=True, timeout=timeout, env=e, shell=isinstance(cmd, str))
        return p.returncode, p.stdout
    except subprocess.TimeoutExpired as ex:
        out = ex.stdout or ''
        if isinstance(out, bytes):
            out = out.decode('utf-8', 'replace')
        return 124, out + f'\n[timeout after {timeout}s]'


class Lock:
    def __init__(self, name):
        os.makedirs(CACHE, exist_ok=True)
        self.path = os.path.join(CACHE, name + '.lock')

    def __enter__(self):
        self.f = open(self.path, 'w')
        fcntl.flock(self.f, fcntl.LOCK_EX)
        return self

    def __exit__(self, *a):
        fcntl.flock(self.f, fcntl.LOCK_UN)
        self.f.close()


def strip_coq_comments(s):
    out, depth, i, n = [], 0, 0, len(s)
    in_str = False
    while i < n:
        if not in_str and s.startswith('(*', i):
            depth += 1
            i += 2
        elif not in_str and depth > 0 and s.startswith('*)', i):
            depth -= 1
            i += 2
        else:
            if depth == 0:
                if s[i] == '"':
                    in_str = not in_str
                out.append(s[i])
            i += 1
    return ''.join(out)


def coq_files():
    res = []
    for d, _, fs in os.walk(THEORIES):
        for f in fs:
            if f.endswith('.v'):
                res.append(os.path.join(d, f))
    return sorted(res)


def audit_sources():
    """grep the whole development for anything that would declare an axiom or disable a check"""
    problems = []
    for path in coq_files():
        txt = strip_coq_comments(open(path).read())
        txt_nostr = re.sub(r'"(?:[^"]|"")*"', '""', txt)
        for pat in FORBIDDEN:
            for m in re.finditer(pat, txt_nostr):
                line = txt_nostr.count('\n', 0, m.start()) + 1
                problems.append(f'{os.path.relpath(path, ROOT)}:{line}: forbidden `{m.group(0)}`')
        # Variable / Hypothesis / Context outside a Section declare axioms
        depth = 0
        for ln, line in enumerate(txt_nostr.split('\n'), 1):
            if re.match(r'\s*Section\s+\w+', line):
                depth += 1
            elif re.match(r'\s*End\s+\w+', line) and depth > 0:
                depth -= 1   # may also close a Module; Modules are not counted, so floor at 0
            elif depth == 0 and re.match(r'\s*(Variable|Variables|Hypothesis|Hypotheses|Context)\b', line):
                problems.append(f'{os.path.relpath(path, ROOT)}:{ln}: `{line.strip()[:40]}` outside a Section')
    for path in [os.path.join(COQ, '_CoqProject'), os.path.join(COQ, 'Makefile.local')]:
        if os.path.exists(path):
            t = open(path).read()
            for bad in ['-type-in-type', '-impredicative-set', '-vos', '-noinit']:
                if bad in t:
                    problems.append(f'{os.path.relpath(path, ROOT)}: forbidden flag {bad}')
    return problems


def ensure_coq_makefile():
    """(re)generate _CoqProject and Makefile when the set of .v files changed"""
    files = [os.path.relpath(f, COQ) for f in coq_files()]
    content = '-Q theories Rodbus\n' + '\n'.join(files) + '\n'
    proj = os.path.join(COQ, '_CoqProject')
    old = open(proj).read() if os.path.exists(proj) else None
    if old != content or not os.path.exists(os.path.join(COQ, 'Makefile')):
        with open(proj, 'w') as f:
            f.write(content)
        rc, out = sh(['coq_makefile', '-f', '_CoqProject', '-o', 'Makefile'], cwd=COQ, timeout=120)
        if rc != 0:
            raise RuntimeError('coq_makefile failed: ' + out)


def vo(mod):
    """'Model.Retry' -> 'theories/Model/Retry.vo'"""
    return 'theories/' + mod.replace('.', '/') + '.vo'


def coq_make(targets, timeout=3000):
    with Lock('coq'):
        ensure_coq_makefile()
        rc, out = sh(['make', f'-j{NPROC}', '-k'] + list(targets), cwd=COQ, timeout=timeout)
    return rc, out


def parse_coq_error(log):
    """first 'File "...", line N' error of a make/coqc log -> (file, line, message)"""
    m = re.search(r'File "([^"]+)", line (\d+), characters [\d-]+:\s*\n(Error:[\s\S]*?)(?=\n\s*\n|\nmake|\Z)', log)
    if not m:
        return None
    return m.group(1), int(m.group(2)), ' '.join(m.group(3).split())[:400]


def enclosing_statement(path, line):
    """name of the Theorem/Lemma/Definition enclosing a line of a .v file"""
    try:
        lines = open(os.path.join(COQ, path) if not os.path.isabs(path) else path).read().split('\n')
    except OSError:
        return None
    for i in range(min(line, len(lines)) - 1, -1, -1):
        m = re.match(r'\s*(Theorem|Lemma|Corollary|Example|Definition|Fixpoint|Fact|Remark|Proposition)\s+([\w\']+)', lines[i])
        if m:
            return m.group(2)
    return None


class Finding:
    def __init__(self, prop, key, text):
        self.prop, self.key, self.text = prop, key, text


def load_known_findings():
    res = []
    path = os.path.join(ROOT, 'known_findings.txt')
    if os.path.exists(path):
        for line in open(path):
            line = line.strip()
            m = re.match(r'finding:\s+property=(C\d+)\s+key=(\S+)\s+(.*)', line)
            if m:
                res.append(Finding(m.group(1), m.group(2), m.group(3)))
    return res


class Ctx:
    def __init__(self, prop, tier, seed, replay=None):
        self.prop = prop
        self.tier = tier
        self.seed = seed
        self.rng = random.Random(seed * 1000003 + int(prop[1:]))
        self.replay = replay            # parsed replay object or None
        self.t0 = time.time()
        self.obligations = []           # (name, ok, detail)
        self.violations = []            # dicts
        self.known_hits = []
        self.known = [f for f in load_known_findings() if f.prop == prop]
        self.coverage = {}
        self.assumptions = []
        self.notes = []
        self.proof_broken = []          # names of theorems / obligations that no longer check
        self.gen_report = {}
        os.makedirs(CACHE, exist_ok=True)

    # ------------------------------------------------------------------ bookkeeping
    def log(self, *a):
        print('[%s %6.1fs]' % (self.prop, time.time() - self.t0), *a, file=sys.stderr, flush=True)

    def oblige(self, name, ok, detail=''):
        self.obligations.append((name, bool(ok), detail))
        if not ok:
            self.log('OBLIGATION FAILED:', name, detail[:300])
        return ok

    def quick(self):
        return self.tier == 'quick'

    # ------------------------------------------------------------------ 1. translate
    def translate(self, needed):
        """regenerate Gen/*.v; `needed` = Gen files this property's theorems import"""
        sys.path.insert(0, os.path.join(ROOT, 'translator'))
        import gen
        with Lock('coq'):
            rep = gen.run(REPO, os.path.join(THEORIES, 'Gen'))
        self.gen_report = rep
        ok = True
        for name in needed:
            e = rep.get(name, {'ok': False, 'error': 'no such generator'})
            if not self.oblige(f'translator:{name}', e['ok'], e.get('error', '')):
                ok = False
                self.proof_broken.append(f'translator could not regenerate Gen/{name}: {e.get("error")}')
        return ok

    # ------------------------------------------------------------------ 2. prove + audit
    def build_models(self, modules):
        """compile the model/spec modules needed for evaluation (must work even if proofs break)"""
        rc, out = coq_make([vo(m) for m in modules])
        ok = rc == 0
        detail = ''
        if not ok:
            err = parse_coq_error(out)
            detail = f'{err}' if err else out[-400:]
            self.proof_broken.append(f'model does not compile: {detail}')
        self.oblige('model-compiles', ok, detail)
        return ok

    def prove(self, allow_axioms=()):
        """compile Properties/<prop>.v (and any Properties/<prop>_*.v) with their whole dependency
        closure; check every Print Assumptions; audit the sources"""
        import glob
        files = [f'theories/Properties/{self.prop}.v'] + sorted(
            os.path.relpath(f, COQ) for f in glob.glob(os.path.join(COQ, f'theories/Properties/{self.prop}_*.v')))
        ok_all = True
        all_printed = []
        axioms_seen = set()
        for rel in files:
            ok, printed = self._prove_file(rel, allow_axioms, axioms_seen)
            ok_all = ok_all and ok
            all_printed += printed
        self.coverage['axioms_used'] = sorted(axioms_seen)
        problems = audit_sources()
        if not self.oblige('audit:no-Admitted/Axiom/disabled-checks', not problems, '; '.join(problems[:5])):
            ok_all = False
            self.proof_broken.append('audit failed: ' + '; '.join(problems[:3]))
        self.coverage['theorems'] = all_printed
        return ok_all

    def _prove_file(self, rel, allow_axioms, axioms_seen):
        target = rel[:-2] + '.vo'
        src = os.path.join(COQ, rel)
        tag = os.path.basename(rel)[:-2]
        text = strip_coq_comments(open(src).read())
        theorems = re.findall(r'^\s*(?:Theorem|Corollary)\s+([\w\']+)', text, re.M)
        printed = re.findall(r'Print\s+Assumptions\s+([\w\'.]+)\s*\.', text)
        missing = [t for t in theorems if t not in printed]
        self.oblige(f'every-theorem-has-Print-Assumptions:{tag}', not missing, ','.join(missing))
        rc, out = coq_make([target])
        if rc != 0:
            err = parse_coq_error(out)
            if err:
                name = enclosing_statement(err[0], err[1])
                what = f'{err[0]}:{err[1]} ({name}): {err[2]}'
            else:
                what = out[-600:]
            for t in theorems:
                self.oblige(f'theorem:{t}', False, 'closure does not compile: ' + what)
            self.proof_broken.append('proof obligation no longer checks: ' + what)
            return False, printed
        # fresh Print Assumptions output
        with Lock('coq'):
            rc, out = sh(['coqc', '-Q', 'theories', 'Rodbus', rel], cwd=COQ, timeout=1200)
        if rc != 0:
            self.oblige(f'properties-file-compiles:{tag}', False, out[-400:])
            self.proof_broken.append('Properties file does not compile: ' + out[-300:])
            return False, printed
        blocks = re.split(r'(?=Closed under the global context|Axioms:)', out)
        blocks = [b for b in blocks if b.startswith('Closed under') or b.startswith('Axioms:')]
        ok_all = True
        if len(blocks) != len(printed):
            self.oblige(f'print-assumptions-count:{tag}', False, f'{len(blocks)} outputs for {len(printed)} commands')
            ok_all = False
        for name, b in zip(printed, blocks):
            if b.startswith('Closed under'):
                self.oblige(f'theorem:{name}', True, 'closed under the global context')
            else:
                axs = re.findall(r'^([\w.\']+)\s*:', b, re.M)
                bad = [a for a in axs if a not in allow_axioms]
                axioms_seen.update(axs)
                if not self.oblige(f'theorem:{name}', not bad, 'axioms: ' + ','.join(axs)):
                    ok_all = False
                    self.proof_broken.append(f'theorem {name} depends on unexpected axioms {bad}')
        return ok_all, printed

    def coqchk(self):
        mod = f'Rodbus.Properties.{self.prop}'
        rc, out = sh(['coqchk', '-o', '-silent', '-Q', 'theories', 'Rodbus', mod], cwd=COQ, timeout=3000)
        m = re.search(r'\* Axioms:\s*(.*?)(?=\n\* |\Z)', out, re.S)
        axioms = ' '.join(m.group(1).split()) if m else '?'
        ok = rc == 0 and axioms.strip() in ('<none>',)
        self.oblige('coqchk', ok, f'rc={rc} axioms={axioms[:200]}')
        self.coverage['coqchk_axioms'] = axioms
        return ok

    # ------------------------------------------------------------------ 3. build harness
    def build_harness(self):
        with Lock('cargo'):
            src_lock = os.path.join(REPO, 'Cargo.lock')
            hdir = os.path.join(ROOT, 'harness')
            dst_lock = os.path.join(hdir, 'Cargo.lock')
            toml = open(os.path.join(hdir, 'Cargo.toml.in')).read().replace('@REPO@', REPO)
            tpath = os.path.join(hdir, 'Cargo.toml')
            if not os.path.exists(tpath) or open(tpath).read() != toml:
                with open(tpath, 'w') as f:
                    f.write(toml)
            if not os.path.exists(dst_lock):
                shutil.copy(src_lock, dst_lock)
            cenv = {'CARGO_TARGET_DIR': os.path.join(CACHE, 'target')}
            rc, out = sh(['cargo', 'build', '--offline'], cwd=hdir, timeout=3000, env=cenv)
            if rc != 0 and 'Cargo.lock' in out:
                shutil.copy(src_lock, dst_lock)
                rc, out = sh(['cargo', 'build', '--offline'], cwd=hdir, timeout=3000, env=cenv)
        self.oblige('harness-builds-against-working-tree', rc == 0, out[-600:])
        if rc != 0:
            self.proof_broken.append('harness does not build against /repo working tree: ' + out[-300:])
        return rc == 0

    def harness(self, sub, lines, args=(), timeout=1200, shards=1, env=None):
        """run `verif-harness <sub> args` on input lines; returns output lines (same order)"""
        lines = list(lines)
        if shards <= 1 or len(lines) < 2 * shards:
            chunks = [lines]
        else:
            k = (len(lines) + shards - 1) // shards
            chunks = [lines[i:i + k] for i in range(0, len(lines), k)]

        def one(chunk):
            e = dict(os.environ)
            if env:
                e.update(env)
            try:
                p = subprocess.run([HARNESS_BIN, sub] + list(args), input='\n'.join(chunk) + '\n', stdout=subprocess.PIPE,
                                   stderr=subprocess.PIPE, text=True, timeout=timeout, env=e)
            except subprocess.TimeoutExpired:
                return 124, '', f'timeout after {timeout}s'
            return p.returncode, p.stdout, p.stderr
        with concurrent.futures.ThreadPoolExecutor(max_workers=max(1, len(chunks))) as ex:
            results = list(ex.map(one, chunks))
        out_lines = []
        for (rc, out, err), chunk in zip(results, chunks):
            ls = out.split('\n')
            if ls and ls[-1] == '':
                ls.pop()
            if rc != 0 or len(ls) != len(chunk):
                raise HarnessError(f'harness {sub}: rc={rc}, {len(ls)} lines for {len(chunk)} cases; stdout tail: {out[-300:]} stderr tail: {err[-500:]}')
            out_lines.extend(ls)
        return out_lines

    # ------------------------------------------------------------------ 4. evaluate the model
    def coq_eval(self, requires, fn, cases, case_type='_', preamble='', per_shard=200, timeout=1800):
        """evaluate `fn : case_type -> string` on Coq terms `cases` with vm_compute, sharded"""
        cases = list(cases)
        if not cases:
            return []
        nshards = max(1, min(NPROC, (len(cases) + per_shard - 1) // per_shard))
        k = (len(cases) + nshards - 1) // nshards
        chunks = [cases[i:i + k] for i in range(0, len(cases), k)]
        d = os.path.join(CACHE, 'eval', f'{self.prop}_{os.getpid()}')
        shutil.rmtree(d, ignore_errors=True)
        os.makedirs(d)
        head = ('From Coq Require Import NArith ZArith List String Ascii Bool.\nImport ListNotations.\n'
                'From Rodbus Require Import ' + ' '.join(requires) + '.\n'
                'Set Printing Depth 100000000.\nSet Printing Width 100000000.\n'
                'Local Open Scope N_scope.\n' + preamble + '\n')

        def one(ix):
            path = os.path.join(d, f'cases{ix}.v')
            with open(path, 'w') as f:
                f.write(head)
                f.write(f'Definition cases : list ({case_type}) := [\n')
                f.write(';\n'.join(chunks[ix]))
                f.write('\n].\nEval vm_compute in (List.map (' + fn + ') cases).\n')
            rc, out = sh(['coqc', '-noglob', '-Q', os.path.join(COQ, 'theories'), 'Rodbus', path], cwd=d, timeout=timeout)
            return rc, out
        with concurrent.futures.ThreadPoolExecutor(max_workers=nshards) as ex:
            results = list(ex.map(one, range(len(chunks))))
        res = []
        for ix, (rc, out) in enumerate(results):
            if rc != 0:
                raise ModelEvalError(f'coqc failed on shard {ix}: {out[-600:]}')
            strs = [m.group(1).replace('""', '"') for m in re.finditer(r'"((?:[^"]|"")*)"', out)]
            if len(strs) != len(chunks[ix]):
                raise ModelEvalError(f'shard {ix}: {len(strs)} results for {len(chunks[ix])} cases: {out[:300]}')
            res.extend(strs)
        shutil.rmtree(d, ignore_errors=True)
        return res

    # ------------------------------------------------------------------ 5. decide
    def violation(self, key, what, replay, no_failing_input=False):
        """record a violation (or a known finding when `key` is listed in known_findings.txt)"""
        for f in self.known:
            if f.key == key:
                if key not in [k for k, _ in self.known_hits]:
                    self.known_hits.append((key, what))
                return 'known'
        replay = dict(replay)
        replay.update({'property': self.prop, 'key': key, 'what': what, 'seed': self.seed, 'tier': self.tier,
                       'no_failing_input_found': bool(no_failing_input)})
        h = hashlib.sha1(json.dumps(replay, sort_keys=True, default=str).encode()).hexdigest()[:12]
        d = os.path.join(ROOT, 'replays', self.prop)
        os.makedirs(d, exist_ok=True)
        path = os.path.join(d, h + '.json')
        replay['replay_cmd'] = f'bin/check {self.prop} --replay {path}'
        with open(path, 'w') as f:
            json.dump(replay, f, indent=1, default=str)
        if len([v for v in self.violations if v['key'] == key]) == 0:
            self.violations.append({'key': key, 'what': what, 'path': path, 'nfi': bool(no_failing_input)})
        return 'violation'

    def finish(self, level='proof', extra_cov=None):
        failed = [o for o in self.obligations if not o[1]]
        if failed and not self.proof_broken:
            self.proof_broken.append('obligation failed: ' + '; '.join(f'{n}: {d[:120]}' for n, _, d in failed[:3]))
        # a broken proof obligation / tie with no concrete failing input found is still a violation
        concrete = [v for v in self.violations if not v['nfi']]
        if self.proof_broken and not concrete and not any(v['nfi'] for v in self.violations):
            self.violation('proof-or-tie-broken', self.proof_broken[0],
                           {'broken': self.proof_broken,
                            'explanation': 'a theorem, the translator tie or the model/implementation correspondence no longer checks and the search found no input on which the implementation differs from the Spec'},
                           no_failing_input=True)
        cov = dict(self.coverage)
        if extra_cov:
            cov.update(extra_cov)
        n_ob = len(self.obligations)
        n_ok = len([o for o in self.obligations if o[1]])
        cov.setdefault('evaluations', 0)
        cov.setdefault('distinct_nontrivial', 0)
        cov.setdefault('rule', '')
        cov.setdefault('samples', [])
        cov['obligations'] = n_ob
        cov['discharged'] = n_ok
        cov['obligation_list'] = [{'name': n, 'ok': ok, 'detail': d[:200]} for n, ok, d in self.obligations]
        cov['checker_cmd'] = f'cd /verif/coq && make theories/Properties/{self.prop}.vo && coqc -Q theories Rodbus theories/Properties/{self.prop}.v  (via bin/check {self.prop} --tier {self.tier})'
        cov['trusted_base'] = TRUSTED_BASE
        cov['known_findings_matched'] = [k for k, _ in self.known_hits]
        cov['gen_files'] = {k: v.get('ok') for k, v in self.gen_report.items()}
        ev = {
            'property_id': self.prop, 'tier': self.tier, 'seed': self.seed, 'level': level,
            'coverage': cov, 'assumptions': self.assumptions, 'wall_s': round(time.time() - self.t0, 2),
            'violations': len(self.violations),
        }
        if not self.replay:
            os.makedirs(os.path.join(ROOT, 'evidence'), exist_ok=True)
            with open(os.path.join(ROOT, 'evidence', self.prop + '.json'), 'w') as f:
                json.dump(ev, f, indent=1, default=str)
        for key, what in self.known_hits:
            print(f'KNOWN-FINDING: property={self.prop} {key} {what}')
        for v in self.violations:
            tail = ' no-failing-input-found' if v['nfi'] else ''
            print(f'VIOLATION property={self.prop} replay={v["path"]}{tail}')
        if self.violations:
            return 1
        print(f'OK property={self.prop} tier={self.tier} obligations={n_ok}/{n_ob} evaluations={cov["evaluations"]} wall={ev["wall_s"]}s')
        return 0


class HarnessError(Exception):
    pass


class ModelEvalError(Exception):
    pass


# ---------------------------------------------------------------------- helpers for checks
def coq_N_list(xs):
    return '[' + ';'.join(str(int(x)) for x in xs) + ']'


def coq_bool(b):
    return 'true' if b else 'false'


def distinct_count(items):
    return len(set(items))


def shrink(case, fails, candidates):
    """greedy shrink: `candidates(case)` yields smaller cases; keep any for which `fails` holds"""
    improved = True
    budget = 200
    while improved and budget > 0:
        improved = False
        for c in candidates(case):
            budget -= 1
            if budget <= 0:
                break
            try:
                if fails(c):
                    case = c
                    improved = True
                    break
            except Exception:
                continue
    return case


def shrink_batch(case, fails_batch, candidates, rounds=40, width=24):
    """greedy shrink where candidates are judged a batch at a time (one harness + one coqc call per round)"""
    for _ in range(rounds):
        cands = []
        for c in candidates(case):
            if c != case and c not in cands:
                cands.append(c)
            if len(cands) >= width:
                break
        if not cands:
            break
        try:
            verdicts = fails_batch(cands)
        except Exception:
            break
        nxt = next((c for c, v in zip(cands, verdicts) if v), None)
        if nxt is None:
            break
        case = nxt
    return case
