"""Grammar-aware generators of Modbus byte streams (shared by the C07 and C20 checks).

Everything is derived from the random.Random instance handed in, so a seed replays exactly.
"""
BOUNDARY_QTY = [0, 1, 7, 8, 9, 16, 123, 124, 125, 126, 1968, 1969, 1976, 1977, 2000, 2001, 2008, 2040, 2041, 65535]
BOUNDARY_ADDR = [0, 1, 2, 255, 256, 2999, 3000, 65534, 65535]
FCS = [1, 2, 3, 4, 5, 6, 15, 16]


def crc16(data):
    crc = 0xFFFF
    for b in data:
        crc ^= b
        for _ in range(8):
            crc = (crc >> 1) ^ 0xA001 if crc & 1 else crc >> 1
    return crc


def be16(v):
    return [(v >> 8) & 0xFF, v & 0xFF]


def request_pdu(r, fc=None, valid=True):
    fc = fc if fc is not None else r.choice(FCS)
    start = r.choice(BOUNDARY_ADDR + [r.randrange(0, 65536)])
    if fc in (1, 2):
        qty = r.choice([1, 5, 8, 9, 100, 2000] if valid else BOUNDARY_QTY)
        return [fc] + be16(start) + be16(qty)
    if fc in (3, 4):
        qty = r.choice([1, 2, 50, 125] if valid else BOUNDARY_QTY)
        return [fc] + be16(start) + be16(qty)
    if fc == 5:
        return [fc] + be16(start) + (r.choice([[0xFF, 0], [0, 0]]) if valid else be16(r.choice([0xFF00, 0, 1, 0xFF01, 0xFFFF])))
    if fc == 6:
        return [fc] + be16(start) + be16(r.randrange(0, 65536))
    if fc == 15:
        qty = r.choice([1, 8, 9, 17, 100] if valid else [0, 1, 8, 9, 1968, 1969, 1976, 2000])
        nb = (qty + 7) // 8
        return [fc] + be16(start) + be16(qty) + [nb & 0xFF] + [r.randrange(0, 256) for _ in range(min(nb, 250))]
    qty = r.choice([1, 2, 10, 60] if valid else [0, 1, 2, 123, 124, 125])
    return [fc] + be16(start) + be16(qty) + [(2 * qty) & 0xFF] + [r.randrange(0, 256) for _ in range(min(2 * qty, 250))]


def response_pdu(r, fc=None):
    """a reply PDU of roughly the right shape for function fc (for a request of 5 registers / coils by default)"""
    fc = fc if fc is not None else r.choice(FCS)
    kind = r.random()
    if kind < 0.15:
        ex = [fc | 0x80, r.choice([1, 2, 3, 4, 5, 6, 8, 10, 11, 0, 7, 255])]
        # a third of the exception responses are malformed: trailing bytes after the code, or the code missing
        k = r.random()
        if k < 0.25:
            ex += [r.randrange(0, 256) for _ in range(r.choice([1, 1, 2, 5]))]
        elif k < 0.33:
            ex = ex[:1]
        return ex
    if fc in (1, 2):
        n = r.choice([1, 2, 5, 250])
        return [fc, n] + [r.randrange(0, 256) for _ in range(n)]
    if fc in (3, 4):
        n = r.choice([1, 5, 10, 125])
        return [fc, (2 * n) & 0xFF] + [r.randrange(0, 256) for _ in range(2 * n)]
    if fc == 6 and r.random() < 0.5:
        return [6, 0, 3, 0x33, 0x33]
    return [fc] + be16(r.choice(BOUNDARY_ADDR)) + be16(r.choice([0xFF00, 0, 1, 5, 65535]))


def mutate(r, pdu):
    pdu = list(pdu)
    k = r.random()
    if k < 0.2 and pdu:
        return pdu[:r.randrange(0, len(pdu))]
    if k < 0.4:
        return pdu + [r.randrange(0, 256) for _ in range(r.choice([1, 2, 3, 50, 200]))]
    if k < 0.6 and pdu:
        i = r.randrange(0, len(pdu))
        pdu[i] = r.randrange(0, 256)
        return pdu
    if k < 0.7 and pdu:
        pdu[0] = r.choice([0, 7, 8, 17, 43, 0x80, 0x83, 0x90, 0xFF, 127, 128])
        return pdu
    if k < 0.8 and len(pdu) > 5:
        pdu[5] = r.choice([0, 1, 255, 254, 250])
        return pdu
    return pdu


def mbap(tx, unit, pdu, r=None, bad=None):
    length = len(pdu) + 1
    proto = 0
    if bad == 'proto':
        proto = r.choice([1, 5, 256, 65535])
    elif bad == 'len0':
        length = 0
    elif bad == 'lenbig':
        length = r.choice([255, 256, 1000, 65535])
    elif bad == 'lenlie':
        length = max(1, length + r.choice([-2, -1, 1, 2, 7]))
    return be16(tx) + be16(proto) + be16(length & 0xFFFF) + [unit] + pdu


def rtu(unit, pdu, r=None, bad=None):
    body = [unit] + pdu
    c = crc16(body)
    lo, hi = c & 0xFF, c >> 8
    if bad == 'crc':
        lo ^= 1 << r.randrange(0, 8)
    elif bad == 'swap':
        lo, hi = hi, lo
    return body + [lo, hi]


def stream(r, role, framing, nframes=None, reply_fc=3):
    """(bytes, description) - a mostly valid stream with a minority of malformed frames"""
    n = nframes if nframes is not None else r.choice([1, 1, 2, 3, 5, 8])
    out, desc = [], []
    style = r.random()
    if style < 0.12:
        ln = r.choice([1, 2, 6, 7, 8, 20, 259, 260, 261, 600])
        return [r.randrange(0, 256) for _ in range(ln)], ['raw']
    for i in range(n):
        valid = r.random() < 0.7
        if role == 'server':
            pdu = request_pdu(r, valid=valid)
        else:
            pdu = response_pdu(r, fc=reply_fc if r.random() < 0.6 else None)
        if r.random() < (0.1 if valid else 0.5):
            pdu = mutate(r, pdu)
            valid = False
        bad = None
        if r.random() < 0.12:
            bad = r.choice(['proto', 'len0', 'lenbig', 'lenlie'] if framing == 'tcp' else ['crc', 'swap'])
        unit = r.choice([1, 1, 1, 2, 0, 3, 247, 255])
        tx = i if (role == 'client' and r.random() < 0.8) else r.randrange(0, 65536)
        fr = mbap(tx, unit, pdu, r, bad) if framing == 'tcp' else rtu(unit, pdu, r, bad)
        out += fr
        desc.append(('ok' if valid else 'mut') + (('+' + bad) if bad else ''))
    if r.random() < 0.15 and out:
        out = out[:r.randrange(1, len(out) + 1)]
        desc.append('trunc')
    return out, desc


def chunk(r, data, style=None):
    """split data into read chunks"""
    style = style or r.choice(['all', 'bytes', 'rand', 'rand', 'edge', 'header'])
    n = len(data)
    if n == 0:
        return []
    if style == 'all':
        cuts = []
    elif style == 'bytes':
        cuts = list(range(1, n))
    elif style == 'edge':
        # leave the 260-byte buffer nearly/exactly full with a few bytes consumed
        cuts = sorted(set(c for c in [r.randrange(1, 8), 259, 260, 261, 260 + r.randrange(1, 8), 519, 520] if c < n))
    elif style == 'header':
        cuts = sorted(set(c for c in [1, 2, 5, 6, 7, 8, 9] if c < n))
    else:
        k = r.randrange(0, min(n, 12))
        cuts = sorted(set(r.randrange(1, n) for _ in range(k))) if n > 1 else []
    res, prev = [], 0
    for c in cuts + [n]:
        if c > prev:
            res.append(data[prev:c])
            prev = c
    return res


def client_request(r):
    """(reply function code, leading tokens) of the client's outstanding request: mostly the read of five holding
    registers, a quarter of the time a write-single-register (`@Qw`; its completion goes through another promise type)"""
    return (6, ['@Qw']) if r.random() < 0.25 else (3, [])


def with_drop(r, toks, p=0.2):
    """for a minority of client streams the application drops the request's future at a random position (`@X`)"""
    if r.random() < p:
        q = r.randrange(0, len(toks) + 1)
        return toks[:q] + ['@X'] + toks[q:]
    return toks


def tokens(r, role, chunks, p_write=0.25):
    """read chunks as harness tokens, for a minority of streams with a scripted transmit side: `@Wb` (the
    transmit path is full from here on: a peer that does not read), `@Wa<k>` (next write call taken up to k
    bytes), `@R` (room again). For the client a leading write token takes effect before the request is sent."""
    toks = [hexs(c) for c in chunks]
    if role == 'server' and r.random() < 0.2:
        # a session with an authorization handler whose queries are observable (counting policy)
        return ['@A'] + (toks if r.random() < 0.7 else tokens(r, 'server-noauth', chunks, p_write=1.0))
    if r.random() >= p_write:
        return toks
    kind = r.random()
    pos = 0 if (role == 'client' and r.random() < 0.6) else r.randrange(0, len(toks) + 1)
    if kind < 0.55:
        ins = ['@Wb']
    elif kind < 0.8:
        ins = ['@Wa%d' % r.choice([0, 1, 2, 5, 7, 8, 11, 12, 100]), '@Wb']
    else:
        ins = ['@Wa%d' % r.choice([1, 2, 5, 7, 8, 11, 12, 100]) for _ in range(r.choice([1, 2, 3]))]
    toks = toks[:pos] + ins + toks[pos:]
    if '@Wb' in ins and r.random() < 0.5:
        q = r.randrange(pos + len(ins), len(toks) + 1)
        toks = toks[:q] + ['@R'] + toks[q:]
    return toks


def hexs(bs):
    return ''.join('%02X' % b for b in bs)
