"""C09 - TLS admits only authenticated peers at or above the minimum protocol version.

Theorems (coq/theories/Properties/C09.v) on the GENERATED tables Gen/TlsVersions.v (minimum version ->
enabled versions) and Gen/TlsModes.v (certificate mode -> verifier constructor / name check, Rust
and C ABI), on the transcription of extract_modbus_role and on the session-establishment order.
Correspondence: the handshake grid on loopback - rodbus TLS server / client against `openssl
s_client` / `s_server`, against each other, and against a plain-TCP peer - with static
certificates; the expected outcome of every cell is computed by the Coq model AND the Spec from the
cell's ground truth (who signed the presented certificate, validity, name, role extensions).
"""
import os
import vlib

OPENSSL = '/root/miniconda/bin/openssl'
REQ = ['Base.Show', 'Spec.TlsSpec', 'Gen.TlsVersions', 'Gen.TlsModes', 'Model.Tls']
# the Spec alone (no generated table, no model): still evaluable when the translator rejects a TLS table or the
# model no longer compiles, so that the live grid can name a concrete failing cell
REQ_SPEC = ['Base.Show', 'Spec.TlsSpec']
CASE_T_SPEC = 'endpoint * peer'
FN_SPEC = ('fun c : endpoint * peer => let \'(ep, p) := c in match expected ep p with Refused => "REFUSED" | Established v role => '
           '"OK:" ++ (match v with TLS12 => "TLSv1.2" | TLS13 => "TLSv1.3" end) ++ ":" ++ (match role with Some x => x | None => "-" end) end')
REPO_CERTS = os.path.join(vlib.REPO, 'certs')
OWN = os.path.join(vlib.ROOT, 'certs')

# ---------------------------------------------------------------- static certificate registry
# name -> (cert path, key path, issuer id, validity, SAN dns name or None, role extension values)
CERTS = {}


def _reg(name, cert, key, issuer, validity, san, roles, cn='DO NOT USE', chain=None):
    CERTS[name] = {'cert': cert, 'key': key, 'issuer': issuer, 'validity': validity, 'san': san, 'roles': roles, 'name': name, 'cn': cn, 'chain': chain}


def _init_certs():
    r, o = REPO_CERTS, OWN
    _reg('repo/server', f'{r}/ca_chain/server_cert.pem', f'{r}/ca_chain/server_key.pem', 'repoCA', 'ok', 'test.com', [])
    _reg('repo/client', f'{r}/ca_chain/client_cert.pem', f'{r}/ca_chain/client_key.pem', 'repoCA', 'ok', None, ['operator'])
    _reg('repo/entity1', f'{r}/self_signed/entity1_cert.pem', f'{r}/self_signed/entity1_key.pem', 'self', 'ok', None, ['operator'])
    _reg('repo/entity2', f'{r}/self_signed/entity2_cert.pem', f'{r}/self_signed/entity2_key.pem', 'self', 'ok', 'test.com', [])
    for n, val, san, roles in [('server', 'ok', 'test.com', []), ('server_wrongname', 'ok', 'wrong.example', []),
                               ('server_expired', 'expired', 'test.com', []), ('server_notyet', 'notyet', 'test.com', []),
                               ('client', 'ok', None, ['operator']), ('client_expired', 'expired', None, ['operator']),
                               ('client_notyet', 'notyet', None, ['operator']), ('client_otherrole', 'ok', None, ['viewer']),
                               ('client_roleless', 'ok', 'client.example', []), ('client_tworoles', 'ok', None, ['operator', 'engineer']),
                               ('client_mixedrole', 'ok', None, ['Plant-Operator.v2'])]:
        _reg(f'ca2/{n}', f'{o}/ca2/{n}_cert.pem', f'{o}/ca2/{n}_key.pem', 'ca2', val, san, roles)
    # name handling (SAN-or-CN) and an intermediate authority
    _reg('ca2/server_cnonly', f'{o}/ca2/server_cnonly_cert.pem', f'{o}/ca2/server_cnonly_key.pem', 'ca2', 'ok', None, [], cn='test.com')
    _reg('ca2/server_sanother_cntest', f'{o}/ca2/server_sanother_cntest_cert.pem', f'{o}/ca2/server_sanother_cntest_key.pem', 'ca2', 'ok', 'other.example', [], cn='test.com')
    _reg('ca2/server_viaint', f'{o}/ca2/server_viaint_cert.pem', f'{o}/ca2/server_viaint_key.pem', 'ca2-int', 'ok', 'test.com', [], chain=f'{o}/ca2/int_cert.pem')
    _reg('ca2/client_viaint', f'{o}/ca2/client_viaint_cert.pem', f'{o}/ca2/client_viaint_key.pem', 'ca2-int', 'ok', None, ['operator'], chain=f'{o}/ca2/int_cert.pem')
    for n, val, san, roles in [('client', 'ok', None, ['operator']), ('client_expired', 'expired', None, ['operator']),
                               ('client_notyet', 'notyet', None, ['operator']), ('client_otherrole', 'ok', None, ['viewer']),
                               ('client_roleless', 'ok', 'client.example', []), ('server', 'ok', 'test.com', []),
                               ('client_tworoles', 'ok', None, ['operator', 'engineer']),
                               ('server_expired', 'expired', 'test.com', []), ('server_notyet', 'notyet', 'test.com', [])]:
        _reg(f'ss/{n}', f'{o}/ss/{n}_cert.pem', f'{o}/ss/{n}_key.pem', 'self', val, san, roles)


CA_FILES = {}


def _init_cas():
    CA_FILES['repoCA'] = f'{REPO_CERTS}/ca_chain/ca_cert.pem'
    CA_FILES['ca2'] = f'{OWN}/ca2/ca_cert.pem'


# ---------------------------------------------------------------- cells
def cell(side, mn, mode, authz, name, trust, local, peer, offer, presented, label):
    """trust: CA id (mode ca) or cert name (mode ss) configured as peer_cert_path of the endpoint under
    test; local: its own cert name; presented: the cert name the peer presents (None for a plain peer)"""
    return {'side': side, 'min': mn, 'mode': mode, 'authz': authz, 'name': name, 'trust': trust, 'local': local,
            'peer': peer, 'offer': offer, 'presented': presented, 'label': label}


def truth(c):
    """ground truth about the presented certificate relative to the endpoint's configuration"""
    pname, with_chain = presented_of(c)
    p = CERTS.get(pname) if pname else None
    if p is None:
        return dict(chains=False, identical=False, valid=False, name=False, roles=[], offers12=False, offers13=False)
    # a certificate issued by the intermediate chains to the authority iff the intermediate is presented with it
    chains = c['mode'] == 'ca' and (p['issuer'] == c['trust'] or (with_chain and p['issuer'] == c['trust'] + '-int'))
    identical = c['mode'] == 'ss' and pname == c['trust']
    # SAN-or-CN: the subjectAltName decides when there is one, otherwise the common name
    name_ok = bool(c['name']) and ((p['san'] == c['name']) if p['san'] else (p['cn'] == c['name']))
    return dict(chains=chains, identical=identical, valid=p['validity'] == 'ok', name=name_ok, roles=p['roles'],
                offers12=c['offer'] in ('12', 'both'), offers13=c['offer'] in ('13', 'both'))


def presented_of(c):
    """(certificate name, presented together with its intermediate)"""
    n = c['presented']
    if n and n.endswith('+chain'):
        return n[:-6], True
    return n, False


def harness_line(c):
    loc = CERTS[c['local']]
    trust = CA_FILES[c['trust']] if c['mode'] == 'ca' else CERTS[c['trust']]['cert']
    t = [f'side={c["side"]}', f'min={c["min"]}', f'mode={c["mode"]}', f'authz={int(c["authz"])}', f'name={c["name"] or "-"}',
         f'trust={trust}', f'cert={loc["cert"]}', f'key={loc["key"]}', f'peer={c["peer"]}', f'offer={c["offer"]}']
    if c.get('ctor'):
        t.append(f'ctor={c["ctor"]}')
    if 'wild' in c:
        t.append(f'wildcard={int(c["wild"])}')
    if c.get('gate'):
        t.append(f'gate={c["gate"]}')
    if c.get('stuck'):
        t.append(f'stuck={c["stuck"]}')
    if c['presented']:
        pname, with_chain = presented_of(c)
        p = CERTS[pname]
        # what the PEER trusts: whatever makes it accept the endpoint under test (the peer is not under test)
        if c['mode'] == 'ca':
            ptrust = CA_FILES[loc['issuer']] if loc['issuer'] in CA_FILES else loc['cert']
            pmode = 'ca'
        else:
            ptrust = loc['cert']
            pmode = 'ss'
        pcert = p['cert']
        if with_chain and c['peer'] == 'rodbus':
            pcert = p['cert'].replace('_cert.pem', '_fullchain.pem')      # leaf + intermediate in one file
        t += [f'pmode={pmode}', f'ptrust={ptrust}', f'pcert={pcert}', f'pkey={p["key"]}', 'pauthz=0']
        if with_chain and c['peer'] == 'openssl':
            t.append(f'pchain={p["chain"]}')
        if c['side'] in ('server', 'ffiserver') and pmode == 'ca':
            t.append(f'pname={loc["san"] or "-"}')
    return ' '.join(t)


def to_coq(c, spec_only=False):
    g = truth(c)
    b = vlib.coq_bool
    exts = 'Some [OtherExtension 0' + ''.join(f'; ModbusRole "{r}"' for r in g['roles']) + ']' if c['presented'] else 'None'
    cert = (f'{{| chains_to_authority := {b(g["chains"])}; identical_to_configured := {b(g["identical"])}; '
            f'within_validity := {b(g["valid"])}; name_matches := {b(g["name"])}; cert_exts := {exts} |}}')
    peer = f'{{| offers12 := {b(g["offers12"])}; offers13 := {b(g["offers13"])}; presented := {cert} |}}'
    side = 'ServerSide' if c['side'] in ('server', 'ffiserver') else 'ClientSide'
    mn = 'V1_2' if c['min'] == '12' else 'V1_3'
    mode = 'AuthorityBased' if c['mode'] == 'ca' else 'SelfSigned'
    ep = (f'{{| e_side := {side}; e_min := {"TLS12" if c["min"] == "12" else "TLS13"}; e_mode := {"ModeAuthority" if c["mode"] == "ca" else "ModeSelfSigned"}; '
          f'e_authz := {b(c["authz"])}; e_expects_name := {b(bool(c["name"]))} |}}')
    if spec_only:
        return f'({ep}, {peer})'
    return f'(({side}, {mn}, {mode}, {b(c["authz"])}, {b(bool(c["name"]))}), {ep}, {peer})'


CASE_T = '(side * min_tls_version * certificate_mode * bool * bool) * endpoint * peer'
FN = ('fun c : ' + CASE_T + ' => let \'((s, mn, mode, authz, ng), ep, p) := c in '
      'let sh := fun r : result => match r with Refused => "REFUSED" | Established v role => '
      '"OK:" ++ (match v with TLS12 => "TLSv1.2" | TLS13 => "TLSv1.3" end) ++ ":" ++ (match role with Some x => x | None => "-" end) end in '
      'sh (handshake s mn mode authz ng p) ++ "#" ++ sh (expected ep p)')


def grid(full):
    cells = []
    add = cells.append
    # ------------------------------------------------ rodbus server under test
    server_ca = [  # (label, trust CA, local server cert, presented client cert)
        ('valid', 'repoCA', 'repo/server', 'repo/client'), ('valid2', 'ca2', 'ca2/server', 'ca2/client'),
        ('wrong-authority', 'repoCA', 'repo/server', 'ca2/client'), ('wrong-authority2', 'ca2', 'ca2/server', 'repo/client'),
        ('expired', 'ca2', 'ca2/server', 'ca2/client_expired'), ('not-yet-valid', 'ca2', 'ca2/server', 'ca2/client_notyet'),
        ('role-less', 'ca2', 'ca2/server', 'ca2/client_roleless'), ('other-role', 'ca2', 'ca2/server', 'ca2/client_otherrole'),
        ('two-roles', 'ca2', 'ca2/server', 'ca2/client_tworoles'), ('mixed-case-role', 'ca2', 'ca2/server', 'ca2/client_mixedrole'),
        ('via-intermediate', 'ca2', 'ca2/server', 'ca2/client_viaint+chain'), ('missing-intermediate', 'ca2', 'ca2/server', 'ca2/client_viaint'),
    ]
    server_ss = [  # (label, configured peer cert, local, presented)
        ('valid', 'repo/entity1', 'repo/entity2', 'repo/entity1'), ('valid2', 'ss/client', 'ss/server', 'ss/client'),
        ('not-the-configured-cert', 'ss/client', 'ss/server', 'ss/client_otherrole'), ('not-the-configured-cert2', 'repo/entity1', 'repo/entity2', 'ss/client'),
        ('expired', 'ss/client_expired', 'ss/server', 'ss/client_expired'), ('not-yet-valid', 'ss/client_notyet', 'ss/server', 'ss/client_notyet'),
        ('role-less', 'ss/client_roleless', 'ss/server', 'ss/client_roleless'), ('other-role', 'ss/client_otherrole', 'ss/server', 'ss/client_otherrole'),
        ('two-roles', 'ss/client_tworoles', 'ss/server', 'ss/client_tworoles'),
    ]
    for mn in ('12', '13'):
        for mode, scen in (('ca', server_ca), ('ss', server_ss)):
            for authz in (True, False):
                for peer, offers in (('openssl', ('12', '13', 'both')), ('rodbus', ('13', 'both'))):
                    for offer in offers:
                        for label, trust, local, pres in scen:
                            add(cell('server', mn, mode, authz, None, trust, local, peer, offer, pres, label))
            add(cell('server', mn, mode, True, None, scen[1][1], scen[1][2], 'plain', 'both', None, 'modbus-in-clear'))
            # the same server created through the C ABI (rodbus_server_create_tls / _with_authz), independent peer
            for authz in (True, False):
                for offer in ('12', '13', 'both'):
                    for label, trust, local, pres in scen:
                        add(cell('ffiserver', mn, mode, authz, None, trust, local, 'openssl', offer, pres, label))
    # ------------------------------------------------ rodbus client under test
    client_ca = [  # (label, expected name, trust CA, local client cert, presented server cert)
        ('valid', 'test.com', 'repoCA', 'repo/client', 'repo/server'), ('valid2', 'test.com', 'ca2', 'ca2/client', 'ca2/server'),
        ('wrong-name', 'test.com', 'ca2', 'ca2/client', 'ca2/server_wrongname'), ('other-name-expected', 'other.example', 'ca2', 'ca2/client', 'ca2/server'),
        ('no-name-expected', None, 'ca2', 'ca2/client', 'ca2/server_wrongname'),
        ('wrong-authority', 'test.com', 'ca2', 'ca2/client', 'repo/server'), ('wrong-authority2', 'test.com', 'repoCA', 'repo/client', 'ca2/server'),
        ('expired', 'test.com', 'ca2', 'ca2/client', 'ca2/server_expired'), ('not-yet-valid', 'test.com', 'ca2', 'ca2/client', 'ca2/server_notyet'),
        ('name-in-cn-no-san', 'test.com', 'ca2', 'ca2/client', 'ca2/server_cnonly'), ('name-in-cn-but-other-san', 'test.com', 'ca2', 'ca2/client', 'ca2/server_sanother_cntest'),
        ('via-intermediate', 'test.com', 'ca2', 'ca2/client', 'ca2/server_viaint+chain'), ('missing-intermediate', 'test.com', 'ca2', 'ca2/client', 'ca2/server_viaint'),
        # the expected server name given as an IP literal: the certificate (DNS:test.com only) is not valid for it
        ('ip-literal-name-expected', '127.0.0.1', 'ca2', 'ca2/client', 'ca2/server'), ('ip-literal-name-expected', '127.0.0.1', 'repoCA', 'repo/client', 'repo/server'),
    ]
    client_ss = [  # (label, configured peer cert, local, presented)
        ('valid', 'repo/entity2', 'repo/entity1', 'repo/entity2'), ('valid2', 'ss/server', 'ss/client', 'ss/server'),
        ('not-the-configured-cert', 'ss/server', 'ss/client', 'repo/entity2'),
        ('expired', 'ss/server_expired', 'ss/client', 'ss/server_expired'), ('not-yet-valid', 'ss/server_notyet', 'ss/client', 'ss/server_notyet'),
    ]
    for mn in ('12', '13'):
        for peer, offers in (('openssl', ('12', '13', 'both')), ('rodbus', ('13', 'both'))):
            for offer in offers:
                for label, name, trust, local, pres in client_ca:
                    add(cell('client', mn, 'ca', False, name, trust, local, peer, offer, pres, label))
                for label, trust, local, pres in client_ss:
                    add(cell('client', mn, 'ss', False, None, trust, local, peer, offer, pres, label))
    # the client built with the DEPRECATED constructor TlsClientConfig::new (always with a server name), independent peer
    for mn in ('12', '13'):
        for offer in ('12', '13', 'both'):
            for label, name, trust, local, pres in client_ca:
                if name:
                    add(dict(cell('client', mn, 'ca', False, name, trust, local, 'openssl', offer, pres, label), ctor='new'))
            for label, trust, local, pres in client_ss:
                add(dict(cell('client', mn, 'ss', False, 'test.com', trust, local, 'openssl', offer, pres, label), ctor='new'))
    # the client created through the C ABI (rodbus_client_channel_create_tls), independent peer
    for mn in ('12', '13'):
        for offer in ('12', '13', 'both'):
            for label, name, trust, local, pres in client_ca:
                add(cell('fficlient', mn, 'ca', False, name, trust, local, 'openssl', offer, pres, label))
            for label, trust, local, pres in client_ss:
                add(cell('fficlient', mn, 'ss', False, None, trust, local, 'openssl', offer, pres, label))
    # C ABI client: allow_server_name_wildcard x dns_name. Name verification is off only for dns_name "*" WITH the wildcard
    # permitted; a real name is verified whether or not the wildcard is permitted; "*" without permission is not a name
    # any certificate carries (the channel cannot even be created)
    for mn in ('12', '13'):
        for offer in ('12', '13', 'both'):
            for label, dns, wild, pres in [('wildcard-permitted-right-name', 'test.com', True, 'ca2/server'),
                                           ('wildcard-permitted-wrong-name', 'wrong.example', True, 'ca2/server'),
                                           ('wildcard-permitted-right-name-of-wrongname-cert', 'wrong.example', True, 'ca2/server_wrongname'),
                                           ('star-without-permission', '*', False, 'ca2/server'),
                                           ('not-permitted-wrong-name', 'wrong.example', False, 'ca2/server')]:
                add(dict(cell('fficlient', mn, 'ca', False, dns, 'ca2', 'ca2/client', 'openssl', offer, pres, label), wild=wild))
    # a level change while the handshake is in flight: the ClientHello (of the peer for the server side, of the client
    # under test for the client side) is held back by a relay, set_decode_level is called on the ServerHandle / the
    # Channel under test, then the handshake goes on - the admission result must be the one without the level change
    gated = [dict(c, gate='level') for c in cells
             if c['side'] in ('server', 'client') and c['peer'] in ('openssl', 'rodbus') and not c.get('ctor') and c['min'] == '12' and c['offer'] in ('both', '13')
             and (c['authz'] or c['side'] == 'client')
             and c['label'] in ('valid', 'valid2', 'role-less', 'other-role', 'two-roles', 'wrong-authority', 'expired', 'wrong-name', 'not-the-configured-cert', 'via-intermediate')]
    cells += gated
    # two overlapping connections: one that is accepted first and never finishes its handshake (silent / 9 bytes of a
    # ClientHello / Modbus in clear) stays open while a peer arrives behind it - that peer's admission must be the
    # one it gets alone (within the harness's bound)
    behind = [dict(c, stuck=k) for k in ('silent', 'partial', 'plain') for c in cells
              if c['side'] == 'server' and c['peer'] in ('openssl', 'rodbus') and not c.get('gate') and c['min'] == '12' and c['offer'] == 'both'
              and c['label'] in ('valid', 'valid2', 'role-less', 'wrong-authority') and (c['authz'] or c['label'] in ('valid2', 'role-less'))]
    cells += behind
    if full:
        return cells
    # core grid: every version cell with a valid certificate against the independent peer, plus one
    # sweep of the certificate scenarios per side/mode, plus the plain-TCP cells
    core = []
    for c in cells:
        valid = c['label'] in ('valid', 'valid2')
        if c['peer'] == 'plain':
            core.append(c)
        elif c['peer'] == 'openssl' and c['label'] == 'valid' and (c['authz'] or c['side'] == 'client'):
            core.append(c)                                           # 2 min x 3 offers x 2 modes x 2 sides = 24
        elif c['peer'] == 'openssl' and not valid and c['min'] == '12' and c['offer'] == 'both' and (c['authz'] or c['side'] == 'client'):
            core.append(c)                                           # bad-certificate sweep, independent peer
        elif c['peer'] == 'openssl' and c['label'] in ('role-less', 'valid2') and c['min'] == '13' and c['offer'] == '13' and c['side'] == 'server' and not c['authz']:
            core.append(c)                                           # no authorization: role-less is fine
        elif c['peer'] == 'rodbus' and c['label'] in ('valid2', 'expired', 'wrong-name') and c['offer'] == 'both' and c['min'] == '13' and (c['authz'] or c['side'] == 'client'):
            core.append(c)                                           # rodbus against rodbus
    return core


SIDE_NAMES = {'ffiserver': 'server created through the C ABI', 'fficlient': 'client created through the C ABI'}


# ---------------------------------------------------------------------------------------------
# a TLS client against a peer that accepts the TCP connection and never answers (Properties/C09_ClientFront.v:
# ClientFront_shutdown_during_handshake, ClientFront_request_during_handshake_fails_fast, ClientFront_parked_is_connecting)
STALL_REQ = ['Base.Show', 'Spec.Lifecycle', 'Gen.SessionErrors', 'Model.ClientTask', 'Spec.TlsSpec', 'Gen.TlsVersions', 'Gen.TlsModes', 'Model.ClientFront']
STALL_T = 'list cevent'
STALL_FN = ('fun evs : list cevent => let o := snd (crun {| cfg_cap := 8%nat; cfg_res := 1 |} (CTls V1_2 AuthorityBased true) (cinit 1 None 30000000000 30000000000) evs) in '
            'show_list (fun l => match l with LDisabled => "Disabled" | LConnecting => "Connecting" | LConnected => "Connected" | LWaitFailed _ => "WaitAfterFailedConnect" '
            '| LWaitDisc _ => "WaitAfterDisconnect" | LShutdown => "Shutdown" end) "," (LDisabled :: listens_of o) ++ ";req=" ++ '
            '(match flat_map (fun x => match x with OComplete _ r => [r] | _ => [] end) o with [] => "none" | RErr ReNoConnection :: _ => "NoConnection" | _ => "other" end)')
STALL_EVENTS = {
    'S': ['CE (EvSubmit CShutdown SFuture)', 'CE EvRecv'],
    'D': ['CE (EvSubmit CDisable SFuture)', 'CE EvRecv'],
    'Q': ['CE (EvSubmit (CReq {| rq_id := 1%nat; rq_kind := KRead; rq_timeout := 2000000000 |}) SFuture)', 'CE EvRecv'],
}


def run_stalled_handshake(ctx):
    ops = ctx.replay['stall_ops'] if (ctx.replay and 'stall_ops' in ctx.replay) else ['S', 'D', 'Q', 'S', 'Q', 'D']
    certs = os.path.join(REPO_CERTS, 'ca_chain')
    impl = ctx.harness('clientstall', [f'{certs} {op}' for op in ops], timeout=600)
    want = ctx.coq_eval(STALL_REQ, STALL_FN, ['[' + '; '.join(['CE (EvSubmit CEnable SFuture)', 'CE EvRecv', 'CTcp true SrvStalls'] + STALL_EVENTS[op] + ['CE (EvTick 600000000)', 'CE EvTimer', 'CE EvRecv']) + ']' for op in ops],
                        case_type=STALL_T, preamble='Local Open Scope string_scope.')
    bad = 0
    names = {'S': 'shutdown', 'D': 'disable', 'Q': 'request'}
    for op, i, w in zip(ops, impl, want):
        if i != w:
            bad += 1
            if bad <= 2:
                what = {'S': 'Channel::shutdown() is not honoured while the handshake is pending', 'D': 'Channel::disable() is not honoured while the handshake is pending',
                        'Q': 'a request submitted while the handshake is pending is not failed with NoConnection'}[op]
                ctx.violation(f'tls.client.stalled-handshake.{names[op]}-not-honoured',
                              f'TLS client against a peer that accepts the TCP connection and never answers, {names[op]} during the stalled handshake: {what}: '
                              f'listener states / request result until the end of the stall: implementation {i} but composed model (= C13: shutdown / disable honoured, requests fail fast while not connected) {w}',
                              {'stall_ops': [op], 'impl': i, 'spec': w})
    ctx.oblige('correspondence:tls-client-stalled-handshake', bad == 0, f'{bad} of {len(ops)} scenarios differ')
    ctx.coverage['stalled_handshake_scenarios'] = len(ops)


def judge(c, impl, want):
    """compare one harness result with an expected 'OK:ver:role' / 'REFUSED'; returns None or a description"""
    if impl.startswith('CONFIG') and c.get('label') == 'star-without-permission':
        impl = 'REFUSED:-:-:0'          # the channel cannot be created: it never connects
    parts = impl.split(':')
    if len(parts) != 4 or parts[0] not in ('OK', 'REFUSED'):
        return f'unusable harness result {impl}'
    res, ver, roles, calls = parts
    w = want.split(':')
    if res != w[0]:
        return f'{res} but expected {w[0]}'
    if res == 'OK':
        if ver != '-' and ver != w[1]:
            return f'negotiated {ver} but expected {w[1]}'
        if c['side'] in ('server', 'ffiserver') and roles != w[2]:
            return f'role seen by the authorization handler {roles} but expected {w[2]}'
        if c['side'] in ('server', 'ffiserver') and calls != '1':
            return f'{calls} handler calls for one request'
    else:
        if calls != '0' or roles != '-':
            return f'refused peer reached the handlers (calls={calls}, roles={roles})'
    return None


def key_of(c, impl, want):
    got = impl.split(':')[0].lower()
    exp = want.split(':')[0].lower()
    what = f'{got}-expected-{exp}' if got != exp else 'details-differ'
    return f'tls.{c["side"]}{".deprecated-new" if c.get("ctor") else ""}{".level-change-during-handshake" if c.get("gate") else ""}{".behind-a-stuck-connection" if c.get("stuck") else ""}.min{c["min"]}.{c["mode"]}.{"authz" if c["authz"] else "noauthz"}.{c["label"]}.peer-{c["peer"]}-offers-{c["offer"]}.{what}'


def run(ctx):
    _init_certs()
    _init_cas()
    ctx.translate(['TlsVersions.v', 'TlsModes.v', 'SessionErrors.v'])   # SessionErrors.v: the client front-end theorems use p4's task model
    # the accept loop must not wait on any single connection (the handshake belongs to the spawned session): the
    # generated count of await points of ServerTask::handle outside the spawned session block (Gen/ServerForward.v) is 0
    n_await = None
    if ctx.translate(['ServerForward.v']):
        import re
        m = re.search(r'Definition handle_awaits : nat := (\d+)\.', open(os.path.join(vlib.COQ, 'theories', 'Gen', 'ServerForward.v')).read())
        n_await = int(m.group(1)) if m else None
    if not ctx.oblige('accept-loop-does-not-await-a-connection', n_await == 0, f'Gen/ServerForward.v handle_awaits = {n_await}'):
        ctx.proof_broken.append(f'ServerTask::handle awaits {n_await} time(s) outside the spawned session: a connection can hold up the accept loop')
    spec_ok = ctx.build_models(REQ_SPEC)
    models_ok = spec_ok and ctx.build_models(REQ)
    ctx.prove()
    if ctx.tier == 'thorough':
        ctx.coqchk()
    if not ctx.build_harness() or not spec_ok:
        return
    have_openssl = os.path.exists(OPENSSL)
    missing = [v['cert'] for v in CERTS.values() if not os.path.exists(v['cert']) or not os.path.exists(v['key'])]
    ctx.oblige('static-certificates-present', not missing, ','.join(missing[:4]))
    ctx.oblige('independent-peer-available', have_openssl, OPENSSL)
    if missing or not have_openssl:
        return
    if ctx.replay and 'stall_ops' in ctx.replay and 'cases' not in ctx.replay:
        return run_stalled_handshake(ctx)
    if ctx.replay and 'cases' in ctx.replay:
        cells = ctx.replay['cases']
    else:
        # one pass over the full grid costs a few seconds, so the quick tier sweeps it completely as well;
        # the thorough tier repeats the sweep three times in different orders (start-up races of the
        # external peer, port reuse) in addition to coqchk
        cells = []
        for _ in range(1 if ctx.quick() else 3):
            g = grid(full=True)
            ctx.rng.shuffle(g)
            cells += g
    impl = ctx.harness('tls', [harness_line(c) for c in cells], args=[OPENSSL], shards=4, timeout=900)
    if models_ok:
        both = ctx.coq_eval(REQ, FN, [to_coq(c) for c in cells], case_type=CASE_T, preamble='Local Open Scope string_scope.', per_shard=60)
    else:
        # the tie to the tables / the model is lost (reported as such): judge the live grid against the Spec alone
        spec_only = ctx.coq_eval(REQ_SPEC, FN_SPEC, [to_coq(c, spec_only=True) for c in cells], case_type=CASE_T_SPEC,
                                 preamble='Local Open Scope string_scope.', per_shard=60)
        both = [f'{x}#{x}' for x in spec_only]
        ctx.coverage['model_unavailable_judged_against_spec_only'] = True
    # a failing cell is repeated once on its own (process start-up races of the external peer), outcome only
    suspects = [k for k, (c, i, b) in enumerate(zip(cells, impl, both)) if judge(c, i, b.split('#')[1]) or judge(c, i, b.split('#')[0])]
    repeated_detail = [[cells[k]['side'], cells[k]['label'], cells[k]['peer'], cells[k]['offer'], impl[k], both[k].split('#')[1]] for k in suspects[:8]]
    if suspects:
        again = ctx.harness('tls', [harness_line(cells[k]) for k in suspects], args=[OPENSSL], shards=1, timeout=900)
        for k, i2 in zip(suspects, again):
            if judge(cells[k], i2, both[k].split('#')[1]) is None and judge(cells[k], i2, both[k].split('#')[0]) is None:
                impl[k] = i2
    n_spec = n_model = 0
    failing = []
    model_only = []
    for c, i, b in zip(cells, impl, both):
        model, spec = b.split('#')
        d = judge(c, i, spec)
        if d:
            n_spec += 1
            failing.append((c, i, spec, d))
        elif judge(c, i, model):
            n_model += 1
            model_only.append((c, i, model, spec))
    # report the simplest representatives first: independent peer, valid certificate
    # (a cell that agrees with the Spec but not with the model is only reported when nothing concrete failed)
    if model_only and not failing:
        c, i, model, spec = model_only[0]
        ctx.violation('model-differs-from-impl', f'{c["label"]}: {harness_line(c)}', {'cases': [c], 'impl': i, 'model': model, 'spec': spec}, no_failing_input=True)
    failing.sort(key=lambda f: (f[0]['peer'] != 'openssl', not (f[1].startswith('OK') and f[2] == 'REFUSED'), f[1].split(':')[0] == f[2].split(':')[0],
                                f[0]['label'] not in ('valid', 'valid2'), f[0]['side'] != 'server', f[0]['mode'] != 'ca', not f[0]['authz']))
    seen = set()
    for c, i, spec, d in failing:
        cls = (c['side'], c.get('ctor'), c['min'], c['label'].rstrip('2'), i.split(':')[0])
        if cls in seen or len(seen) >= 4:
            continue
        seen.add(cls)
        ctx.violation(key_of(c, i, spec), f'rodbus TLS {SIDE_NAMES.get(c["side"], c["side"])}{" built with the deprecated TlsClientConfig::new" if c.get("ctor") else ""} (min TLS 1.{c["min"][1]}, {"authority" if c["mode"] == "ca" else "self-signed"} mode, '
                      f'{"with" if c["authz"] else "without"} authorization) against a {c["peer"]} peer offering {c["offer"]} presenting a {c["label"]} certificate{", with a decode-level change on the endpoint under test while the handshake is held back by a relay" if c.get("gate") else ""}{", arriving while an earlier connection that never finishes its handshake (" + c["stuck"] + ") is still open" if c.get("stuck") else ""}: {d} (harness: {i}, Spec: {spec})',
                      {'cases': [c], 'impl': i, 'spec': spec, 'harness_line': harness_line(c), 'ground_truth': truth(c)})
    ctx.oblige('correspondence:tls-handshake-grid', n_spec == 0 and n_model == 0, f'{n_model} model / {n_spec} spec mismatches in {len(cells)} cells')
    if not ctx.replay and models_ok:
        front_ok = ctx.build_models(['Model.ClientFront'])
        if front_ok:
            run_stalled_handshake(ctx)
    classes = {}
    for c, b in zip(cells, both):
        for k in (f'side:{c["side"]}', f'ctor:{c.get("ctor") or "current"}', f'min:{c["min"]}', f'mode:{c["mode"]}', f'peer:{c["peer"]}', f'offer:{c["offer"]}', f'cert:{c["label"].rstrip("2")}',
                  f'authz:{int(c["authz"])}', 'expected:' + b.split('#')[1].split(':')[0]):
            classes[k] = classes.get(k, 0) + 1
    if not ctx.replay:
        need = ['ctor:new', 'side:server', 'side:client', 'side:ffiserver', 'side:fficlient', 'min:12', 'min:13', 'mode:ca', 'mode:ss', 'peer:openssl', 'peer:rodbus', 'peer:plain', 'offer:12', 'offer:13',
                'offer:both', 'cert:valid', 'cert:wrong-authority', 'cert:wrong-name', 'cert:expired', 'cert:not-yet-valid', 'cert:role-less', 'cert:other-role', 'cert:two-roles', 'cert:via-intermediate', 'cert:missing-intermediate', 'cert:name-in-cn-no-san',
                'cert:name-in-cn-but-other-san', 'cert:ip-literal-name-expected', 'cert:wildcard-permitted-wrong-name', 'cert:star-without-permission',
                'expected:OK', 'expected:REFUSED']
        ctx.oblige('grid-reaches-expected-classes', all(classes.get(k, 0) >= 1 for k in need), str({k: classes.get(k, 0) for k in need}))
    ctx.coverage.update({
        'evaluations': len(cells),
        'distinct_nontrivial': len(set(harness_line(c) for c in cells if c['peer'] != 'plain')),
        'rule': 'cell = (side under test, min version, certificate mode, authorization, expected name, configured trust, peer kind, versions the peer offers, certificate the peer presents); one real TLS handshake on loopback per cell plus one Modbus request; non-trivial = a TLS peer (not the plain-TCP probe); distinct by harness line',
        'samples': [[c['label'], harness_line(c).replace(vlib.ROOT, '.').replace(vlib.REPO, '<repo>'), i] for c, i in list(zip(cells, impl))[:4]],
        'input_classes': classes,
        'exhaustive': True,
        'grid': 'full grid of the property (see rule), every cell; quick: one sweep, thorough: three sweeps in different orders',
        'repeated_cells': len(suspects),
        'repeated_detail': repeated_detail,
    })
