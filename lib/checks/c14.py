"""C14 - Reconnect delays follow the retry strategy: doubling, capped, reset on success.

Theorems (coq/theories/Properties/C14.v): the Doubling model equals the Spec `delay_spec` for all
min <= max and all call sequences. Correspondence: the public strategy object of /repo vs. the
model (every case) and vs. the Spec (cases inside the theorem's domain).
"""
import vlib

DUR_MAX = 18446744073709551615 * 10**9 + 999999999
OPS = {'F': 'Fail', 'D': 'Disc', 'R': 'Reset'}


def gen_cases(ctx, n):
    r = ctx.rng
    cases = [
        (1000, 60000, 'FFDFRF'), (10**9, 60 * 10**9, 'F' * 12), (1, 1, 'FFFF'), (0, 0, 'FDRF'),
        (0, 5, 'FFF'), (5, 3, 'FFF'), (7, 7 * 2**20, 'F' * 25 + 'R' + 'F' * 3),
        (DUR_MAX // 2, DUR_MAX // 2, 'FF'), (DUR_MAX // 2 + 1, DUR_MAX // 2 + 1, 'FF'),
        (DUR_MAX, DUR_MAX, 'F'), (DUR_MAX // 4, DUR_MAX, 'FFFF'), (3, DUR_MAX // 2, 'F' * 100),
    ]
    while len(cases) < n:
        kind = r.random()
        if kind < 0.55:
            mn = r.choice([1, 2, 3, 10, 999, 10**6, 10**9, r.randrange(1, 10**10)])
            mx = mn * r.choice([1, 2, 3, 7, 8, 60, 1000, 2**r.randrange(0, 40)]) + r.choice([0, 0, 1, r.randrange(0, 1000)])
        elif kind < 0.7:
            mn = r.randrange(0, 10**4)
            mx = r.randrange(0, 10**4)          # includes min > max (outside the theorem's domain)
        elif kind < 0.85:
            mx = r.choice([DUR_MAX // 2, DUR_MAX // 2 + 1, DUR_MAX, DUR_MAX - 1, DUR_MAX // 2 - r.randrange(0, 5)])
            mn = max(0, mx // r.choice([1, 2, 3, 4, 1000]) - r.choice([0, 1]))
        else:
            mn = r.randrange(0, 2**64)
            mx = r.randrange(mn, 2**70)
        ln = r.choice([0, 1, 2, 3, 5, 8, 13, 30, 70])
        w = r.choice([(6, 1, 1), (1, 1, 1), (10, 0, 1), (3, 3, 0)])
        ops = ''.join(r.choices('FDR', weights=w, k=ln))
        cases.append((mn, mx, ops))
    return cases


def to_coq(c):
    mn, mx, ops = c
    return f'({mn}, {mx}, [{";".join(OPS[o] for o in ops)}])'


FN = ('fun c : N * N * list op => let \'(mn, mx, ops) := c in '
      '(match run (create mn mx) ops with None => "PANIC" | Some l => show_list (show_option show_N "-") "," l end) '
      '++ "|" ++ show_list (show_option show_N "-") "," (spec mn mx 0 ops)')


def in_domain(c):
    return c[0] <= c[1] and 2 * c[1] <= DUR_MAX


def run(ctx):
    ctx.translate(['Defaults.v'])
    models_ok = ctx.build_models(['Base.Show', 'Model.Retry', 'Spec.RetrySpec'])
    ctx.prove()
    if ctx.tier == 'thorough':
        ctx.coqchk()
    if not ctx.build_harness() or not models_ok:
        return
    if ctx.replay and 'cases' in ctx.replay:
        cases = [tuple(c) for c in ctx.replay['cases']]
    else:
        cases = gen_cases(ctx, 4000 if ctx.quick() else 60000)
    impl = ctx.harness('retry', [f'{mn} {mx} {ops}' for mn, mx, ops in cases], shards=8)
    both = ctx.coq_eval(['Base.Show', 'Model.Retry', 'Spec.RetrySpec'], FN, [to_coq(c) for c in cases],
                        case_type='N * N * list op', preamble='Local Open Scope string_scope.', per_shard=500)
    n_model_mismatch = n_spec_mismatch = 0
    classes = {'in_domain': 0, 'min>max': 0, 'overflow_region': 0, 'panic': 0, 'capped': 0, 'reset_used': 0}
    for c, i in zip(cases, impl):
        dom = in_domain(c)
        classes['in_domain' if dom else ('min>max' if c[0] > c[1] else 'overflow_region')] += 1
        classes['panic'] += i == 'PANIC'
        classes['capped'] += str(c[1]) in i.split(',')
        classes['reset_used'] += 'R' in c[2]
    for c, i, b in zip(cases, impl, both):
        model, spec = b.split('|')
        dom = in_domain(c)
        if dom and i != spec:
            n_spec_mismatch += 1
            if n_spec_mismatch == 1:
                small = vlib.shrink_batch(c, lambda xs: differs_from_spec(ctx, xs), shrink_candidates)
                ctx.violation('strategy-differs-from-spec', f'min={small[0]} max={small[1]} ops={small[2]}: implementation returns other delays than min*2^(k-1) capped at max / min after disconnect',
                              {'cases': [list(small)], 'impl': i, 'spec': spec, 'model': model, 'original_case': list(c)})
        elif i != model:
            n_model_mismatch += 1
            if n_model_mismatch == 1:
                ctx.violation('model-differs-from-impl', f'min={c[0]} max={c[1]} ops={c[2]}', {'cases': [list(c)], 'impl': i, 'model': model, 'spec': spec},
                              no_failing_input=not dom)
    ctx.oblige('correspondence:retry-strategy', n_model_mismatch == 0 and n_spec_mismatch == 0,
               f'{n_model_mismatch} model / {n_spec_mismatch} spec mismatches')
    if not ctx.replay and (classes['in_domain'] < len(cases) // 4 or classes['capped'] < 10 or classes['reset_used'] < 10):
        ctx.oblige('generator-reaches-expected-classes', False, str(classes))
    ctx.coverage.update({
        'evaluations': len(cases),
        'distinct_nontrivial': len(set(c for c in cases if len(c[2]) >= 2 and 'F' in c[2])),
        'rule': 'cases (min_ns, max_ns, op string over F=after_failed_connect D=after_disconnect R=reset) from a seeded PRNG: boundary list first, then mixed small/large/overflow-edge/min>max; non-trivial = at least two calls including a failed connect; distinct by value',
        'samples': [list(c) + [i] for c, i in list(zip(cases, impl))[:6]],
        'input_classes': classes,
        'exhaustive': False,
    })


def differs_from_spec(ctx, cs):
    cs = [c for c in cs]
    impl = ctx.harness('retry', [f'{c[0]} {c[1]} {c[2]}' for c in cs])
    both = ctx.coq_eval(['Base.Show', 'Model.Retry', 'Spec.RetrySpec'], FN, [to_coq(c) for c in cs], case_type='N * N * list op',
                        preamble='Local Open Scope string_scope.')
    return [in_domain(c) and i != b.split('|')[1] for c, i, b in zip(cs, impl, both)]


def shrink_candidates(c):
    mn, mx, ops = c
    for k in range(len(ops)):
        yield (mn, mx, ops[:k] + ops[k + 1:])
    for m2, x2 in [(1, mx), (mn, mn), (1, 1), (1, 2), (1, 4), (mn // 2, mx // 2), (mn, mx - 1)]:
        if (m2, x2) != (mn, mx) and 0 <= m2 <= x2:
            yield (m2, x2, ops)
