"""C14 - Reconnect delays follow the retry strategy: doubling, capped, reset on success.

Theorems (coq/theories/Properties/C14.v): the Doubling model equals the Spec `delay_spec` for all
min <= max and all call sequences. Correspondence: the public strategy object of /repo vs. the
model (every case) and vs. the Spec (cases inside the theorem's domain).
Task level: theorems C14_task* about Model/RetryTask.v; correspondence: the real
spawn_tcp_client_task / spawn_tls_client_task on loopback against a scripted peer (refused /
accept-then-close / served) with a recording, gating Listener: the announced delays must be the
Spec's for that connect-outcome sequence and the next Connecting must not be announced earlier
than the delay after the wait announcement (lower bound only, monotonic clock).
"""
import os
import vlib

DUR_MAX = 18446744073709551615 * 10**9 + 999999999
OPS = {'F': 'Fail', 'D': 'Disc', 'R': 'Reset'}


def gen_cases(ctx, n):
    r = ctx.rng
    cases = [
        (1000, 60000, 'FFDFRF'), (10**9, 60 * 10**9, 'F' * 12), (1, 1, 'FFFF'), (0, 0, 'FDRF'),
        (0, 5, 'FFF'), (5, 3, 'FFF'), (7, 7 * 2**20, 'F' * 25 + 'R' + 'F' * 3),
        (DUR_MAX // 2, DUR_MAX // 2, 'FF'), (DUR_MAX // 2 + 1, DUR_MAX // 2 + 1, 'FF'),
        (DUR_MAX, DUR_MAX, 'F'), (DUR_MAX // 4, DUR_MAX, 'FFFF'), (3, DUR_MAX // 2, 'F' * 100),
    ]
    while len(cases) < n:
        kind = r.random()
        if kind < 0.55:
            mn = r.choice([1, 2, 3, 10, 999, 10**6, 10**9, r.randrange(1, 10**10)])
            mx = mn * r.choice([1, 2, 3, 7, 8, 60, 1000, 2**r.randrange(0, 40)]) + r.choice([0, 0, 1, r.randrange(0, 1000)])
        elif kind < 0.7:
            mn = r.randrange(0, 10**4)
            mx = r.randrange(0, 10**4)          # includes min > max (outside the theorem's domain)
        elif kind < 0.85:
            mx = r.choice([DUR_MAX // 2, DUR_MAX // 2 + 1, DUR_MAX, DUR_MAX - 1, DUR_MAX // 2 - r.randrange(0, 5)])
            mn = max(0, mx // r.choice([1, 2, 3, 4, 1000]) - r.choice([0, 1]))
        else:
            mn = r.randrange(0, 2**64)
            mx = r.randrange(mn, 2**70)
        ln = r.choice([0, 1, 2, 3, 5, 8, 13, 30, 70])
        w = r.choice([(6, 1, 1), (1, 1, 1), (10, 0, 1), (3, 3, 0)])
        ops = ''.join(r.choices('FDR', weights=w, k=ln))
        cases.append((mn, mx, ops))
    return cases


def to_coq(c):
    mn, mx, ops = c
    return f'({mn}, {mx}, [{";".join(OPS[o] for o in ops)}])'


FN = ('fun c : N * N * list op => let \'(mn, mx, ops) := c in '
      '(match run (create mn mx) ops with None => "PANIC" | Some l => show_list (show_option show_N "-") "," l end) '
      '++ "|" ++ show_list (show_option show_N "-") "," (spec mn mx 0 ops)')


def in_domain(c):
    return c[0] <= c[1] and 2 * c[1] <= DUR_MAX


def run(ctx):
    ctx.translate(['Defaults.v'])
    models_ok = ctx.build_models(['Base.Show', 'Model.Retry', 'Spec.RetrySpec'])
    # the task model is defined from the generated table of retry-strategy calls per arm: when the translator does not
    # recognise the source (or the model no longer compiles) the tie is reported as broken and the live task scenarios
    # are still judged against the Spec alone
    TASK_MODEL_OK[0] = bool(ctx.translate(['RetryArms.v'])) and ctx.build_models(['Gen.RetryArms', 'Model.RetryTask'])
    # the composed client front-end rests on p4's task model and the TLS tables: regenerate, build; if that fails the
    # tie is reported as broken and the scenarios are still judged against the Spec and the RetryTask model
    FRONT_OK[0] = bool(ctx.translate(['SessionErrors.v', 'TlsVersions.v', 'TlsModes.v'])) and ctx.build_models(['Model.ClientFront'])
    ctx.prove()
    if ctx.tier == 'thorough':
        ctx.coqchk()
    if not ctx.build_harness() or not models_ok:
        return
    if ctx.replay and 'task_cases' in ctx.replay and 'cases' not in ctx.replay:
        return run_task_level(ctx)
    if ctx.replay and 'cases' in ctx.replay:
        cases = [tuple(c) for c in ctx.replay['cases']]
    else:
        cases = gen_cases(ctx, 4000 if ctx.quick() else 60000)
    impl = ctx.harness('retry', [f'{mn} {mx} {ops}' for mn, mx, ops in cases], shards=8)
    # evaluated in batches of 8000 so that at most 16 coqc processes of 500 cases each run at a time (bounded memory)
    both = []
    for k in range(0, len(cases), 8000):
        both += ctx.coq_eval(['Base.Show', 'Model.Retry', 'Spec.RetrySpec'], FN, [to_coq(c) for c in cases[k:k + 8000]],
                             case_type='N * N * list op', preamble='Local Open Scope string_scope.', per_shard=500)
    n_model_mismatch = n_spec_mismatch = 0
    classes = {'in_domain': 0, 'min>max': 0, 'overflow_region': 0, 'panic': 0, 'capped': 0, 'reset_used': 0}
    for c, i in zip(cases, impl):
        dom = in_domain(c)
        classes['in_domain' if dom else ('min>max' if c[0] > c[1] else 'overflow_region')] += 1
        classes['panic'] += i == 'PANIC'
        classes['capped'] += str(c[1]) in i.split(',')
        classes['reset_used'] += 'R' in c[2]
    for c, i, b in zip(cases, impl, both):
        model, spec = b.split('|')
        dom = in_domain(c)
        if dom and i != spec:
            n_spec_mismatch += 1
            if n_spec_mismatch == 1:
                small = vlib.shrink_batch(c, lambda xs: differs_from_spec(ctx, xs), shrink_candidates)
                ctx.violation('strategy-differs-from-spec', f'min={small[0]} max={small[1]} ops={small[2]}: implementation returns other delays than min*2^(k-1) capped at max / min after disconnect',
                              {'cases': [list(small)], 'impl': i, 'spec': spec, 'model': model, 'original_case': list(c)})
        elif i != model:
            n_model_mismatch += 1
            if n_model_mismatch == 1:
                ctx.violation('model-differs-from-impl', f'min={c[0]} max={c[1]} ops={c[2]}', {'cases': [list(c)], 'impl': i, 'model': model, 'spec': spec},
                              no_failing_input=not dom)
    ctx.oblige('correspondence:retry-strategy', n_model_mismatch == 0 and n_spec_mismatch == 0,
               f'{n_model_mismatch} model / {n_spec_mismatch} spec mismatches')
    if not ctx.replay and (classes['in_domain'] < len(cases) // 4 or classes['capped'] < 10 or classes['reset_used'] < 10):
        ctx.oblige('generator-reaches-expected-classes', False, str(classes))
    ctx.coverage.update({
        'evaluations': len(cases),
        'distinct_nontrivial': len(set(c for c in cases if len(c[2]) >= 2 and 'F' in c[2])),
        'rule': 'cases (min_ns, max_ns, op string over F=after_failed_connect D=after_disconnect R=reset) from a seeded PRNG: boundary list first, then mixed small/large/overflow-edge/min>max; non-trivial = at least two calls including a failed connect; distinct by value',
        'samples': [list(c) + [i] for c, i in list(zip(cases, impl))[:6]],
        'input_classes': classes,
        'exhaustive': False,
    })
    run_task_level(ctx)


# ---------------------------------------------------------------------------------------------
# task level
TASK_REQ = ['Base.Show', 'Model.Retry', 'Spec.RetrySpec', 'Gen.RetryArms', 'Model.RetryTask']
TASK_T = 'variant * N * N * list tevent * list op'
TASK_FN = ('fun c : variant * N * N * list tevent * list op => let \'(v, mn, mx, evs, ops) := c in '
           '(match trun v (tinit mn mx) evs with None => "PANIC" | Some (_, o) => '
           'show_list (fun x => x) "," (flat_map (fun x => match x with OAnnounce AfterFailedConnect d => ["F" ++ show_N d] | OAnnounce AfterDisconnect d => ["D" ++ show_N d] | _ => [] end) o) end) '
           '++ "|" ++ (match trun v (tinit mn mx) evs with None => "PANIC" | Some (_, o) => show_list show_N "," (armed o) end) '
           '++ "|" ++ show_list show_N "," (somes (spec mn mx 0 ops))')
# Spec-only evaluation (no Gen, no task model)
TASK_REQ_SPEC = ['Base.Show', 'Model.Retry', 'Spec.RetrySpec']
TASK_T_SPEC = 'N * N * list op'
TASK_FN_SPEC = ('fun c : N * N * list op => let \'(mn, mx, ops) := c in '
                '"NOMODEL|NOMODEL|" ++ show_list show_N "," (somes (spec mn mx 0 ops))')
TASK_MODEL_OK = [True]
MS = 10**6


# the composed client front-end (Model/ClientFront.v, Properties/C09_ClientFront.v) on the same scenarios
FRONT_REQ = ['Base.Show', 'Spec.Lifecycle', 'Gen.SessionErrors', 'Model.ClientTask', 'Spec.TlsSpec', 'Gen.TlsVersions', 'Gen.TlsModes', 'Model.ClientFront']
FRONT_T = 'ctransport * N * N * list cevent'
FRONT_FN = ('fun c : ctransport * N * N * list cevent => let \'(tr, mn, mx, evs) := c in '
            'show_list (fun x => x) "," (flat_map (fun l => match l with LWaitFailed d => ["F" ++ show_N d] | LWaitDisc d => ["D" ++ show_N d] | _ => [] end) '
            '(listens_of (snd (crun {| cfg_cap := 8%nat; cfg_res := 1 |} tr (cinit 1 (match tr with CPlain => Some 2 | _ => None end) mn mx) evs))))')
SRV_GOOD = ('(SrvTls {| offers12 := true; offers13 := true; presented := {| chains_to_authority := true; identical_to_configured := false; '
            'within_validity := true; name_matches := true; cert_exts := None |} |})')
SRV_BAD = SRV_GOOD.replace('chains_to_authority := true', 'chains_to_authority := false')


def front_to_coq(c):
    variant, mn, mx, script = c
    tls = variant.startswith('tls')
    wait_end = [f'CE (EvTick {mx * MS + MS})', 'CE EvTimer']
    toggle = ['CE (EvSubmit CDisable SFuture)', 'CE EvRecv', 'CE (EvSubmit CEnable SFuture)', 'CE EvRecv']
    evs = ['CE (EvSubmit CEnable SFuture)', 'CE EvRecv']
    for ch in script:
        if ch == 'r':
            evs += ['CTcp false SrvCloses'] + wait_end
        elif tls and ch in 'ct':
            evs += ['CTcp true SrvCloses', 'CHandshake'] + wait_end
        elif tls and ch == 'w':
            evs += [f'CTcp true {SRV_BAD}', 'CHandshake'] + wait_end
        elif tls and ch == 'h':
            evs += [f'CTcp true {SRV_GOOD}', 'CHandshake', 'CE EvEof'] + wait_end
        elif ch in 'cs':
            evs += ['CTcp true SrvCloses', 'CE EvEof'] + wait_end
        elif ch == 'g':
            evs += ['CTcp true SrvCloses', 'CE EvGarbage'] + wait_end
        elif ch == 'm':
            # two requests, each written and then left unanswered past its 30 ms response timeout
            evs += ['CTcp true SrvCloses']
            for k in (1, 2):
                evs += [f'CE (EvSubmit (CReq {{| rq_id := {k}%nat; rq_kind := KRead; rq_timeout := {30 * MS} |}}) SFuture)', 'CE EvRecv', f'CE (EvTick {31 * MS})', 'CE EvTimer']
            evs += wait_end
        elif ch == 'd':
            evs += ['CTcp false SrvCloses'] + toggle
        elif ch == 'e':
            evs += ['CTcp true SrvCloses'] + toggle
        elif ch == 'q':
            evs += ['CTcp false SrvCloses', 'CE (EvSubmit (CReq {| rq_id := 1%nat; rq_kind := KRead; rq_timeout := 1000 |}) SFuture)', 'CE EvRecv'] + wait_end
        else:
            raise ValueError(ch)
    tr = 'CTls V1_2 AuthorityBased true' if tls else 'CPlain'
    return f'({tr}, {mn * MS}, {mx * MS}, [{"; ".join(evs)}])'


def task_cases(ctx, n):
    r = ctx.rng
    certs = os.path.join(vlib.REPO, 'certs', 'ca_chain') + ':' + os.path.join(vlib.ROOT, 'certs', 'ca2')
    cases = [('tcp', 20, 70, 'rrrrcsr'), ('tcp', 20, 70, 'crcr'), (f'tls:{certs}', 20, 70, 'rcrcr'),
             (f'tls:{certs}', 20, 70, 'rtr'), (f'tls:{certs}', 20, 70, 'rwwr'), (f'tls:{certs}', 20, 70, 'rrhr'), (f'tls:{certs}', 20, 70, 'chtwr'),
             (f'tls:{certs}', 15, 100, 'whwh'), (f'tls:{certs}', 10, 80, 'ttr'), (f'tls:{certs}', 20, 70, 'thw'), ('tcp', 10, 10, 'rrs'), ('tcp', 20, 70, 's'),
             ('tcp', 20, 70, 'rrrrrr'), (f'tls:{certs}', 15, 100, 'cccc'), ('tcp', 5, 40, 'rrrrsrrrr'),
             ('tcp', 20, 70, 'drr'), ('tcp', 20, 70, 'rdcdr'), ('tcp', 15, 100, 'ddd'),
             ('tcp', 20, 70, 'rrer'), ('tcp', 10, 100, 'rrrerr'), ('tcp', 20, 70, 'er'), ('tcp', 30, 70, 'qr'), ('tcp', 20, 70, 'rqqr'), ('tcp', 20, 70, 'qqe'), ('tcp', 15, 100, 'rqer'),
             ('tcp', 20, 400, 'crrrr'), ('tcp', 20, 400, 'grrrr'), ('tcp', 20, 400, 'mrrrr'), ('tcp', 20, 400, 'errrr'), ('tcp', 20, 400, 'srrrr'),
             ('tcp', 15, 400, 'rrcrrr'), ('tcp', 15, 400, 'rrgrrr'), ('tcp', 15, 400, 'rrmrrr'), ('tcp', 15, 400, 'rrerrr'), ('tcp', 10, 35, 'mgcmrrr'),
             (f'tls:{certs}', 20, 400, 'hrrrr'), ('rtu', 20, 400, 'orrrr'), ('rtu', 15, 400, 'rrorrr'), ('rtuserver', 20, 400, 'orrrr'),
             ('rtu', 20, 70, 'rrror'), ('rtu', 20, 70, 'oro'), ('rtu', 10, 40, 'rrrrr'), ('rtu', 20, 70, 'o'),
             ('rtuserver', 20, 70, 'rrror'), ('rtuserver', 20, 70, 'oro'), ('rtuserver', 10, 40, 'rrrrr'), ('rtuserver', 20, 70, 'o'),
             ('rtuserver', 30, 70, 'lr'), ('rtuserver', 20, 70, 'rllr'), ('rtuserver', 25, 60, 'lol')]
    while len(cases) < n:
        w = r.random()
        tls = w < 0.25
        mn, mx = r.choice([(20, 70), (10, 10), (15, 100), (5, 40), (30, 30), (8, 64), (25, 60)])
        ln = r.choice([2, 3, 4, 5, 6, 7, 8])
        if w > 0.7:
            if w > 0.85:
                cases.append(('rtu', mn, mx, ''.join(r.choices('ro', weights=(5, 2), k=ln))))
            else:
                cases.append(('rtuserver', mn, mx, ''.join(r.choices('rol', weights=(4, 2, 2), k=ln))))
            continue
        script = ''.join(r.choices('rctwh' if tls else 'rcsdeqgm', weights=(5, 2, 1, 2, 2) if tls else (7, 1, 2, 1, 1, 1, 1, 1), k=ln))
        cases.append((f'tls:{certs}' if tls else 'tcp', mn, mx, script))
    return cases


def task_to_coq(c, spec_only=False):
    variant, mn, mx, script = c
    tls = variant.startswith('tls')
    evs, ops = [], []
    for ch in script:
        if tls and ch in 'tw':
            evs += ['AttemptFails', 'Elapsed']      # the handshake fails (stalled then closed / certificate refused): a failed connect
            ops += ['Fail']
        elif tls and ch == 'h':
            evs += ['AttemptOk', 'Lost LIo', 'Elapsed']  # handshake ok: Connected; then the server goes away
            ops += ['Reset', 'Disc']
        elif ch == 'l':
            evs += ['AttemptFails', 'Elapsed']      # device missing; a decode-level command during the wait changes nothing
            ops += ['Fail']
        elif ch == 'd':
            evs += ['AttemptFails', 'Interrupt']    # refused; the wait is abandoned by disable + enable
            ops += ['Fail']
        elif ch == 'e':
            evs += ['AttemptOk', 'Interrupt']       # connected, then ended by disable + enable: no wait, but a reset
            ops += ['Reset']
        elif ch == 'q':
            evs += ['AttemptFails', 'Elapsed']      # refused; a request submitted during the wait changes nothing
            ops += ['Fail']
        elif ch == 'r' or (tls and ch == 'c'):
            evs += ['AttemptFails', 'Elapsed']      # refused, or the TLS handshake fails: a failed connect
            ops += ['Fail']
        elif ch == 'g':
            evs += ['AttemptOk', 'Lost LBadFrame', 'Elapsed']     # connected, then the peer sends a frame that cannot be parsed
            ops += ['Reset', 'Disc']
        elif ch == 'm':
            evs += ['AttemptOk', 'Lost LMaxTimeouts', 'Elapsed']  # connected, then max_response_timeouts consecutive timeouts
            ops += ['Reset', 'Disc']
        else:
            evs += ['AttemptOk', 'Lost LIo', 'Elapsed']  # connected, then lost (the peer closed: an I/O error)
            ops += ['Reset', 'Disc']
    if spec_only:
        return f'({mn * MS}, {mx * MS}, [{";".join(ops)}])'
    model_variant = {'rtu': 'SerialClient', 'rtuserver': 'RtuServer'}.get(variant, 'TcpClient')
    return f'({model_variant}, {mn * MS}, {mx * MS}, [{";".join(evs)}], [{";".join(ops)}])'


def actual_case(c, i):
    """the RTU server has no listener to hold it while the next outcome is prepared: what is judged is the
    sequence of outcomes that actually occurred (F = the open failed, D = the port opened and was lost)"""
    if c[0] != 'rtuserver':
        return c
    fields = [f for f in i.split(',') if f and f[0] in 'FD']
    return (c[0], c[1], c[2], ''.join('r' if f[0] == 'F' else 'o' for f in fields))


def task_eval(ctx, cases):
    cases = list(cases)
    impl = [None] * len(cases)
    # the RTU server scenarios run in a process of their own (a tracing subscriber records its log)
    for sel, shards in ((lambda c: c[0] != 'rtuserver', 4), (lambda c: c[0] == 'rtuserver', 2)):
        ix = [k for k, c in enumerate(cases) if sel(c)]
        if ix:
            res = ctx.harness('retrytask', [f'{v} {mn} {mx} {sc}' for v, mn, mx, sc in (cases[k] for k in ix)], shards=shards, timeout=600)
            for k, r in zip(ix, res):
                impl[k] = r
    if TASK_MODEL_OK[0]:
        both = ctx.coq_eval(TASK_REQ, TASK_FN, [task_to_coq(actual_case(c, i)) for c, i in zip(cases, impl)], case_type=TASK_T,
                            preamble='Local Open Scope string_scope.', per_shard=40)
    else:
        both = ctx.coq_eval(TASK_REQ_SPEC, TASK_FN_SPEC, [task_to_coq(actual_case(c, i), spec_only=True) for c, i in zip(cases, impl)], case_type=TASK_T_SPEC,
                            preamble='Definition somes (l : list (option N)) : list N := flat_map (fun x => match x with Some d => [d] | None => [] end) l.\nLocal Open Scope string_scope.', per_shard=40)
    # tcp / tls scenarios additionally through the composed client front-end model
    ix = [k for k, c in enumerate(cases) if c[0] == 'tcp' or c[0].startswith('tls')]
    if ix and FRONT_OK[0]:
        fr = ctx.coq_eval(FRONT_REQ, FRONT_FN, [front_to_coq(cases[k]) for k in ix], case_type=FRONT_T, preamble='Local Open Scope string_scope.', per_shard=40)
        for k, f in zip(ix, fr):
            both[k] = both[k] + '|' + f
    return impl, both


FRONT_OK = [True]


def task_judge(i, b):
    """None, or (key, description)"""
    parts = b.split('|')
    model, armed, spec = parts[0], parts[1], parts[2]
    front = parts[3] if len(parts) > 3 else None
    fields = [f for f in i.split(',') if f]
    if any(not f or f[0] not in 'FD' or f[-1] not in '+-?i' for f in fields):
        return ('task.unusable-result', f'harness result {i}')
    values = ','.join(f[1:-1] for f in fields)
    kinds = ','.join(f[:-1] for f in fields)
    if values != spec:
        return ('task.announced-delays-differ-from-spec', f'announced {kinds} but the Spec gives {spec}')
    if model == 'NOMODEL':
        pass
    elif values != armed or (model and kinds != model):
        return ('task.model-differs-from-impl', f'announced {kinds} but the model gives {model or armed}')
    if front is not None and kinds != front:
        return ('task.client-front-model-differs-from-impl', f'announced {kinds} but the composed client front-end model gives {front}')
    if any(f[-1] == '-' for f in fields):
        return ('task.next-attempt-earlier-than-announced', f'{i}: the next connect/open attempt was announced earlier than the announced delay after the wait announcement')
    if any(f[-1] == '?' for f in fields):
        return ('task.no-next-attempt', f'{i}: no Connecting followed an announced wait')
    return None


def task_shrink_candidates(c):
    v, mn, mx, sc = c
    for k in range(len(sc) - 1, -1, -1):
        yield (v, mn, mx, sc[:k] + sc[k + 1:])


def run_task_level(ctx):
    if ctx.replay and 'task_cases' in ctx.replay:
        cases = [tuple(c) for c in ctx.replay['task_cases']]
    elif ctx.replay:
        return
    else:
        cases = task_cases(ctx, 64 if ctx.quick() else 400)
        n_exhaustive = 0
        if not ctx.quick():
            # thorough: additionally ALL connect-outcome sequences of length <= 4 for every task variant (20/70 ms)
            import itertools
            certs = os.path.join(vlib.REPO, 'certs', 'ca_chain') + ':' + os.path.join(vlib.ROOT, 'certs', 'ca2')
            # (tcp: the five older letters to length 4, all seven to length 3, and the four ways a connection ends + r to length 4)
            seen = set()
            for variant, letters, lens in (('tcp', 'rcseq', (1, 2, 3, 4)), ('tcp', 'rcseqgm', (1, 2, 3)), ('tcp', 'rgme', (4,)),
                                           (f'tls:{certs}', 'rctwh', (1, 2, 3, 4)), ('rtu', 'ro', (1, 2, 3, 4)), ('rtuserver', 'rol', (1, 2, 3, 4))):
                for ln in lens:
                    for sc in itertools.product(letters, repeat=ln):
                        if (variant, sc) not in seen:
                            seen.add((variant, sc))
                            cases.append((variant, 20, 70, ''.join(sc)))
                            n_exhaustive += 1
        ctx.coverage['task_level_exhaustive_sequences_up_to_length_4'] = n_exhaustive
    impl, both = task_eval(ctx, cases)
    bad = 0
    for c, i, b in zip(cases, impl, both):
        j = task_judge(i, b)
        if not j:
            continue
        bad += 1
        if bad > 2:
            continue
        key = j[0]

        def fails(xs, key=key):
            im, bo = task_eval(ctx, xs)
            return [(task_judge(a, d) or ('', ''))[0] == key for a, d in zip(im, bo)]
        small = vlib.shrink_batch(c, fails, task_shrink_candidates, rounds=8, width=8)
        im, bo = task_eval(ctx, [small])
        js = task_judge(im[0], bo[0])
        if not js or js[0] != key:
            small, im, bo, js = c, [i], [b], j
        ctx.violation(key, f'{"RTU server" if small[0] == "rtuserver" else small[0].split(":")[0] + " client"} task, retry {small[1]}..{small[2]} ms, connect outcomes "{small[3]}" (r=refused/no device c=accepted+closed s=served o=port opened then lost d=refused+disable/enable during the wait e=connected then disable/enable g=connected then a bad frame from the peer m=connected then 2 response timeouts (max_response_timeouts=2) q=refused+request during the wait l=no device+level change during the wait; tls: t=accepted, stalls 150 ms, closes w=TLS server of another authority h=TLS server accepted, then stopped): {js[1]}',
                      {'task_cases': [list(small)], 'impl': im[0], 'model|spec': bo[0], 'original_case': list(c)},
                      no_failing_input=(key == 'task.model-differs-from-impl'))
    ctx.oblige('correspondence:task-level-delays', bad == 0, f'{bad} of {len(cases)} scenarios differ')
    tcls = {'tls_handshake_stalled': 0, 'tls_server_refused': 0, 'tls_handshake_ok': 0, 'with_disable_while_connected': 0, 'with_request_during_wait': 0, 'with_disable_during_wait': 0, 'wait_abandoned_by_disable': 0, 'tcp': 0, 'tls': 0, 'rtu': 0, 'rtuserver': 0, 'rtuserver_followed_script': 0, 'with_port_opened': 0, 'with_served': 0, 'with_accept_close': 0, 'ended_by_bad_frame': 0, 'ended_by_max_timeouts': 0, 'each_session_end_then_three_failed_connects': 0, 'three_refused_in_a_row': 0, 'capped': 0, 'announcements': 0}
    for c, i in zip(cases, impl):
        tcls['tls' if c[0].startswith('tls') else c[0]] += 1
        tcls['with_port_opened'] += 'o' in c[3]
        if c[0].startswith('tls'):
            tcls['tls_handshake_stalled'] += 't' in c[3]
            tcls['tls_server_refused'] += 'w' in c[3]
            tcls['tls_handshake_ok'] += 'h' in c[3]
        tcls['with_disable_during_wait'] += 'd' in c[3]
        tcls['with_disable_while_connected'] += 'e' in c[3]
        tcls['with_request_during_wait'] += 'q' in c[3]
        tcls['wait_abandoned_by_disable'] += any(f.endswith('i') for f in i.split(','))
        tcls['rtuserver_followed_script'] += c[0] == 'rtuserver' and actual_case(c, i)[3] == c[3]
        tcls['with_served'] += 's' in c[3]
        tcls['with_accept_close'] += 'c' in c[3]
        tcls['ended_by_bad_frame'] += 'g' in c[3]
        tcls['ended_by_max_timeouts'] += 'm' in c[3]
        tcls['each_session_end_then_three_failed_connects'] += any(k + 'rrr' in c[3] for k in 'cgmesho')
        tcls['three_refused_in_a_row'] += 'rrr' in c[3]
        tcls['capped'] += f'F{c[2] * MS}' in i
        tcls['announcements'] += len([f for f in i.split(',') if f])
    if not ctx.replay:
        ctx.oblige('task-generator-reaches-expected-classes', all(tcls[k] >= 3 for k in ('tls_handshake_stalled', 'tls_server_refused', 'tls_handshake_ok', 'with_disable_while_connected', 'with_request_during_wait', 'tcp', 'tls', 'rtu', 'rtuserver', 'rtuserver_followed_script', 'with_port_opened', 'with_served', 'with_accept_close', 'ended_by_bad_frame', 'ended_by_max_timeouts', 'three_refused_in_a_row', 'capped')) and tcls['each_session_end_then_three_failed_connects'] >= 10, str(tcls))
    ctx.coverage['task_level'] = {
        'scenarios': len(cases),
        'distinct_nontrivial': len(set(c for c in cases if len(c[3]) >= 2)),
        'rule': 'scenario = (tcp|tls|rtu client task or rtuserver = RTU server task (delays read from its log, judged on the outcome sequence that actually occurred), min ms, max ms, one connect outcome per attempt: r refused / device missing, c accepted then closed (tls: failed handshake), s served one request then closed, g connected then bad frame, m connected then max_response_timeouts timeouts, o pty opened then its master closed); seeded PRNG after a fixed list; non-trivial = at least two attempts',
        'input_classes': tcls,
        'samples': [list(c[:1]) + list(c[1:]) + [i] for c, i in list(zip(cases, impl))[:4]],
    }


def differs_from_spec(ctx, cs):
    cs = [c for c in cs]
    impl = ctx.harness('retry', [f'{c[0]} {c[1]} {c[2]}' for c in cs])
    both = ctx.coq_eval(['Base.Show', 'Model.Retry', 'Spec.RetrySpec'], FN, [to_coq(c) for c in cs], case_type='N * N * list op',
                        preamble='Local Open Scope string_scope.')
    return [in_domain(c) and i != b.split('|')[1] for c, i, b in zip(cs, impl, both)]


def shrink_candidates(c):
    mn, mx, ops = c
    for k in range(len(ops)):
        yield (mn, mx, ops[:k] + ops[k + 1:])
    for m2, x2 in [(1, mx), (mn, mn), (1, 1), (1, 2), (1, 4), (mn // 2, mx // 2), (mn, mx - 1)]:
        if (m2, x2) != (mn, mx) and 0 <= m2 <= x2:
            yield (m2, x2, ops)
