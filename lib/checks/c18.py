"""C18 - The C ABI reports and forwards exactly what the Rust API would.

Theorems (coq/theories/Properties/C18.v) over tables REGENERATED from the sources: every enum value
crossing the boundary goes to its same-named counterpart (incl. all 256 exception bytes), the four
write wrappers forward convert_to_result, completion callbacks fire exactly once in every outcome.
Correspondence through the extern "C" functions of the rodbus-ffi rlib on loopback:
 (a) C-ABI server whose write callbacks return every kind of WriteResult + Rust API client, vs the
     same request against a Rust API server, vs the model (wrapper_result) and the Spec;
 (b) C-ABI client vs Rust API client against one scripted peer: exception replies (all 256 codes),
     timeout, no connection, bad response, bad framing, I/O error, runtime shutdown, closed queue,
     queue of size 1 overfilled, parameter validation; every callback invocation is counted.
"""
import re

import vlib
from checks import p5_system

STD = {1: 'IllegalFunction', 2: 'IllegalDataAddress', 3: 'IllegalDataValue', 4: 'ServerDeviceFailure', 5: 'Acknowledge',
       6: 'ServerDeviceBusy', 8: 'MemoryParityError', 10: 'GatewayPathUnavailable', 11: 'GatewayTargetDeviceFailedToRespond'}
STD_CODE = {v: k for k, v in STD.items()}
EXC_NAMES = list(STD.values()) + ['Unknown']
KINDS = {'coil': 'write_single_coil', 'register': 'write_single_register', 'coils': 'write_multiple_coils', 'registers': 'write_multiple_registers'}
OPS = {'rc': 'read_coils', 'rd': 'read_discrete_inputs', 'rh': 'read_holding_registers', 'ri': 'read_input_registers',
       'wc': 'write_single_coil', 'wr': 'write_single_register', 'wmc': 'write_multiple_coils', 'wmr': 'write_multiple_registers'}
READS = ('rc', 'rd', 'rh', 'ri')
# the property's reading of "same-named": identical modulo case/underscore, plus the three C-side nouns
ALIAS = {'Io': 'IoError', 'BadFrame': 'BadFraming', 'Internal': 'InternalError'}


def exc_debug(code):
    return STD.get(code, f'Unknown({code})')


# ------------------------------------------------------------------------------------------------ (a) server half
def gen_server_cases(ctx, thorough):
    r = ctx.rng
    cases = []
    raws = [0, 1, 2, 7, 9, 11, 12, 127, 128, 200, 255]
    if thorough:
        raws = list(range(256))
    for kind in KINDS:
        def vals():
            if kind == 'coil':
                return str(r.choice([0, 1]))
            if kind == 'register':
                return str(r.choice([0, 1, 4660, 65535]))
            n = r.choice([1, 2, 7, 8, 9, 17, 123] + ([125, 1968] if kind == 'coils' else []))
            return ','.join(str(r.choice([0, 1]) if kind == 'coils' else r.choice([0, 1, 65535, r.randrange(65536)])) for _ in range(n))

        def start():
            return r.choice([0, 1, 7, 1000, 60000])
        cases.append(f'{kind} set 1 Unknown 0 {start()} {vals()}')
        cases.append(f'{kind} set 1 ServerDeviceBusy 6 {start()} {vals()}')      # success wins over the exception fields
        for name in STD_CODE:
            cases.append(f'{kind} set 0 {name} {r.choice([0, 255, STD_CODE[name]])} {start()} {vals()}')
        for raw in raws:
            cases.append(f'{kind} set 0 Unknown {raw} {start()} {vals()}')
        cases.append(f'{kind} unset 0 ServerDeviceBusy 0 {start()} {vals()}')
    return cases


def spec_write(success, name, raw):
    """what the client must receive (Spec/FfiSpec.write_result_spec, independently in Python)"""
    if success:
        return 'OK'
    code = raw if name == 'Unknown' else STD_CODE[name]
    return 'EX:' + exc_debug(code)


def expected_args(kind, start, values):
    vs = [int(v) for v in values.split(',')]
    if kind in ('coil', 'register'):
        return f'{kind}:{start}:{vs[0] if kind == "register" else int(vs[0] != 0)}'
    items = ','.join(f'{(start + i)}={(v if kind == "registers" else int(v != 0))}' for i, v in enumerate(vs))
    return f'{kind}:{start}:{items}'


SERVER_PRE = '''Local Open Scope string_scope.
Definition show_exc (e : rust_exception_code) : string :=
  match e with REC_Unknown p => "Unknown(" ++ show_N p ++ ")" | _ => name_rust_exception_code e end.
Definition show_client (r : option (option rust_exception_code)) : string :=
  match r with None => "SHAPE?" | Some None => "OK" | Some (Some e) => "EX:" ++ show_exc (exception_from_u8 (exception_to_u8 e)) end.
Definition show_spec (r : option (option N)) : string :=
  match r with None => "NOSPEC" | Some None => "OK" | Some (Some b) => "EX:" ++ show_exc (exception_from_u8 b) end.
Definition wrapper_of (m : string) : option write_wrapper := find (fun w => String.eqb (ww_method w) m) write_wrappers.'''
SERVER_FN = ('fun c : string * bool * (bool * ffi_modbus_exception * N) => let \'(m, set, (s, e, r)) := c in '
             'match wrapper_of m with None => "NOWRAPPER" | Some w => '
             'show_client (wrapper_result w (if set then Some (s, e, r) else None)) ++ "|" ++ '
             '(if set then show_spec (write_result_spec s (name_ffi_modbus_exception e) r) else "EX:IllegalFunction") end')


def model_eval(ctx, *a, **kw):
    """the model's answers, or None per case when the model does not compile (lost tie: the
    implementation is then still compared with the Spec, to find a concrete failing input)"""
    n = len(a[2])
    if not ctx.models_ok:
        return [None] * n
    try:
        return ctx.coq_eval(*a, **kw)
    except vlib.ModelEvalError as e:
        ctx.oblige('model-evaluates', False, str(e)[:300])
        return [None] * n


def check_server(ctx, cases):
    impl = ctx.harness('ffi_server', cases, timeout=900)
    coq_cases = []
    for c in cases:
        kind, cfg, succ, name, raw, start, values = c.split()
        coq_cases.append(f'("{KINDS[kind]}", {vlib.coq_bool(cfg == "set")}, ({vlib.coq_bool(succ == "1")}, FME_{name}, {raw}))')
    both = model_eval(ctx, ['Base.Show', 'Gen.FfiTables', 'Model.Ffi', 'Spec.FfiSpec'], SERVER_FN, coq_cases,
                        case_type='string * bool * (bool * ffi_modbus_exception * N)', preamble=SERVER_PRE, per_shard=300)
    bad = 0
    classes = {}
    for c, i, b in zip(cases, impl, both):
        kind, cfg, succ, name, raw, start, values = c.split()
        spec = spec_write(succ == '1', name, int(raw)) if cfg == 'set' else 'EX:IllegalFunction'
        model, spec_coq = b.split('|') if b is not None else (None, spec)
        m = re.fullmatch(r'ffi=(\S+) cb=(\d+)/(\d+) args=(\S+) rust=(\S+)', i)
        cls = f'{kind}.{"unset" if cfg != "set" else ("success" if succ == "1" else ("raw" if name == "Unknown" else "standard"))}'
        classes[cls] = classes.get(cls, 0) + 1
        problems = []
        if not m:
            problems.append(('harness', f'unparsable result {i}'))
        else:
            ffi, cb, other, args, rust = m.group(1), int(m.group(2)), int(m.group(3)), m.group(4), m.group(5)
            if ffi != spec:
                problems.append((f'write-result-not-forwarded.{KINDS[kind]}',
                                 f'C-ABI server, {KINDS[kind]} callback returning (success={succ}, exception={name}, raw={raw}): the client receives {ffi}, the callback\'s result is {spec}'))
            if rust != ffi:
                problems.append((f'c-abi-differs-from-rust-api.{KINDS[kind]}', f'{c}: C-ABI server gives the client {ffi}, the Rust API server with the same handler result gives {rust}'))
            want_cb = 1 if cfg == 'set' else 0
            if cb != want_cb or other != 0:
                problems.append((f'write-callback-count.{KINDS[kind]}', f'{c}: callback invoked {cb} times (other callbacks {other}), expected {want_cb}'))
            if cfg == 'set' and args != expected_args(kind, int(start), values):
                problems.append((f'write-arguments-changed.{KINDS[kind]}', f'{c}: callback saw {args}, sent {expected_args(kind, int(start), values)}'))
        if spec_coq != spec:
            problems.append(('spec-oracle-disagreement', f'{c}: Coq Spec {spec_coq} vs Python reading {spec}'))
        for key, what in problems:
            bad += 1
            if bad <= 4:
                ctx.violation(key, what, {'cases': [['server', c]], 'impl': i, 'spec': spec, 'model': model}, no_failing_input=key.startswith('spec-oracle') or key == 'harness')
        if not problems and m and model is not None and model != m.group(1):
            bad += 1
            ctx.violation('wrapper-model-differs-from-impl', f'{c}: model {model}, implementation and Spec {spec}',
                          {'cases': [['server', c]], 'impl': i, 'spec': spec, 'model': model}, no_failing_input=True)
    ctx.oblige('correspondence:c-abi-server-write-callbacks', bad == 0, f'{bad} disagreements on {len(cases)} cases')
    return classes, list(zip(cases, impl))


# ------------------------------------------------------------------------------------------------ (b) client half
def gen_client_cases(ctx, thorough):
    r = ctx.rng
    ops = list(OPS)
    cases = []
    # all 256 exception codes: quick = one op per code (rotating), thorough = every op
    for code in range(256):
        for op in (ops if thorough else [ops[(code + ctx.seed + k) % 8] for k in range(3)]):
            cases.append(f'req {op} {code} {1 if op not in ("wmc", "wmr") else 2}')
    for op in ops:
        for start in (1000, 1001, 1002, 1003, 1004):
            cases.append(f'req {op} {start} {2 if op in ("wmc", "wmr", "rc", "rd", "rh", "ri") else 1}')
        # correct replies, boundary counts / values
        if op in ('rc', 'rd'):
            counts = [1, 7, 8, 9, 125, 2000]
        elif op in ('rh', 'ri'):
            counts = [1, 2, 7, 8, 9, 125]
        elif op == 'wc':
            counts = [0, 1]
        elif op == 'wr':
            counts = [0, 65535]
        elif op == 'wmc':
            counts = [1, 7, 8, 9, 125, 1968]
        else:
            counts = [1, 7, 8, 9, 123]
        for n in counts:
            cases.append(f'req {op} {r.choice([2000, 2001, 40000])} {n}')
        cases.append(f'noconn {op} 2000 1')
        cases.append(f'shutdown {op} 1000 1')
        cases.append(f'qfull {op} 1000 1')
        cases.append(f'shutdownq {op} 1000 1')
        cases.append(f'badparam {op} 2000 1 null')
    for op in READS:
        cases.append(f'badparam {op} 2000 0 zero')
        cases.append(f'badparam {op} 65535 2 overflow')
        cases.append(f'badparam {op} 2000 {2001 if op in ("rc", "rd") else 126} limit')
    for op in ('wmc', 'wmr'):
        cases.append(f'badparam {op} 2000 3 nullitems')
        cases.append(f'badparam {op} 2000 {1969 if op == "wmc" else 124} toomany')
        cases.append(f'badparam {op} 2000 0 empty')
        cases.append(f'badparam {op} 65535 2 overflow')
    cases.append('states rh 0 0 close')
    cases.append('states rh 0 0 refuse')
    # notification SEQUENCES (repeats included): a serial port that cannot be opened, a refused TCP port
    # a setting rejected for a full queue, then repeated: Ok means the command was queued
    cases.append('gate rh 0 0 enable')
    cases.append('gate rh 0 0 disable')
    cases.append('notify rh 0 5 rtu')
    cases.append('notify rh 0 7 tcp')
    # ONE list object passed to several write-multiple calls (periodic write of a prepared block; a value added in between)
    for op in ('wmc', 'wmr'):
        top = 1968 if op == 'wmc' else 123
        for n, extra in [(1, '2'), (8, '3'), (9, '2+a'), (top, '2'), (top - 2, '3+a'), (r.randrange(2, 40), r.choice(['2', '3', '2+a', '3+a']))] + (
                [(r.randrange(1, top - 3), r.choice(['2', '3', '3+a'])) for _ in range(10)] if thorough else []):
            cases.append(f'reuse {op} {r.choice([2000, 2001, 40000, 65535 - top - 3])} {n} {extra}')
    return cases


def ffi_name_of_rust(rust):
    """independent reading of "same-named counterpart" for a Rust API result string"""
    if rust.startswith('OK'):
        return 'complete' + rust[2:]
    m = re.fullmatch(r'Exception\((\w+)(?:\((\d+)\))?\)', rust)
    if m:
        return 'failure:ModbusException' + m.group(1)
    return 'failure:' + ALIAS.get(rust, rust)


def coq_error_of_rust(rust):
    m = re.fullmatch(r'Exception\((\w+)(?:\((\d+)\))?\)', rust)
    if m:
        return f'RRE_Exception ({"REC_" + m.group(1) if m.group(2) is None else "REC_Unknown " + m.group(2)})'
    return 'RRE_' + rust



def unit_of(start, n):
    return (start + 7 * n) % 247 + 1


def call_values(op, n):
    if op == 'wmc':
        return [i % 2 == 0 for i in range(n)]
    return [(i * 257) & 0xFFFF for i in range(n)]


def coq_c_call(op, start, n):
    if op in READS:
        return '(' + {'rc': 'CcReadCoils', 'rd': 'CcReadDiscreteInputs', 'rh': 'CcReadHoldingRegisters', 'ri': 'CcReadInputRegisters'}[op] + f' {start} {n})'
    if op == 'wc':
        return f'(CcWriteSingleCoil {start} {vlib.coq_bool(n != 0)})'
    if op == 'wr':
        return f'(CcWriteSingleRegister {start} {n})'
    if op == 'wmc':
        return f'(CcWriteMultipleCoils {start} (Some [' + ';'.join(vlib.coq_bool(b) for b in call_values(op, n)) + ']))'
    return f'(CcWriteMultipleRegisters {start} (Some ' + vlib.coq_N_list(call_values(op, n)) + '))'


def request_pdu(op, start, n):
    fc = {'rc': 1, 'rd': 2, 'rh': 3, 'ri': 4, 'wc': 5, 'wr': 6, 'wmc': 15, 'wmr': 16}[op]
    hi = lambda v: [(v >> 8) & 0xFF, v & 0xFF]
    if op in READS:
        return [fc] + hi(start) + hi(n)
    if op == 'wc':
        return [fc] + hi(start) + ([0xFF, 0] if n else [0, 0])
    if op == 'wr':
        return [fc] + hi(start) + hi(n)
    if op == 'wmc':
        bits = call_values(op, n)
        data = [sum((1 << k) for k in range(8) if 8 * j + k < n and bits[8 * j + k]) for j in range((n + 7) // 8)]
        return [fc] + hi(start) + hi(n) + [len(data)] + data
    regs = call_values(op, n)
    return [fc] + hi(start) + hi(n) + [(2 * n) & 0xFF] + [b for v in regs for b in hi(v)]


def peer_reply(op, start, n):
    """the reply PDU of the scripted peer of harness ffi_client.rs (mirror of peer_conn)"""
    pdu = request_pdu(op, start, n)
    fc, qty, unit = pdu[0], (pdu[3] << 8) | pdu[4], unit_of(start, n)
    if start < 256:
        return [fc | 0x80, start]
    if start == 1004:
        return [fc ^ 0x10, 0, 0, 0, 0]
    if fc in (1, 2):
        nb = (qty + 7) // 8
        data = [0] * nb
        for k in range(qty):
            if (start + k + unit) % 3 == 0:
                data[k // 8] |= 1 << (k % 8)
        r = [fc, nb & 0xFF] + data
    elif fc in (3, 4):
        r = [fc, (qty * 2) & 0xFF] + [b for k in range(qty) for b in (((((start + k) & 0xFFFF) * 3 & 0xFFFF) + unit) & 0xFFFF).to_bytes(2, 'big')]
    else:
        r = pdu[:5]
    if start == 1001:
        if fc <= 4:
            r = r[:-1]
        else:
            r[2] = (r[2] + 1) & 0xFF
    return r


def rust_to_event(rust):
    if rust.startswith('OK'):
        return 'complete' + rust[2:]
    return ffi_name_of_rust(rust)


COMPOSED_PRE = '''Local Open Scope string_scope.
Definition show_cv (v : option c_value) : string :=
  match v with
  | None => "PANIC"
  | Some (CvBits l) => "complete:" ++ show_list (fun p : N * bool => show_N (fst p) ++ "=" ++ show_bool (snd p)) "," l
  | Some (CvRegisters l) => "complete:" ++ show_list (fun p : N * N => show_N (fst p) ++ "=" ++ show_N (snd p)) "," l
  | Some CvNothing => "complete"
  | Some (CvFailure e) => "failure:" ++ name_ffi_request_error e
  end.
Definition show_ev (e : cb_event) : string :=
  match e with OnComplete => "complete" | OnFailure x => "failure:" ++ name_ffi_request_error x | ShapeUnknown => "SHAPE?" end.
Definition show_call (x : ffi_param_error * list cb_event) : string :=
  name_ffi_param_error (fst x) ++ "/" ++ match snd x with [] => "none" | l => show_list show_ev "+" l end.
Definition run_req (x : c_call * N * N * list N) : string :=
  let '(cc, tx, uid, pdu) := x in
  match to_call cc with
  | None => "NOCALL|-|-|-"
  | Some c =>
      match build c with
      | Ok r =>
          let d := deliver_via ViaFfi r pdu in
          show_list show_bytes "+" (path_wire ViaFfi Tcp tx uid c) ++ "|" ++ show_bytes (ref_encode_tcp tx uid c) ++ "|" ++ show_cv (c_deliver d) ++ "|" ++
          show_call (c_function false cc Accepted [TComplete (match d with Ok _ => ROk | Err e => RErr (class_of_codec e) | Panic => ROk end)])
      | _ => "REJECTED|-|-|" ++ show_call (c_function false cc Accepted [])
      end
  end.'''

REUSE_PRE = '''
Fixpoint run_reuse_calls (coils : bool) (tx uid : N) (calls : list (N * option (list N))) : list string :=
  match calls with
  | [] => []
  | (s, None) :: rest => "UNKNOWN" :: run_reuse_calls coils tx uid rest
  | (s, Some v) :: rest =>
      let cc := if coils then CcWriteMultipleCoils s (Some (map (fun x => negb (N.eqb x 0)) v)) else CcWriteMultipleRegisters s (Some v) in
      match to_call cc with
      | Some c =>
          match build c with
          | Ok r => (show_call (c_function false cc Accepted [TComplete ROk]) ++ "@" ++ show_bytes (ref_encode_tcp tx uid c)) :: run_reuse_calls coils ((tx + 1) mod 65536) uid rest
          | _ => (show_call (c_function false cc Accepted []) ++ "@-") :: run_reuse_calls coils tx uid rest
          end
      | None => "NOCALL" :: run_reuse_calls coils tx uid rest
      end
  end.
Definition run_reuse (x : bool * N * list N * list (list_step N)) : string :=
  let '(coils, uid, init, steps) := x in
  show_list (fun s => s) ";" (run_reuse_calls coils 0 uid (list_calls (if coils then "write_multiple_coils" else "write_multiple_registers") (Some init) steps)).'''

CLIENT_PRE = '''Local Open Scope string_scope.
Definition show_ev (e : cb_event) : string :=
  match e with OnComplete => "complete" | OnFailure x => "failure:" ++ name_ffi_request_error x | ShapeUnknown => "SHAPE?" end.
Definition show_evs (l : list cb_event) : string := match l with [] => "none" | _ => show_list show_ev "+" l end.
Definition ft_of (rq : string) : future_type :=
  match find (fun f => String.eqb (ft_callback f) (callback_of rq)) future_types with Some f => f | None => Build_future_type "" None false false end.
Definition run_case (c : string * call_env) : string :=
  match find (fun p => String.eqb (fst p) (fst c)) client_calls with
  | None => "NOCALL"
  | Some rq => let (rc, evs) := ffi_call (ft_of (fst c)) rq (snd c) in name_ffi_param_error rc ++ "/" ++ show_evs evs
  end.
Definition env (nulls : list string) (fv : option string) (ol : bool) (s : send_outcome) (t : list task_op) : call_env :=
  {| null_args := nulls; failing_validation := fv; over_limit := ol; send := s; task := t |}.'''


def strip_values(ev):
    return re.sub(r'complete:[0-9=,]*', 'complete', ev)


def check_client(ctx, cases):
    impl = ctx.harness('ffi_client', cases, timeout=1200)
    bad = 0
    n_calls = 0
    classes = {}
    model_cases, model_expect = [], []      # (coq term, impl string to compare, case)
    composed = []                           # req scenarios with the wire bytes, for the composed client model
    reuse_cases = []                        # one list object, several calls

    def fail(key, what, c, i, nfi=False, **kw):
        nonlocal bad
        bad += 1
        if bad <= 5:
            d = {'cases': [['client', c]], 'impl': i}
            d.update(kw)
            ctx.violation(key, what, d, no_failing_input=nfi)

    for c, i in zip(cases, impl):
        p = c.split()
        sc, op, start, n = p[0], p[1], int(p[2]), int(p[3])
        extra = p[4] if len(p) > 4 else ''
        rq = OPS[op]
        m = re.fullmatch(r'ffi:(.*?) rust:(.*?)(?: wire:(\S+)/(\S+))?', i)
        if not m:
            fail('harness', f'{c}: {i}', c, i, nfi=True)
            continue
        ffi, rust = m.group(1), m.group(2)
        if sc == 'req' and m.group(3):
            composed.append((c, op, start, n, ffi, rust, m.group(3), m.group(4), i))
        if sc == 'req':
            n_calls += 1
            rc, ev = ffi.split('/', 1)
            if start < 256:
                cls = 'exception-standard' if start in STD else 'exception-raw'
                want_rust = f'Exception({exc_debug(start)})'
                want_ev = 'failure:ModbusException' + STD.get(start, 'Unknown')
            else:
                cls = {1000: 'timeout', 1001: 'bad-response', 1002: 'bad-frame', 1003: 'io', 1004: 'bad-response-fc'}.get(start, 'ok')
                want_rust = {1000: 'ResponseTimeout', 1001: 'BadResponse', 1002: 'BadFrame', 1003: 'Io', 1004: 'BadResponse'}.get(start)
                want_ev = ffi_name_of_rust(rust)
            classes[cls] = classes.get(cls, 0) + 1
            if rc != 'Ok':
                fail(f'request-rejected.{rq}', f'{c}: return code {rc}', c, i)
            elif len(ev.split('+')) != 1 or ev == 'none':
                fail(f'completion-callback-count.{rq}', f'{rq} through the C ABI ({cls}): completion callback invocations: {ev} (exactly one expected)', c, i, spec='one invocation')
            elif want_rust is not None and rust != want_rust:
                fail(f'rust-api-unexpected.{rq}', f'{c}: Rust API client returned {rust}, scenario should give {want_rust}', c, i, nfi=True)
            elif ev != want_ev:
                fail(f'error-not-same-named.{cls}', f'{rq} through the C ABI: the Rust API reports {rust}, the C callback got {ev}; same-named counterpart is {want_ev}', c, i, spec=want_ev)
            elif not rust.startswith('OK'):
                model_cases.append(f'("{rq}", env [] None false Accepted [TComplete (RErr ({coq_error_of_rust(rust)}))])')
                model_expect.append((f'Ok/{ev}', c, i))
            else:
                model_cases.append(f'("{rq}", env [] None false Accepted [TComplete ROk])')
                model_expect.append((f'Ok/{strip_values(ev)}', c, i))
        elif sc == 'noconn':
            n_calls += 1
            classes['no-connection'] = classes.get('no-connection', 0) + 1
            if ffi != 'Ok/failure:NoConnection' or rust != 'NoConnection':
                fail(f'error-not-same-named.no-connection', f'{rq}, peer port closed: C ABI {ffi}, Rust API {rust}; expected one on_failure(NoConnection)', c, i, spec='Ok/failure:NoConnection')
            model_cases.append(f'("{rq}", env [] None false Accepted [TComplete (RErr RRE_NoConnection)])')
            model_expect.append((ffi, c, i))
        elif sc == 'shutdown':
            n_calls += 2
            classes['shutdown'] = classes.get('shutdown', 0) + 1
            want = 'Ok/before=0/failure:Shutdown;Shutdown/failure:Shutdown'
            if ffi != want or rust != 'Shutdown;Shutdown':
                fail('completion-on-shutdown.' + rq, f'{rq}: runtime destroyed with the request in flight, then another request on the dead channel: C ABI {ffi} (expected {want}), Rust API {rust}', c, i, spec=want)
            model_cases.append(f'("{rq}", env [] None false Accepted [TDropEarly])')
            model_expect.append(('Ok/failure:Shutdown', c, i))
            model_cases.append(f'("{rq}", env [] None false ChannelClosed [])')
            model_expect.append(('Shutdown/failure:Shutdown', c, i))
        elif sc == 'shutdownq':
            n_calls += 3
            classes['shutdown-queued'] = classes.get('shutdown-queued', 0) + 1
            want = 'Ok/failure:Shutdown;Ok/failure:Shutdown;Ok/failure:Shutdown;before=0;after-destroy=1/1/1'
            if ffi != want:
                fail('completion-on-shutdown-queued.' + rq, f'{rq}: runtime destroyed with one request in flight and two queued: got {ffi}; expected {want}', c, i, spec=want)
            for _ in range(3):
                model_cases.append(f'("{rq}", env [] None false Accepted [TDropEarly])')
                model_expect.append(('Ok/failure:Shutdown', c, i))
        elif sc == 'qfull':
            n_calls += 3
            classes['queue-full'] = classes.get('queue-full', 0) + 1
            parts = ffi.split(';')
            want = ['Ok/failure:ResponseTimeout', 'Ok/failure:ResponseTimeout', 'TooManyRequests/failure:Shutdown', 'pending-before-destroy=0/0']
            if parts != want:
                which = 'completion-callback-count.queue-full' if len(parts) == 4 and parts[2] != want[2] else 'queue-of-one-overfilled'
                fail(which + '.' + rq, f'{rq}, queue of size 1 with one request in flight, one queued, one rejected: got {ffi}; expected {";".join(want)}', c, i, spec=';'.join(want))
            model_cases.append(f'("{rq}", env [] None false QueueFull [])')
            model_expect.append((parts[2] if len(parts) > 2 else '?', c, i))
        elif sc == 'badparam':
            n_calls += 1
            classes['badparam-' + extra] = classes.get('badparam-' + extra, 0) + 1
            rc, ev, destroy = ffi.split('/')
            is_read = op in READS
            if extra == 'null':
                want, env = 'NullParameter/none', 'env ["channel"] None false Accepted []'
            elif extra == 'nullitems':
                want, env = 'NullParameter/none', 'env ["items"] None false Accepted []'
            elif extra in ('zero', 'overflow') and is_read:
                want, env = 'InvalidRange/none', 'env [] (Some "AddressRange::try_from") false Accepted []'
            elif extra in ('empty', 'overflow'):
                want, env = 'InvalidRequest/none', 'env [] (Some "WriteMultiple::from") false Accepted []'
            elif extra == 'limit':
                want, env = 'InvalidRange/failure:Shutdown', 'env [] None true Accepted []'
            else:   # toomany: accepted, the client task rejects it while serialising
                want, env = 'Ok/failure:BadRequest', 'env [] None false Accepted [TComplete (RErr RRE_BadRequest)]'
            if f'{rc}/{ev}' != want or destroy != 'destroy=1':
                fail(f'parameter-validation.{extra}.{rq}', f'{c}: C ABI returned {rc} with callback events {ev} and {destroy}; expected {want} and destroy=1', c, i, spec=want)
            model_cases.append(f'("{rq}", {env})')
            model_expect.append((f'{rc}/{ev}', c, i))
        elif sc == 'reuse':
            k, add = int(extra.split('+')[0]), '+' in extra
            n_calls += k
            classes['list-object-reused' + ('-with-add' if add else '')] = classes.get('list-object-reused' + ('-with-add' if add else ''), 0) + 1
            unit = unit_of(start, n)
            want = []
            for j in range(k):
                pdu = request_pdu(op, start, n + j if add else n)
                want.append('Ok/complete@' + bytes([j >> 8, j & 0xFF, 0, 0, (len(pdu) + 1) >> 8, (len(pdu) + 1) & 0xFF, unit] + pdu).hex().upper())
            calls = ffi.split(';')
            sent = [] if m.group(3) in (None, '-') else m.group(3).split(',')
            got, pos = [], 0
            for cl in calls:
                if cl.startswith('Ok/') and pos < len(sent):
                    got.append(cl + '@' + sent[pos])
                    pos += 1
                else:
                    got.append(cl + '@-')
            got += ['(extra request on the wire)@' + x for x in sent[pos:]]
            rust_sent = [] if m.group(4) in (None, '-') else m.group(4).split(',')
            if rust != ';'.join(['OK'] * k) or rust_sent != [w.split('@')[1] for w in want]:
                fail(f'rust-api-unexpected.{rq}', f'{c}: the Rust API client returned {rust} and sent {rust_sent}; expected {want}', c, i, nfi=True)
            elif got != want:
                j = next(x for x in range(max(len(got), len(want))) if x >= len(got) or x >= len(want) or got[x] != want[x])
                g = got[j] if j < len(got) else '(missing)'
                fail(f'list-object-changed-by-call.{rq}', f'one {"rodbus_bit_list" if op == "wmc" else "rodbus_register_list"} object holding {n} values passed to {k} successive {rq} calls'
                     + (' (one value added after each call)' if add else '') + f': call #{j + 1} gave <return code>/<callback>@<request on the wire> = {g[:160]}; '
                     f'a call must not change the caller\'s list: expected {want[j][:160] if j < len(want) else "(nothing)"}', c, i, spec=';'.join(want))
            reuse_cases.append((c, op, start, n, k, add, ';'.join(got), i))
        elif sc == 'gate':
            classes['setting-rejected-then-repeated'] = classes.get('setting-rejected-then-repeated', 0) + 1
            want = 'Ok/TooManyRequests/Ok/1'
            if ffi != want:
                g = ffi.split('/')
                call = f'rodbus_client_channel_{extra}'
                fail(f'setting-ok-but-not-applied.{extra}', f'queue of one, the channel task parked in a completion callback, a second request queued: {call} returned {g[1] if len(g) > 1 else "?"}; repeated after the callback '
                     f'was released it returned {g[2] if len(g) > 2 else "?"} and the listener {"saw" if g[-1] == "1" else "NEVER saw"} {"Disabled" if extra == "disable" else "Connected"} (got {ffi}, expected {want}: '
                     'Ok means the setting was queued, as with the Rust API)', c, i, spec=want)
        elif sc == 'notify':
            classes['notify-' + extra] = classes.get('notify-' + extra, 0) + 1
            f_seq = ffi.split('/', 1)[1]
            want = '>'.join((['Disabled'] + ['Wait'] * (n - 1)) if extra == 'rtu' else (['Disabled'] + ['Connecting', 'WaitAfterFailedConnect'] * n)[:n])
            if rust != want:
                fail('rust-api-unexpected.notify', f'{c}: the Rust API listener saw {rust}, expected {want}', c, i, nfi=True)
            elif f_seq != rust:
                what = 'serial channel (rodbus_client_channel_create_rtu) on a path that cannot be opened' if extra == 'rtu' else 'TCP channel on a refused port'
                fail('listener-notifications-differ.' + extra, f'{what}: the first {n} notifications of the Rust API listener are {rust}; the C listener got {f_seq or "(nothing)"} within 3 s '
                     '(every update must be forwarded, repeated states included)', c, i, spec=rust)
        elif sc == 'states':
            classes['states'] = classes.get('states', 0) + 1
            f_seq = ffi.split('/', 1)[1]
            need = 'WaitAfterDisconnect' if extra == 'close' else 'WaitAfterFailedConnect'
            if f_seq != rust or not f_seq.endswith('Shutdown') or need not in rust:
                fail('client-state-not-same-named', f'client state listener: C ABI saw {f_seq}, Rust API saw {rust}', c, i, spec=rust)
    # the model on the same cases
    model = model_eval(ctx, ['Base.Show', 'Gen.FfiTables', 'Model.Ffi'], 'run_case', model_cases, case_type='string * call_env',
                         preamble=CLIENT_PRE, per_shard=200)
    for mo, (want, c, i) in zip(model, model_expect):
        if mo is not None and mo != want:
            fail('completion-model-differs-from-impl', f'{c}: model {mo}, implementation {want}', c, i, nfi=True, model=mo)
    # the composed client model (Model/FfiClient.v over p1's codec model): wire bytes and the value the callback receives
    comp_terms = []
    for (c, op, start, n, ffi, rust, wf, wr, i) in composed:
        comp_terms.append(f'({coq_c_call(op, start, n)}, 0, {unit_of(start, n)}, {vlib.coq_N_list(peer_reply(op, start, n))})')
    comp = model_eval(ctx, ['Base.Show', 'Base.Outcome', 'Base.ClientTypes', 'Gen.FfiTables', 'Model.Ffi', 'Model.ClientRequest', 'Model.ClientPaths',
                            'Model.Format', 'Spec.ClientCodecSpec', 'Model.FfiClient'], 'run_req', comp_terms, case_type='c_call * N * N * list N',
                      preamble=COMPOSED_PRE, per_shard=120)
    n_comp = 0
    for (c, op, start, n, ffi, rust, wf, wr, i), mo in zip(composed, comp):
        if start in (1000, 1002, 1003):
            # no reply PDU reaches the codec: only the request bytes are compared
            mo_wire = mo.split('|')[0] if mo else None
            if wf != wr or (mo_wire is not None and wf != mo_wire):
                fail('request-bytes-differ.' + OPS[op], f'{c}: C-ABI client sent {wf}, Rust API client {wr}, protocol encoding {mo_wire}', c, i, spec=mo_wire or wr)
            continue
        n_comp += 1
        if wf != wr:
            fail('request-bytes-differ.' + OPS[op], f'{c}: the C-ABI client sent {wf}, the Rust API client {wr} for the same call', c, i, spec=wr)
            continue
        if mo is None:
            continue
        m_wire, s_wire, m_value, m_call = mo.split('|')
        if wf != s_wire:
            fail('request-bytes-not-the-protocol-encoding.' + OPS[op], f'{c}: on the wire {wf}, ref_encode_tcp gives {s_wire}', c, i, spec=s_wire)
        elif ffi.split('/', 1)[1] != m_value or rust_to_event(rust) != m_value:
            fail('callback-value-differs.' + OPS[op], f'{c}: the C callback received {ffi.split("/", 1)[1][:120]}, the Rust API {rust[:120]}, the composed model {m_value[:120]}', c, i, spec=m_value, nfi=(rust_to_event(rust) != m_value))
        elif m_wire != s_wire or m_call != 'Ok/' + strip_values(m_value):
            fail('composed-client-model-inconsistent', f'{c}: model wire {m_wire} spec {s_wire}; call {m_call} value {m_value[:80]}', c, i, nfi=True)
    classes['composed-model-requests'] = n_comp
    # one list object across calls: Model/FfiClient.list_calls over the regenerated `list_args`
    terms = []
    for (c, op, start, n, k, add, got, i) in reuse_cases:
        steps = []
        for j in range(k):
            steps.append(f'LsCall {start}')
            if add:
                steps.append(f'LsAdd {int(call_values(op, n + j + 1)[n + j])}')
        terms.append(f'({vlib.coq_bool(op == "wmc")}, {unit_of(start, n)}, {vlib.coq_N_list([int(v) for v in call_values(op, n)])}, [' + '; '.join(steps) + '])')
    reuse_model = model_eval(ctx, ['Base.Show', 'Base.Outcome', 'Base.ClientTypes', 'Gen.FfiTables', 'Model.Ffi', 'Model.ClientRequest', 'Model.ClientPaths',
                                   'Model.Format', 'Spec.ClientCodecSpec', 'Spec.FfiSpec', 'Model.FfiClient'], 'run_reuse', terms,
                             case_type='bool * N * list N * list (list_step N)', preamble=COMPOSED_PRE + REUSE_PRE, per_shard=40)
    for (c, op, start, n, k, add, got, i), mo in zip(reuse_cases, reuse_model):
        if mo is not None and mo != got:
            fail('list-reuse-model-differs-from-impl', f'{c}: model {mo[:200]}, implementation {got[:200]}', c, i, nfi=True, model=mo)
    ctx.oblige('correspondence:c-abi-client-vs-rust-api-client', bad == 0, f'{bad} disagreements on {len(cases)} scenarios')
    return classes, n_calls, list(zip(cases, impl))


# ------------------------------------------------------------------------------------------------ (c) TLS + authorization
AUTH_NAMES = dict(OPS)


def gen_authz_cases(ctx, thorough):
    r = ctx.rng
    cases = []
    for server in ('ffi', 'rust'):
        for op in OPS:
            for decision in (('allow', 'deny', 'unset') if server == 'ffi' else ('allow', 'deny')):
                for _ in range(2 if thorough else 1):
                    unit = r.choice([1, 7, 200, 247])
                    start = r.choice([0, 1, 5, 8])
                    n = r.choice([1, 2, 3]) if op not in ('wc', 'wr') else r.choice([0, 1, 500])
                    cases.append(f'{server} rust {op} {decision} {unit} {start} {n}')
        for decision in ('allow', 'deny'):
            cases.append(f'{server} ffi rh {decision} {r.choice([1, 9, 247])} {r.choice([0, 4])} {r.choice([1, 3])}')
    # several sessions with DIFFERENT roles on ONE server, one after the other (certificates of certs/ca2)
    roles = ['operator', 'viewer', 'mixed']
    orders = [('operator', 'viewer'), ('viewer', 'operator'), ('operator', 'operator'), ('viewer', 'viewer'), ('mixed', 'operator', 'viewer'),
              ('viewer', 'mixed', 'operator', 'viewer')]
    for server in ('ffi', 'rust'):
        for policy in ('byrole', 'allow'):
            for oi, order in enumerate(orders + ([tuple(r.choice(roles) for _ in range(r.choice([2, 3, 5]))) for _ in range(4 if thorough else 1)])):
                sess = []
                for role in order:
                    # the fixed orders all WRITE (a stale role would execute a denied write or refuse a permitted one)
                    op = r.choice(['wr', 'wc', 'wmr']) if oi < len(orders) else r.choice(['wr', 'wc', 'rh', 'rc', 'wmr', 'ri'])
                    start = r.choice([0, 1, 5])
                    n = r.choice([1, 2]) if op not in ('wc', 'wr') else r.choice([0, 1, 77])
                    sess.append(f'{role}:{op}:{start}:{n}')
                cases.append(f'seq {server} {policy} {r.choice([1, 9, 200])} ' + ','.join(sess))
    return cases


ROLE_STRING = {'operator': 'operator', 'viewer': 'viewer', 'mixed': 'Plant-Operator.v2'}


def spec_sequence(c):
    _, server, policy, unit, sess = c.split()
    out = []
    for x in sess.split(','):
        role, op, start, n = x.split(':')
        start, n = int(start), int(n)
        count = max(n, 1)
        rs = ROLE_STRING[role]        # C09_auth_role_is_handshake_role: the role of THIS session's certificate
        what = f'{OPS[op]}:{unit}:{start}:{rs}' if op in ('wc', 'wr') else f'{OPS[op]}:{unit}:{start},{count}:{rs}'
        allowed = policy == 'allow' or rs == 'operator' or (rs == 'viewer' and op in READS)
        if not allowed:
            res = 'EX:IllegalFunction'
        elif op in READS:
            res = 'OK:' + ','.join(f'{i}={0 if op in ("rc", "rd") else i}' for i in range(start, start + count))
        else:
            res = 'OK'
        out.append(f'client={res} auth={what} x1')
    return ';'.join(out)


def spec_authz(c):
    if c.startswith('seq '):
        return spec_sequence(c)
    server, client, op, decision, unit, start, n = c.split()
    unit, start, n = int(unit), int(start), int(n)
    count = max(n, 1)
    if op in ('wc', 'wr'):
        what = f'{OPS[op]}:{unit}:{start}:operator'
    else:
        what = f'{OPS[op]}:{unit}:{start},{count}:operator'
    auth = '- x0' if decision == 'unset' else f'{what} x1'
    if decision != 'allow':
        return f'client=EX:IllegalFunction auth={auth}'
    if op in READS:
        if start + count > 10:
            res = 'EX:IllegalDataAddress'
        elif op in ('rc', 'rd'):
            res = 'OK:' + ','.join(f'{i}=0' for i in range(start, start + count))
        else:
            res = 'OK:' + ','.join(f'{i}={i}' for i in range(start, start + count))
    else:
        res = 'OK'
    return f'client={res} auth={auth}'


def check_authz(ctx, cases):
    impl = ctx.harness('ffi_authz', cases, args=[vlib.REPO, vlib.ROOT + '/certs'], timeout=900)
    model = model_eval(ctx, ['Base.Show', 'Gen.FfiTables'], 'fun a : ffi_authorization => name_rust_authorization (authorization_from_ffi a)',
                       ['FAU_Allow', 'FAU_Deny'], case_type='ffi_authorization', preamble='Local Open Scope string_scope.')
    bad = 0
    classes = {}
    if model[0] is not None and model != ['Allow', 'Deny']:
        bad += 1
        ctx.violation('authorization-model-differs', f'model maps Allow, Deny to {model}', {'cases': [], 'model': model}, no_failing_input=True)
    for c, i in zip(cases, impl):
        if c.startswith('seq '):
            _, server, policy, unit, sess = c.split()
            k = f'{server}-server.sessions-with-roles.{policy}'
            classes[k] = classes.get(k, 0) + 1
            want = spec_authz(c)
            if i != want:
                bad += 1
                gi, wi = i.split(';'), want.split(';')
                pos = next((j for j in range(min(len(gi), len(wi))) if gi[j] != wi[j]), 0)
                roles_seq = '>'.join(x.split(':')[0] for x in sess.split(','))
                if bad <= 4:
                    ctx.violation(f'authorization-role-of-another-session.{server}-server' if 'auth=' in (gi[pos] if pos < len(gi) else '') else f'authorization-sequence.{server}-server',
                                  f'TLS+authz {server} server, policy {policy}, sessions {roles_seq}: session #{pos + 1} got `{gi[pos] if pos < len(gi) else i}`, expected `{wi[pos]}` (the role shown to the authorization callback must be the role of THIS session\'s certificate)',
                                  {'cases': [['authz', c]], 'impl': i, 'spec': want}, no_failing_input=(server == 'rust' and False))
            continue
        server, client, op, decision = c.split()[:4]
        k = f'{server}-server.{client}-client.{decision}'
        classes[k] = classes.get(k, 0) + 1
        want = spec_authz(c)
        if i != want:
            bad += 1
            if bad <= 4:
                side = 'C-ABI' if 'ffi' in (server, client) else 'Rust API'
                ctx.violation(f'authorization-not-forwarded.{server}-server.{client}-client.{decision}',
                              f'TLS+authz, {server} server, {client} client, {OPS[op]}, handler says {decision}: got `{i}`, expected `{want}`',
                              {'cases': [['authz', c]], 'impl': i, 'spec': want}, no_failing_input=(side == 'Rust API'))
    ctx.oblige('correspondence:c-abi-tls-authorization', bad == 0, f'{bad} disagreements on {len(cases)} cases')
    return classes, list(zip(cases, impl))


# ------------------------------------------------------------------------------------------------ (d) TLS configuration through the C ABI
def hx(t):
    return t.encode().hex().upper() or '-'


def tls_spec_call(kv):
    """the Rust API call the C configuration must be equivalent to (independent reading of the documented fields)"""
    pw = bytes.fromhex(kv['pw']).decode() if kv['pw'] != '-' else ''
    rpw = None if pw == '' else pw
    if kv['side'] != 'client':
        return ('TlsServerConfig::new', None, rpw, {'12': 'V1_2', '13': 'V1_3'}[kv['min']], {'ca': 'AuthorityBased', 'ss': 'SelfSigned'}[kv['mode']])
    dns = bytes.fromhex(kv['dns']).decode() if kv['dns'] != '-' else ''
    if kv['mode'] == 'ss':
        return ('self_signed', None, rpw, {'12': 'V1_2', '13': 'V1_3'}[kv['min']], None)
    # dns_name is the expected name verbatim; only "*" TOGETHER WITH allow_server_name_wildcard disables name verification
    return ('full_pki', None if (kv['wild'] == '1' and dns == '*') else dns, rpw, {'12': 'V1_2', '13': 'V1_3'}[kv['min']], None)


def gen_tls_cases():
    cases = []
    for mode in ('ca', 'ss'):
        for dns in ('*', 'test.com', 'bad name!', ''):
            for wild in '01':
                for pw in ('', 'secret'):
                    for mn in ('12', '13'):
                        for files in ('ok', 'noca', 'nocert', 'nokey'):
                            cases.append(f'side=client mode={mode} dns={hx(dns)} wild={wild} pw={hx(pw)} min={mn} files={files}')
    for side in ('server', 'serverauthz'):
        for mode in ('ca', 'ss'):
            for pw in ('', 'secret'):
                for mn in ('12', '13'):
                    for files in ('ok', 'noca', 'nocert', 'nokey'):
                        cases.append(f'side={side} mode={mode} pw={hx(pw)} min={mn} files={files}')
    return cases


TLS_PRE = '''Local Open Scope string_scope.
Definition show_opt (o : option string) : string := match o with None => "none" | Some s => "some:" ++ s end.
Definition show_tls_call (c : option tls_call) : string :=
  match c with
  | None => "UNKNOWN"
  | Some c => tc_ctor c ++ "|" ++ show_opt (tc_name c) ++ "|" ++ show_opt (tc_password c) ++ "|" ++ tc_min c ++ "|" ++ show_opt (tc_mode c) ++ "|" ++ show_list (fun s => s) "," (tc_files c)
  end.
Definition run_tls (x : bool * (ffi_certificate_mode * string * bool * string * ffi_min_tls_version)) : string :=
  let '(server, (mode, dns, wild, pw, mn)) := x in
  if server then show_tls_call (ffi_tls_server_call {| cs_mode := mode; cs_password := pw; cs_min := mn |})
  else show_tls_call (ffi_tls_client_call {| cc_mode := mode; cc_dns_name := dns; cc_wildcard := wild; cc_password := pw; cc_min := mn |}).'''


def check_tls_config(ctx, cases):
    lines, specs = [], []
    for c in cases:
        kv = dict(t.split('=', 1) for t in c.split())
        kv.setdefault('dns', '-')
        kv.setdefault('wild', '0')
        ctor, name, pw, mn, mode = tls_spec_call(kv)
        specs.append((kv, ctor, name, pw, mn, mode))
        lines.append(c + f' rname={"none" if name is None else hx(name)} rpw={"none" if pw is None else hx(pw)}')
    impl = ctx.harness('ffi_tlscfg', lines, args=[vlib.REPO], timeout=600)
    coq_str = lambda t: '"' + t.replace('"', '""') + '"'
    terms = []
    for kv, *_ in specs:
        dns = bytes.fromhex(kv['dns']).decode() if kv['dns'] != '-' else ''
        pw = bytes.fromhex(kv['pw']).decode() if kv['pw'] != '-' else ''
        terms.append(f'({vlib.coq_bool(kv["side"] != "client")}, ({"FCM_SelfSigned" if kv["mode"] == "ss" else "FCM_AuthorityBased"}, {coq_str(dns)}, '
                     f'{vlib.coq_bool(kv["wild"] == "1")}, {coq_str(pw)}, {"FTV_V13" if kv["min"] == "13" else "FTV_V12"}))')
    model = model_eval(ctx, ['Base.Show', 'Gen.FfiTables', 'Spec.FfiSpec', 'Model.FfiTls'], 'run_tls', terms,
                       case_type='bool * (ffi_certificate_mode * string * bool * string * ffi_min_tls_version)', preamble=TLS_PRE, per_shard=200)
    bad = 0
    classes = {}
    if any(mo == 'UNKNOWN' for mo in model):
        ctx.oblige('tls-config-model-knows-the-conversion', False, 'a regenerated row of the TLS configuration conversion (Gen/FfiTables.v tls_client_* / tls_server_*) has a shape the model does not interpret')
        model = [None if mo == 'UNKNOWN' else mo for mo in model]
    for c, i, (kv, ctor, name, pw, mn, mode), mo in zip(cases, impl, specs, model):
        m = re.fullmatch(r'ffi:(\S+) rust:(\S+)', i)
        if not m:
            bad += 1
            ctx.violation('harness', f'{c}: {i}', {'cases': [['tlscfg', c]], 'impl': i}, no_failing_input=True)
            continue
        ffi, rust = m.groups()
        want = {'BadConfig': 'BadTlsConfig'}.get(rust, rust)
        k = f'{kv["side"]}.{rust}'
        classes[k] = classes.get(k, 0) + 1
        dns = bytes.fromhex(kv['dns']).decode() if kv['dns'] != '-' else ''
        shown = (f'certificate_mode={"self_signed" if kv["mode"] == "ss" else "authority_based"}, ' + (f'dns_name={dns!r}, allow_server_name_wildcard={kv["wild"] == "1"}, ' if kv['side'] == 'client' else '') +
                 f'password={"empty" if kv["pw"] == "-" else "non-empty"}, min_tls_version={kv["min"]}, files={kv["files"]}')
        call = f'{ctor}(' + (f'{"None" if name is None else "Some(" + repr(name) + ")"}, ' if ctor == 'full_pki' else '') + f'.., password={"None" if pw is None else "Some(..)"}, {mn}' + (f', {mode}' if mode else '') + ')'
        fn = {'client': 'rodbus_client_channel_create_tls', 'server': 'rodbus_server_create_tls', 'serverauthz': 'rodbus_server_create_tls_with_authz'}[kv['side']]
        if kv['side'] == 'client' and kv['mode'] == 'ca' and dns == '*' and kv['wild'] == '0' and rust != 'InvalidDnsName':
            bad += 1
            ctx.violation('rust-api-unexpected.full_pki-star', f'{c}: TlsClientConfig::full_pki(Some("*"), ..) answered {rust}; the reading "* is not a server name" no longer holds',
                          {'cases': [['tlscfg', c]], 'impl': i}, no_failing_input=True)
        elif ffi != want:
            bad += 1
            if bad <= 4:
                ctx.violation(f'tls-config-not-passed-through.{kv["side"]}', f'{fn} with {shown} returns {ffi}; the corresponding Rust API call {call} returns {rust}'
                              + (' - the channel exists with server name verification switched off although allow_server_name_wildcard is false' if ffi == 'Ok' and kv['side'] == 'client' and dns == '*' and kv['wild'] == '0' else ''),
                              {'cases': [['tlscfg', c]], 'impl': i, 'spec': f'ffi:{want} rust:{rust}', 'model': mo})
        elif mo is not None:
            want_model = f'{ctor}|{"none" if name is None else "some:" + name}|{"none" if pw is None else "some:" + pw}|{mn}|{"none" if mode is None else "some:" + mode}|peer_cert_path,local_cert_path,private_key_path'
            if mo != want_model:
                bad += 1
                if bad <= 4:
                    ctx.violation('tls-config-model-differs-from-impl', f'{c}: model call {mo}, Spec call {want_model} (the implementation agrees with the Spec)',
                                  {'cases': [['tlscfg', c]], 'impl': i, 'spec': want_model, 'model': mo}, no_failing_input=True)
    ctx.oblige('correspondence:tls-config-c-abi-vs-rust-api', bad == 0, f'{bad} disagreements on {len(cases)} configurations')
    if not ctx.replay:
        need = ['client.Ok', 'client.InvalidDnsName', 'client.BadConfig', 'server.Ok', 'server.BadConfig', 'serverauthz.Ok']
        missing = [k for k in need if classes.get(k, 0) < 2]
        if missing:
            ctx.oblige('tls-config-grid-reaches-expected-classes', False, f'{missing} {classes}')
    return classes, list(zip(cases, impl))


# ------------------------------------------------------------------------------------------------ (e) building an address filter through the C ABI
FSEQ_PEERS = ['127.0.0.1', '127.0.0.2', '127.0.0.3']


def gen_fseq_cases(ctx):
    creates = ['127.0.0.1', '127.0.0.2', '127.0.0.*', '*.*.*.*', '127.*.0.2', 'bad', '', '1.2.3', '256.0.0.1', '127.0.0.01', '+127.0.0.1', '::1', '::ffff:127.0.0.1']
    addsets = [[], ['127.0.0.2'], ['127.0.0.2', '127.0.0.3'], ['bad'], ['127.0.0.3', '*.*.*.*', '127.0.0.1'], ['::1', '127.0.0.3'], ['127.0.0.02']]
    cases = []
    for k, c in enumerate(creates):
        for a in [addsets[0], addsets[1 + (k + ctx.seed) % 6], addsets[1 + (k + ctx.seed + 3) % 6]]:
            cases.append((c, list(a)))
    cases += [('127.0.0.1', ['127.0.0.2']), ('127.0.0.3', ['127.0.0.1', '127.0.0.2'])]
    return [f'fseq {hx(c)} {",".join(hx(x) for x in a) or "-"}' for c, a in cases]


def fseq_spec(create, adds):
    """independent reading: create = IP address (one-element set, extendable) else wildcard else InvalidIpAddress;
    add = only a set can be extended; a failed add leaves the filter as it was"""
    from checks import c16
    lit = c16.ip_literal(create)
    if lit is not None:
        flt = ('set', [lit])
    elif c16.spec_parse(create) != 'ERR':
        flt = ('wc', c16.spec_parse(create))
    else:
        return 'InvalidIpAddress', [], None
    rcs = []
    for a in adds:
        al = c16.ip_literal(a)
        if al is not None and flt[0] == 'set':
            flt[1].append(al)
            rcs.append('Ok')
        else:
            rcs.append('InvalidIpAddress')
    return 'Ok', rcs, flt


FSEQ_PRE = '''Local Open Scope string_scope.
Definition no_v6 (_ : str) : option ip := None.
Definition run_fseq (x : list N * list (list N) * list ip) : string :=
  let '(s, adds, peers) := x in
  match ffi_filter_build no_v6 s adds with
  | None => "create=InvalidIpAddress;add=-;ffi=-"
  | Some (f, oks) => "create=Ok;add=" ++ match oks with [] => "-" | _ => show_list (fun b : bool => if b then "Ok" else "InvalidIpAddress") "," oks end
                     ++ ";ffi=" ++ show_list (fun p => if matches f p then "S" else "C") "," peers
  end.'''


def check_filter_build(ctx, cases):
    import ipaddress
    from checks import c16
    lines, specs = [], []
    for c in cases:
        _, ch, ah = c.split()[:3]
        create = bytes.fromhex(ch).decode() if ch != '-' else ''
        adds = [bytes.fromhex(x).decode() for x in ah.split(',')] if ah != '-' else []
        rc, rcs, flt = fseq_spec(create, adds)
        if flt is None:
            rust, want_peers = 'ERR', '-'
        else:
            rust = ('set=' + '+'.join(str(x) for x in flt[1])) if flt[0] == 'set' else 'wc=' + flt[1]
            want_peers = ','.join('S' if c16.spec_admits(rust, ipaddress.ip_address(p)) else 'C' for p in FSEQ_PEERS)
        specs.append((create, adds, rc, rcs, rust, want_peers))
        lines.append(f'fseq {ch} {ah} {rust} {",".join(FSEQ_PEERS)}')
    impl = ctx.harness('filter_live', lines, args=[vlib.REPO], timeout=600)
    terms = []
    for create, adds, *_ in specs:
        terms.append(f'({vlib.coq_N_list(create.encode())}, [{"; ".join(vlib.coq_N_list(a.encode()) for a in adds)}], [{"; ".join(c16.coq_ip(ipaddress.ip_address(p)) for p in FSEQ_PEERS)}])')
    model = model_eval(ctx, ['Base.Show', 'Gen.FfiTables', 'Model.Filter', 'Spec.FfiFilterSpec', 'Model.FfiFilter'], 'run_fseq', terms,
                       case_type='list N * list (list N) * list ip', preamble=FSEQ_PRE, per_shard=60)
    bad = 0
    classes = {}
    for c, i, (create, adds, rc, rcs, rust, want_peers), mo in zip(cases, impl, specs, model):
        want = f'create={rc};add={",".join(rcs) or "-"};ffi={want_peers}'
        m = re.fullmatch(r'(create=\S+?;add=\S+?;ffi=\S+?);rust=(\S+)', i)
        kind = 'invalid' if rust == 'ERR' else rust.split('=')[0]
        classes[f'filter-build.{kind}.{"with-add" if adds else "create-only"}'] = classes.get(f'filter-build.{kind}.{"with-add" if adds else "create-only"}', 0) + 1
        calls = f'rodbus_address_filter_create({create!r})' + ''.join(f', rodbus_address_filter_add({a!r})' for a in adds)
        if not m or 'FAIL' in i:
            bad += 1
            ctx.oblige('filter-build-scenario-ran', False, f'{c}: {i}')
        elif m.group(2) != want_peers:
            bad += 1
            ctx.violation('rust-api-unexpected.filter', f'{c}: the Rust API server with filter {rust} answered {m.group(2)}, expected {want_peers}', {'cases': [['fseq', c]], 'impl': i}, no_failing_input=True)
        elif m.group(1) != want:
            bad += 1
            if bad <= 4:
                g = dict(x.split('=', 1) for x in m.group(1).split(';'))
                if g['create'] != rc:
                    what = f'create returned {g["create"]} (the Rust API way: {rc})'
                elif g['add'] != (','.join(rcs) or '-'):
                    what = f'the add calls returned {g["add"]}; extending the Rust API filter {"cannot fail" if all(x == "Ok" for x in rcs) else "gives " + ",".join(rcs)}'
                else:
                    what = f'peers {",".join(FSEQ_PEERS)} are answered {g["ffi"]} by the C-ABI server, {want_peers} by the Rust API server with {rust}'
                ctx.violation('filter-built-through-c-abi-differs', f'{calls}: {what}', {'cases': [['fseq', c]], 'impl': i, 'spec': want + ';rust=' + want_peers, 'model': mo})
        elif mo is not None and ':' not in create + ''.join(adds) and mo != want:
            bad += 1
            if bad <= 4:
                ctx.violation('filter-build-model-differs-from-impl', f'{calls}: model {mo}, implementation and Spec {want}', {'cases': [['fseq', c]], 'impl': i, 'spec': want, 'model': mo}, no_failing_input=True)
    ctx.oblige('correspondence:filter-built-through-c-abi', bad == 0, f'{bad} disagreements on {len(cases)} call sequences')
    return classes, list(zip(cases, impl))


# ------------------------------------------------------------------------------------------------ (f) the error conversion, called directly
IO_KINDS = ['NotFound', 'PermissionDenied', 'ConnectionRefused', 'ConnectionReset', 'ConnectionAborted', 'NotConnected', 'AddrInUse', 'AddrNotAvailable',
            'BrokenPipe', 'AlreadyExists', 'WouldBlock', 'InvalidInput', 'InvalidData', 'TimedOut', 'WriteZero', 'Interrupted', 'Unsupported', 'UnexpectedEof',
            'OutOfMemory', 'Other']


def check_errconv(ctx, cases):
    """ffi::RequestError::from(rodbus::RequestError) on every variant x every io::ErrorKind x every exception byte: the same-named C
    value (Spec/FfiSpec.v request_error_alias: Io -> IoError, BadFrame -> BadFraming, Internal -> InternalError; an exception e ->
    ModbusException<e>); the payload (which I/O error kind) never changes the class"""
    impl = ctx.harness('ffi_errconv', cases, timeout=300)
    bad = 0
    for c, i in zip(cases, impl):
        p = c.split()
        want = ('ModbusException' + STD.get(int(p[1]), 'Unknown')) if p[0] == 'Exception' else ALIAS.get(p[0], p[0])
        if i != want:
            bad += 1
            if bad <= 3:
                val = f'RequestError::Io(ErrorKind::{p[1]})' if p[0] == 'Io' else (f'RequestError::Exception(ExceptionCode::from({p[1]}))' if p[0] == 'Exception' else f'RequestError::{p[0]}')
                ctx.violation('error-not-same-named.conversion', f'ffi::RequestError::from({val}) = {i}; the same-named C value is {want}'
                              + (' (every I/O error of the Rust API is reported as IoError, whatever its kind)' if p[0] == 'Io' else ''),
                              {'cases': [['errconv', c]], 'impl': i, 'spec': want})
    ctx.oblige('correspondence:request-error-conversion-direct', bad == 0, f'{bad} disagreements on {len(cases)} error values')
    return len(cases)


def run(ctx):
    ctx.translate(['FfiTables.v'])
    models_ok = ctx.build_models(['Base.Show', 'Model.Ffi', 'Spec.FfiSpec', 'Model.FfiWire', 'Model.FfiTls', 'Model.FfiFilter'])
    ctx.prove()
    if ctx.tier == 'thorough':
        ctx.coqchk()
    ctx.models_ok = models_ok
    if not ctx.build_harness():
        return
    thorough = ctx.tier == 'thorough'
    if ctx.replay and 'cases' in ctx.replay:
        server_cases = [c[1] for c in ctx.replay['cases'] if c[0] == 'server']
        client_cases = [c[1] for c in ctx.replay['cases'] if c[0] == 'client']
        authz_cases = [c[1] for c in ctx.replay['cases'] if c[0] == 'authz']
        tls_cases = [c[1] for c in ctx.replay['cases'] if c[0] == 'tlscfg']
        fseq_cases = [c[1] for c in ctx.replay['cases'] if c[0] == 'fseq']
        err_cases = [c[1] for c in ctx.replay['cases'] if c[0] == 'errconv']
    else:
        err_cases = [f'Io {k}' for k in IO_KINDS] + [f'Exception {b}' for b in range(256)] + ['Internal', 'NoConnection', 'BadFrame', 'Shutdown', 'ResponseTimeout', 'BadRequest', 'BadResponse']
        tls_cases = gen_tls_cases()
        fseq_cases = gen_fseq_cases(ctx)
        server_cases = gen_server_cases(ctx, thorough)
        client_cases = gen_client_cases(ctx, thorough)
        authz_cases = gen_authz_cases(ctx, thorough)
    sc, cc, ncalls = {}, {}, 0
    s_samples, c_samples = [], []
    if server_cases:
        sc, s_samples = check_server(ctx, server_cases)
    if client_cases:
        cc, ncalls, c_samples = check_client(ctx, client_cases)
    ac, a_samples = {}, []
    if authz_cases:
        ac, a_samples = check_authz(ctx, authz_cases)
    tc, t_samples = {}, []
    if tls_cases:
        tc, t_samples = check_tls_config(ctx, tls_cases)
    if err_cases:
        check_errconv(ctx, err_cases)
    fc_ = {}
    if fseq_cases:
        fc_, _ = check_filter_build(ctx, fseq_cases)
    n_sys, sys_classes, sys_samples = p5_system.check_system(ctx, 'write', 1500 if ctx.quick() else 12000, 'writes')
    if not ctx.replay:
        need = ['exception-standard', 'exception-raw', 'timeout', 'bad-response', 'bad-frame', 'io', 'ok', 'no-connection', 'shutdown', 'shutdown-queued', 'queue-full', 'states']
        missing = [k for k in need if cc.get(k, 0) < 1] + [f'{k}.{x}' for k in KINDS for x in ('success', 'standard', 'raw', 'unset') if sc.get(f'{k}.{x}', 0) < 1]
        if missing:
            ctx.oblige('generator-reaches-expected-classes', False, str(missing))
    ctx.coverage.update({
        'evaluations': len(server_cases) + ncalls + len(authz_cases) + len(tls_cases) + len(fseq_cases) + n_sys,
        'distinct_nontrivial': len(set(server_cases)) + len(set(client_cases)) + len(set(authz_cases)),
        'rule': 'server half: one case = (write kind, callback set/unset, WriteResult success/exception/raw, address, values) run against a live C-ABI server and a live Rust API server; client half: one scenario = (scripted peer behaviour selected by the start address: exception code 0..255 / silent / malformed / bad MBAP / close / correct reply; or no connection / runtime shutdown / queue overfill / parameter validation) x one of the eight requests, run through the C ABI and through the Rust API; TLS+authz: (server api, client api, request, handler decision allow/deny/unset, unit, range) over a real TLS session with the role-bearing client certificate; every case makes a real request, so all are non-trivial; distinct by case line',
        'samples': [list(x) for x in s_samples[:3]] + [list(x) for x in c_samples[:2]] + [list(x) for x in c_samples[-6:-3]] + [list(x) for x in a_samples[:2]],
        'input_classes': {'server': sc, 'client': cc, 'tls_authz': ac, 'tls_config': tc, 'filter_build': fc_, 'system_wire_replies': sys_classes},
        'system_wire_scenarios': n_sys,
        'exhaustive': False,
        'c_abi_client_calls': ncalls,
    })
