"""C12 - Response timeouts fire exactly at the deadline; N in a row drop the connection.

Theorems (coq/theories/Properties/C12.v) about the client task model and its timeout counter;
correspondence: paused-time scripts on the real ClientLoop with replies at deadline-1ns / deadline /
deadline+1ns, replies split across the deadline, per-request timeouts (aligned and not aligned to
the runtime's 1 ms timer wheel), slow writes, a second connection after a half-received frame
(finding F5), and outcome patterns over {timeout, success, exception, bad reply} for
N in {None, 1..5}; the Spec `drop_index_opt` is evaluated in Coq on the implementation's own
outcome sequences.
"""
from checks import clientlib as cl
from checks.clientlib import MS

# 'o' = a request rejected locally (cannot be formatted): for the limit it is one more "other outcome"
# Spec expectations known by construction for the directed families: script line -> {request id: (class, time or None)}
EXPECT = {}
OUT = {'t': 'Timeout', 's': 'Success', 'e': 'Exception', 'b': 'BadReply', 'o': 'BadReply'}


def connect(sim, script):
    """append whatever brings the replica to PIdle (enable, wait out the retry delay, connect)"""
    for _ in range(6):
        if sim.ph == 'Idle':
            return
        if sim.ph == 'WaitEnabled':
            st = ('E', 'f')
        elif sim.ph == 'Connecting':
            st = ('CO',)
        elif sim.ph == 'Waiting':
            st = ('T', cl.fires_at(sim.until) - sim.now)
        elif sim.ph == 'InFlight':
            st = ('T', cl.fires_at(sim.until) - sim.now)
        else:
            return
        script.append(st)
        sim.apply(st)


def add(sim, script, st):
    script.append(st)
    sim.apply(st)


def gen_boundary(r):
    cases = []
    for timeout in (1 * MS, 10 * MS, 1000 * MS, 1 * MS + 1, 2 * MS - 1, 1500000, 7):
        for pre in (0, 1, 500000, 999999):
            for rel in ('deadline', 'timer'):
                for off in (-1, 0, 1):
                    for kind in 'geb':
                        cfg = {'cap': 4, 'handles': 1, 'mt': r.choice([0, 2]), 'rmin': 20 * MS, 'rmax': 40 * MS}
                        sim = cl.Sim(cfg)
                        sc = []
                        connect(sim, sc)
                        if pre:
                            add(sim, sc, ('T', pre))
                        add(sim, sc, ('S', 0, 'r', timeout, r.choice('fcx')))
                        due0 = cl.fires_at(sim.until)
                        target = (sim.until if rel == 'deadline' else cl.fires_at(sim.until)) + off
                        if target - sim.now > 0:
                            add(sim, sc, ('T', target - sim.now))
                        t_reply = sim.now
                        add(sim, sc, ('F', 0, kind))
                        # Spec by construction: accepted iff strictly before the timer instant, else Timeout at the first tick at/after it
                        if t_reply < due0:
                            exp = {0: ({'g': 'Ok', 'e': 'Exception', 'b': 'BadResponse'}[kind], t_reply)}
                        else:
                            exp = {0: ('Timeout', t_reply)}
                        # the connection stays usable
                        add(sim, sc, ('S', 1, 'r', 5 * MS, 'f'))
                        t1 = sim.now
                        add(sim, sc, ('F', 1, 'g'))
                        exp[1] = ('Ok', t1)
                        EXPECT[cl.to_line((cfg, sc))] = exp
                        cases.append((cfg, sc))
    return cases


def gen_split(r, n):
    cases = []
    for _ in range(n):
        cfg = {'cap': 4, 'handles': 1, 'mt': r.choice([0, 0, 1, 2]), 'rmin': 20 * MS, 'rmax': 40 * MS}
        sim = cl.Sim(cfg)
        sc = []
        connect(sim, sc)
        if r.random() < 0.5:
            add(sim, sc, ('T', r.choice([1, 500000, 999999])))
        timeout = r.choice(cl.TIMEOUTS)
        add(sim, sc, ('S', 0, 'r', timeout, r.choice('fc')))
        add(sim, sc, ('S', 1, 'r', 10 * MS, 'f'))
        due = cl.fires_at(sim.until)
        before = r.choice([1, due - sim.now - 1, max(1, (due - sim.now) // 2)])
        if 0 < before < due - sim.now:
            add(sim, sc, ('T', before))
        add(sim, sc, ('P', 0, r.choice('geb')))
        add(sim, sc, ('T', due - sim.now + r.choice([0, 0, 1, MS])))      # the deadline passes with half a reply
        add(sim, sc, ('Q',))                                                # the remainder arrives while request 1 is outstanding
        if sim.ph == 'InFlight':
            add(sim, sc, ('F', sim.out_tx(), r.choice('geb')))
        cases.append((cfg, sc))
    return cases


def gen_patterns(r, n):
    cases = []
    pats = []
    for mt in (0, 1, 2, 3, 4, 5):
        for ln in (1, 2, 3, 4, 6, 8):
            for _ in range(max(1, n // 36)):
                pats.append((mt, ''.join(r.choices('tseb', weights=[5, 2, 1, 1], k=ln))))
    for mt, pat in pats:
        cfg = {'cap': 16, 'handles': 1, 'mt': mt, 'rmin': 20 * MS, 'rmax': 40 * MS}
        sim = cl.Sim(cfg)
        sc = []
        for i, o in enumerate(pat):
            connect(sim, sc)
            add(sim, sc, ('S', i, 'r', r.choice([5 * MS, 10 * MS]), r.choice('fcx')))
            if sim.ph != 'InFlight':
                continue
            if o == 't':
                add(sim, sc, ('T', cl.fires_at(sim.until) - sim.now))
            else:
                add(sim, sc, ('T', r.choice([1, MS, 3 * MS])))
                add(sim, sc, ('F', sim.out_tx(), {'s': 'g', 'e': 'e', 'b': 'b'}[o]))
        cases.append((cfg, sc))
    return cases


def gen_slow_write(r, n):
    cases = []
    for _ in range(n):
        cfg = {'cap': 4, 'handles': 1, 'mt': 0, 'rmin': 20 * MS, 'rmax': 40 * MS}
        sim = cl.Sim(cfg)
        sc = []
        connect(sim, sc)
        delay = r.choice([MS, 3 * MS, 10 * MS, 2 * MS + 1])
        timeout = r.choice([2 * MS, 5 * MS, 10 * MS])
        add(sim, sc, ('V', delay))
        add(sim, sc, ('S', 0, 'r', timeout, r.choice('fcx')))
        add(sim, sc, ('T', cl.fires_at(sim.until) - sim.now))             # the write completes
        # reply shortly before the deadline counted from the END of the write (after the one counted from its start)
        due = cl.fires_at(sim.until)
        add(sim, sc, ('T', due - sim.now - r.choice([1, MS // 2])))
        add(sim, sc, ('F', 0, r.choice('ge')))
        cases.append((cfg, sc))
    return cases


def gen_second_connection(r, n):
    cases = []
    for _ in range(n):
        cfg = {'cap': 4, 'handles': 1, 'mt': r.choice([0, 2]), 'rmin': 20 * MS, 'rmax': 40 * MS}
        sim = cl.Sim(cfg)
        sc = []
        connect(sim, sc)
        add(sim, sc, ('S', 0, 'r', 10 * MS, 'f'))
        add(sim, sc, ('P', r.choice([0, 0, 5]), r.choice('geb')))          # half a frame ...
        add(sim, sc, (r.choice(['Z', 'R']),))                               # ... then the connection dies
        connect(sim, sc)
        add(sim, sc, ('S', 1, 'r', 10 * MS, 'f'))
        add(sim, sc, ('T', r.choice([1, MS, 9 * MS])))
        t1 = sim.now
        add(sim, sc, ('F', 1, 'g'))                                         # a correct, timely reply on the new connection
        EXPECT[cl.to_line((cfg, sc))] = {0: ('Io', None), 1: ('Ok', t1)}
        cases.append((cfg, sc))
    return cases


def gen_carry_over(r, n):
    """the count is per connection: a connection ends for another reason (peer close, read error, framing error, disable +
    enable) with 1..N-1 timeouts pending, and the next connection then gets timeouts - it is dropped only after N of its own"""
    cases = []
    nid = 0
    for mt in (2, 3, 4, 5):
        for pend in range(1, mt):
            for end in ('Z', 'R', 'G', 'DE', 'Zinflight'):
                for more in sorted(set([mt - pend, mt - 1, mt])):
                    cfg = {'cap': 16, 'handles': 1, 'mt': mt, 'rmin': 20 * MS, 'rmax': 40 * MS}
                    sim = cl.Sim(cfg)
                    sc = []
                    connect(sim, sc)
                    i = 0
                    for _ in range(pend):
                        add(sim, sc, ('S', i, 'r', 5 * MS, r.choice('fcx')))
                        add(sim, sc, ('T', cl.fires_at(sim.until) - sim.now))
                        i += 1
                    if end == 'DE':
                        add(sim, sc, ('D', 'f'))
                    elif end == 'Zinflight':
                        add(sim, sc, ('S', i, 'r', 5 * MS, 'f'))
                        i += 1
                        add(sim, sc, ('Z',))
                    else:
                        add(sim, sc, (end,))
                    connect(sim, sc)
                    for _ in range(more):
                        if sim.ph != 'Idle':
                            break
                        add(sim, sc, ('S', i, 'r', 5 * MS, r.choice('fcx')))
                        add(sim, sc, ('T', cl.fires_at(sim.until) - sim.now))
                        i += 1
                    cases.append((cfg, sc))
    r.shuffle(cases)
    return cases[:n]


# ------------------------------------------------------------------------------- ClientOptions builder
# a chain is a list of (setter letter, argument code); syntax and codes: harness/src/cmd/clientoptions.rs
SETTER = {'l': 'channel_logging', 'q': 'max_queued_requests', 'd': 'decode_level', 't': 'max_response_timeouts'}
OPTION = {'l': 'channel_logging', 'q': 'max_queued_requests', 'd': 'decode_level', 't': 'max_timeouts'}
VALUES = {'l': [0, 1], 'q': [1, 4, 16, 64], 'd': [0, 1, 2], 't': [0, 1, 2, 3, 5]}
OPT_MODEL_OK = False


def chain_text(ch):
    return ','.join(f'{k}{v}' for k, v in ch) or '-'


def chain_spec_term(ch):
    return '[' + '; '.join(f'("{SETTER[k]}", {v}%N)' for k, v in ch) + ']'


def chain_model_term(ch):
    return '[' + '; '.join(f'(B{"".join(w.capitalize() for w in SETTER[k].split("_"))}, {v}%N)' for k, v in ch) + ']'


def gen_chains(r, n):
    import itertools
    out = [[]]
    for k in 'lqdt':
        out += [[(k, v)] for v in VALUES[k]]
    # the limit set first, then every other setter after it; and the other way round
    for k in 'lqd':
        for t in (1, 2, 3):
            out += [[('t', t), (k, VALUES[k][-1])], [(k, VALUES[k][-1]), ('t', t)]]
    # every order of the four setters
    for perm in itertools.permutations('lqdt'):
        out.append([(k, r.choice(VALUES[k][1:])) for k in perm])
    while len(out) < n:
        out.append([(k, r.choice(VALUES[k])) for k in r.choices('lqdt', k=r.randint(2, 7))])
    return out


def impl_fields(line):
    """`l=1 q=16 d=0 t=3` -> the Spec's print"""
    try:
        kv = dict(x.split('=') for x in line.split())
        return ' '.join(f'{OPTION[k]}={kv[k]}' for k in 'lqdt')
    except (ValueError, KeyError):
        return line


def eval_chains(ctx, chains):
    """(implementation fields, Spec fields, Spec limit, model fields or None) for every chain"""
    impl = [impl_fields(x) for x in ctx.harness('clientoptions', [chain_text(c) for c in chains])]
    spec = ctx.coq_eval(['Spec.OptionsSpecShow'], 'show_spec_options', [chain_spec_term(c) for c in chains],
                        case_type='list (string * N)', preamble='Local Open Scope string_scope.', per_shard=400)
    if OPT_MODEL_OK:
        mod = ctx.coq_eval(['Gen.ClientOptions', 'Model.OptionsBuilder'], 'fun cs : list call => show_options (build cs)', [chain_model_term(c) for c in chains],
                           case_type='list call', per_shard=400)
    else:
        mod = [None] * len(chains)
    res = []
    for i, sp, m in zip(impl, spec, mod):
        fields, limit = sp.rsplit(' limit=', 1)
        res.append((i, fields, None if limit == '-' else int(limit), m))
    return res


def subchains(ch):
    import itertools
    out = []
    for k in range(1, len(ch)):
        out += [[ch[i] for i in ix] for ix in itertools.combinations(range(len(ch)), k)]
    return out


def options_fields(ctx, chains):
    """the builder itself: every chain of public builder calls yields the documented options (hook client_options_fields)"""
    res = eval_chains(ctx, chains)
    nspec = nmod = 0
    for ch, (i, sp, _, m) in zip(chains, res):
        if i != sp:
            nspec += 1
            if nspec == 1:
                cands = sorted(subchains(ch), key=len)
                small, si, ss = ch, i, sp
                if cands:
                    for c2, (i2, s2, _, _) in zip(cands, eval_chains(ctx, cands)):
                        if i2 != s2:
                            small, si, ss = c2, i2, s2
                            break
                calls = '.'.join(f'{SETTER[k]}({v})' for k, v in small)
                ctx.violation('C12.options-builder-call-changes-another-option',
                              f'ClientOptions::default().{calls}: documented result {ss}, the implementation yields {si} (codes: harness/src/cmd/clientoptions.rs)',
                              {'chains': [chain_text(small)], 'impl': si, 'spec': ss, 'model': m, 'original_chain': chain_text(ch)})
        elif m is not None and m != i:
            nmod += 1
            if nmod == 1:
                ctx.violation('model-differs-from-impl', f'ClientOptions chain {chain_text(ch)}: model {m}, implementation {i}',
                              {'chains': [chain_text(ch)], 'impl': i, 'model': m}, no_failing_input=True)
    ctx.oblige('correspondence:options-builder-chains', nspec == 0 and nmod == 0, f'{nmod} model / {nspec} spec mismatches in {len(chains)} chains')
    return res


def options_behaviour(ctx, chains, res, keys=None):
    """the options go into the REAL task (create_tcp_client_task_with_options, loopback TCP, no hook): a silent peer, every
    request times out; with the documented limit L the connection is dropped after every L-th timeout in a row, without
    a limit never"""
    from checks import c13
    items = []
    for ch, (_, _, limit, _) in zip(chains, res):
        L = limit or 0
        k = (2 * L + 1) if L else 3
        sc = c13.Scenario(L)
        sc.op('env', 'silent')
        sc.op('enable')
        for _ in range(k):
            if sc.sim.ph == 'Waiting':
                sc.op('retry')
            sc.op('submit')
        if sc.sim.ph == 'Waiting':
            sc.op('retry')
        sc.op('shutdown')
        line, mcase = sc.finish()
        cfg, script = line.split('|', 1)
        items.append((ch, L, k, f'{cfg.strip()} chain={chain_text(ch)} |{script}', mcase))
    return judge_behaviour(ctx, items, keys)


KEYS12 = ('C12.timeout-limit-set-through-the-options-builder-not-in-force', 'C12.task-built-from-the-options-differs-from-the-model',
          'correspondence:options-reach-the-real-task')


def judge_behaviour(ctx, items, keys=None):
    k_spec, k_model, k_obl = keys or KEYS12
    impl = ctx.harness('lifecycle', [it[3] for it in items], shards=8, timeout=900)
    if cl.MODEL_OK:
        mod = ctx.coq_eval(cl.REQUIRES, 'eval_case', [cl.to_coq(it[4]) for it in items], case_type='case', per_shard=100)
    else:
        mod = [None] * len(items)
    bad = 0
    drops = 0
    for (ch, L, k, line, mcase), i, m in zip(items, impl, mod):
        parts = i.split('|')
        spec, other = [], []
        if i == 'PANIC' or len(parts) != 7:
            spec.append('panic-or-garbled-output')
        else:
            ls, comp, fin, accepts, tmo, gaps, pview = parts
            ls = ls.split()
            ntmo = len([c for c in comp.split() if c.endswith(':Timeout')])
            want = ntmo // L if L else 0          # every L-th timeout in a row (silent peer: all in a row) drops the connection
            drops += ls.count('lW20000000') + ls.count('lW40000000')
            nw = len([x for x in ls if x[:2] == 'lW'])
            if nw != want:
                spec.append(k_spec)
            # dropped means closed: the scenario holds the task AT every WaitAfterDisconnect notification (the callback is the
            # gate) and the harness asks the peer what it sees there - the connection the limit dropped must be over for it
            for pv in pview.split():
                n, nopen, _mode = pv[1:].split(':')
                if ls[int(n) - 1][:2] == 'lW' and int(nopen) > 0:
                    spec.append(k_spec.split('.')[0] + '.connection-still-open-at-the-peer-when-the-drop-after-N-timeouts-is-announced')
            if m is not None:
                mp = cl.parse(cl.canon(m))
                mls = [t.split('@')[0] for t in mp['task'] if t[0] == 'l']
                mcomp = ' '.join(f'c{c[0]}:{c[1]}' for c in sorted(mp['comp']))
                if mls != ls or mcomp != comp or mp['done'] != fin.startswith('done'):
                    other.append(k_model)
            if tmo:
                other.append(k_spec.split('.')[0] + '.' + tmo.replace(' ', '-'))
        why = spec + other
        if why:
            bad += 1
            if bad <= 1:
                calls = '.'.join(f'{SETTER[a]}({v})' for a, v in ch)
                ctx.violation(why[0], f'ClientOptions::default().{calls} (documented limit {L or None}), silent peer, {k} requests [{line}]: {", ".join(why)}; impl={i} model={m}',
                              {'behaviour': [[chain_text(ch), L, k, line, cl.case_json(mcase)]], 'impl': i, 'model': m, 'why': why},
                              no_failing_input=not spec)
    ctx.oblige(k_obl, bad == 0, f'{bad} of {len(items)} scenarios')
    return drops


def options_family(ctx):
    global OPT_MODEL_OK
    e = getattr(ctx, 'gen_report', {}).get('ClientOptions.v', {'ok': False, 'error': 'no such generator'})
    if not ctx.oblige('translator:ClientOptions.v', e['ok'], e.get('error', '')):
        ctx.proof_broken.append(f'translator could not regenerate Gen/ClientOptions.v: {e.get("error")}')
    e2 = getattr(ctx, 'gen_report', {}).get('ClientScope.v', {'ok': False, 'error': 'no such generator'})
    if not ctx.oblige('translator:ClientScope.v', e2['ok'], e2.get('error', '')):
        ctx.proof_broken.append(f'translator could not regenerate Gen/ClientScope.v: {e2.get("error")}')
    OPT_MODEL_OK = bool(e['ok']) and ctx.build_models(['Model.OptionsBuilder'])
    ctx.build_models(['Spec.OptionsSpecShow'])
    if ctx.replay and 'chains' in ctx.replay:
        options_fields(ctx, [[(c[0], int(c[1:])) for c in t.split(',') if c and c != '-'] for t in ctx.replay['chains']])
        return {}
    if ctx.replay and 'behaviour' in ctx.replay:
        judge_behaviour(ctx, [([(c[0], int(c[1:])) for c in t.split(',') if c and c != '-'], L, k, line, cl.case_from_json(j))
                              for t, L, k, line, j in ctx.replay['behaviour']])
        return {}
    if ctx.replay:
        return {}
    chains = gen_chains(ctx.rng, 150 if ctx.quick() else 1500)
    res = options_fields(ctx, chains)
    # behaviour: the chains in which the limit is set and other setters follow, some without a limit
    pick = [j for j, ch in enumerate(chains) if any(k == 't' for k, _ in ch[:-1]) and (res[j][2] or 0) <= 3]
    nolimit = [j for j, ch in enumerate(chains) if res[j][2] is None and ch]
    ctx.rng.shuffle(pick)
    ctx.rng.shuffle(nolimit)
    sel = sorted(pick[:20 if ctx.quick() else 80] + nolimit[:4 if ctx.quick() else 16], key=lambda j: len(chains[j]))   # the first one reported is a short one
    drops = options_behaviour(ctx, [chains[j] for j in sel], [res[j] for j in sel])
    stats = {'options-chains': len(chains), 'options-chains-limit-then-other-setters': len(pick),
             'options-behaviour-scenarios': len(sel), 'options-behaviour-drops-observed': drops}
    if len(pick) < 20 or drops < 10:
        ctx.oblige('generator-reaches-expected-classes:options', False, str(stats))
    return stats


def gen_c12(r, quick):
    cases = gen_boundary(r)
    cases += gen_split(r, 150 if quick else 1500)
    cases += gen_patterns(r, 300 if quick else 3000)
    cases += gen_slow_write(r, 40 if quick else 300)
    cases += gen_second_connection(r, 40 if quick else 300)
    cases += gen_carry_over(r, 120 if quick else 400)
    for c, exp in cl.gen_parked(r) + cl.gen_large(r):          # large replies behind stale frames in one read chunk; the transmit side: bounded by the timeout from its start; the reply deadline counts from its end
        cases.append(c)
        if exp:
            EXPECT[cl.to_line(c)] = exp
    w = {'S': 6, 'F': 4, 'P': 1.5, 'Q': 5, 'T': 9, 'E': 0.3, 'D': 0.2, 'H': 0, 'A': 0.05, 'X': 0.1, 'W': 0.3, 'V': 0.6,
         'Z': 0.2, 'R': 0.2, 'G': 0.2, 'L': 0.2}
    for _ in range(1500 if quick else 10000):
        cfg = cl.default_cfg(r, handles=1, mt=r.choice([0, 1, 2, 3]))
        if r.random() < 0.2:
            cfg['rtu'] = 1
        cases.append((cfg, cl.gen_random(r, cfg, r.choice([6, 9, 12]), w, prefix=cl.connected_prefix())))
    return cases


def run(ctx):
    if not cl.prepare(ctx, ['Spec.ClientSpec']):
        return
    if ctx.replay and 'cases' in ctx.replay:
        cases = [cl.case_from_json(j) for j in ctx.replay['cases']]
    else:
        cases = gen_c12(ctx.rng, ctx.quick())
    opt_stats = options_family(ctx)
    if ctx.replay and ('chains' in ctx.replay or 'behaviour' in ctx.replay):
        return
    impl, model = cl.run_both(ctx, cases)
    n_mis, n_spec = cl.judge(ctx, 'C12', cases, impl, model)
    ctx.oblige('correspondence:client-task-scripts', n_mis == 0 and n_spec == 0, f'{n_mis} model / {n_spec} spec mismatches in {len(cases)} scripts')

    # directed families: what the property statement says must happen, known by construction
    nexp = 0
    for c, i in zip(cases, impl):
        exp = EXPECT.get(cl.to_line(c))
        if not exp:
            continue
        p = cl.parse(i)
        got = {x[0]: (x[1], x[2]) for x in p['comp']} if p else {}
        for rid, (wc, wt) in exp.items():
            g = got.get(rid)
            if g is None or g[0] != wc or (wt is not None and g[1] != wt):
                nexp += 1
                if nexp == 1:
                    key = 'C12.timely-reply-on-a-new-connection-not-accepted' if wt is not None and wc == 'Ok' and rid == 1 and exp.get(0, ('', 0))[0] == 'Io' else 'C12.outcome-at-the-deadline-boundary'
                    if any(st[0] == 'FL' for st in c[1]):
                        key = 'C12.reply-completed-before-the-deadline-but-the-request-did-not-succeed'
                    if any(st[0] == 'WP' for st in c[1]):
                        key = 'C12.transmission-or-reply-deadline-of-a-parked-write-not-as-required'
                    ctx.violation(key, f'script {cl.to_line(c)}: request {rid} must complete with {wc} at t={wt}, the implementation reports {g}; impl={i}',
                                  {'cases': [cl.case_json(c)], 'impl': i, 'expected': {str(k): list(v) for k, v in exp.items()}})
    ctx.oblige('spec:directed-deadline-and-reconnect-expectations', nexp == 0, f'{nexp} failed of {len(EXPECT)}')

    # the Spec's drop index, evaluated in Coq, on the implementation's own outcome sequences
    seqs = []
    for c, i in zip(cases, impl):
        for outs, end in cl.session_outcomes(c, i):
            known = []
            for o in outs:
                if o is None:
                    break
                known.append(o)
            if known:
                seqs.append((c, c[0]['mt'], known, end))
    fn = 'fun c : option N * list outcome => show_option show_nat "-" (drop_index_opt (fst c) (snd c))'
    terms = [f'({"Some " + str(mt) if mt else "None"}, [{"; ".join(OUT[o] for o in outs)}])' for _, mt, outs, _ in seqs]
    res = ctx.coq_eval(['Base.Show', 'Spec.ClientSpec'], fn, terms,
                       case_type='option N * list outcome', preamble='Local Open Scope string_scope.', per_shard=400)
    bad = 0
    ended = 0
    for (c, mt, outs, end), rs in zip(seqs, res):
        spec = rs
        dropped_at = len(outs) - 1 if end == 'MaxTimeouts' else None
        want = None if spec == '-' else int(spec)
        ended += want is not None
        if want != dropped_at:
            bad += 1
            if bad == 1:
                ctx.violation('C12.connection-drop-differs-from-the-consecutive-timeout-rule',
                              f'limit {mt or None}, outcomes {"".join(outs)} on one connection: Spec drops at index {spec}, the implementation {"dropped at " + str(dropped_at) if dropped_at is not None else "did not drop"} ({cl.to_line(c)})',
                              {'cases': [cl.case_json(c)], 'outcomes': ''.join(outs), 'limit': mt, 'spec': spec, 'impl_end': end})
    ctx.oblige('spec:drop-index-on-implementation-outcome-sequences', bad == 0, f'{bad} of {len(seqs)} connections')

    classes = {}
    for c, i in zip(cases, impl):
        for k in cl.classify(c, i):
            classes[k] = classes.get(k, 0) + 1
    classes['connections-with-outcomes'] = len(seqs)
    classes['connections-dropped-by-the-limit'] = ended
    classes.update(opt_stats)
    tl = [(sum(1 for o in outs if o == 't'), mt) for _, mt, outs, _ in seqs]
    for mt in sorted(set(m for _, m in tl)):
        classes[f'limit={mt or "None"}'] = len([1 for _, m in tl if m == mt])
    if not ctx.replay and (ended < 20 or classes.get('result:Timeout', 0) < 100 or classes.get('result:Ok', 0) < 100):
        ctx.oblige('generator-reaches-expected-classes', False, str(classes))
    ctx.coverage.update({
        'evaluations': len(cases) + len(seqs),
        'distinct_nontrivial': len(set(cl.to_line(c) for c, i in zip(cases, impl) if 'Timeout' in i or ':Ok' in i)),
        'rule': 'timed event scripts: reply at deadline/timer instant -1ns,0,+1ns for 7 timeouts x 4 start offsets x 3 reply kinds; replies split across the deadline; outcome patterns for N in None,1..5; slow writes; second connection after half a frame; random timed scripts. non-trivial = a request timed out or was answered; distinct by script text',
        'samples': [[cl.to_line(c), i] for c, i in list(zip(cases, impl))[:3]],
        'input_classes': dict(sorted(classes.items())),
        'exhaustive': False,
    })
