"""C06 - RTU frames are emitted with a correct CRC and accepted only if the CRC verifies.

Theorems (coq/theories/Properties/C06.v): emission format and size bound, the CRC gate, chunking
independence of the RTU reader for both parser roles, algebraic detection of 1-bit / 2-bit /
burst<=16 errors, and the session-level consequence for length-preserving corruptions.
Correspondence: (a) the production FramedReader with the RTU request / response parser over the
scripted transport vs. model and Spec on streams of valid and corrupted frames x chunk
schedules; (b) frames emitted by the production RTU client (ClientLoop + FrameWriter::rtu) and by
the production server session vs. Model/Format.rtu_format and the Spec's rtu_frame_of (and a
third, independent CRC in Python); (c) corrupted requests through the production server session:
no handler call, no reply.
"""
import vlib
from checks import framing_common as fc

WRITE_REQUIRES = ['Base.Show', 'Base.Frame', 'Gen.WritePath', 'Model.WritePath', 'Model.WriteEval']
CLASSES = ['1bit', '2bit', 'burst', 'crc_swapped', 'crc_lo_only', 'crc_hi_only', 'crc_no_addr', 'payload_byte']


def frame_bounds(role, frame):
    """positions inside one frame where a split is interesting"""
    b = [1, 2, len(frame) - 2, len(frame) - 1, len(frame)]
    fcv = frame[1]
    if role == 'rtureq' and fcv in (15, 16):
        b += [6, 7]
    if role == 'rtursp' and fcv in (1, 2, 3, 4):
        b += [2, 3]
    return b


def gen_stream(r, role, forced_fc=None, forced_cls=None):
    parts, tags, bounds = [], set(), []
    n = r.choice([1, 1, 1, 2, 3, 5])
    bad_at = r.randrange(n) if (forced_cls or r.random() < 0.6) else None
    for i in range(n):
        fcv = forced_fc if (forced_fc is not None and i == (bad_at or 0)) else r.choice(fc.FCS)
        kind = 'exception' if forced_fc == 'exc' and i == (bad_at or 0) else None
        if fcv == 'exc':
            fcv = r.choice(fc.FCS)
        pdu = fc.rtu_pdu(r, role, fcv, kind)
        addr = r.choice([0, 1, 2, 42, 247, 248, 255, r.randrange(256)])
        f = fc.rtu_frame(addr, pdu)
        tags.add('fc:%d' % (pdu[0] & 0x7F))
        if pdu[0] & 0x80:
            tags.add('exception_reply')
        if i == bad_at:
            cls = forced_cls or r.choice(CLASSES)
            g = fc.corrupt(r, f, cls)
            tags.add('corrupt:' + cls)
            # does the corruption leave the delimiting bytes (function code, byte count) alone?
            keep = g[1] == f[1]
            if role == 'rtureq' and f[1] in (15, 16):
                keep = keep and g[6] == f[6]
            if role == 'rtursp' and f[1] in (1, 2, 3, 4):
                keep = keep and g[2] == f[2]
            tags.add('length_preserving' if keep else 'length_changing')
            f = g
        pos = sum(len(p) for p in parts)
        bounds += [pos + x for x in frame_bounds(role, f)]
        parts.append(f)
    s = b''.join(parts)
    k = r.random()
    if k < 0.2 and len(s) > 1:
        s = s[:r.choice([r.randrange(1, len(s)), max(1, len(s) - r.randrange(1, 4))])]
        tags.add('truncated')
    elif k < 0.3:
        s += bytes(r.randrange(256) for _ in range(r.randrange(1, 6)))
        tags.add('garbage_tail')
    return s, [b for b in bounds if 0 < b < len(s)], tags


def gen_reader_cases(ctx, n_streams):
    r = ctx.rng
    cases, tags = [], []
    # directed: the crate's vectors; oversize by byte count; unknown function code; stale-state bait
    big_rsp = fc.rtu_frame(1, bytes([3, 250]) + bytes(range(250)))
    too_big = bytes([1, 3, 252]) + bytes(254) + b'\x00\x00'
    directed = [
        ('rtureq', [bytes.fromhex('2A0100100013'), bytes.fromhex('7A19')]),
        ('rtursp', [bytes.fromhex('2A0103CD6B05'), bytes.fromhex('4499')]),
        ('rtursp', [bytes.fromhex('2A8302'), fc.rtu_frame(0x2A, bytes([0x83, 2]))[3:]]),
        ('rtursp', [big_rsp]), ('rtursp', [big_rsp[:100], big_rsp[100:]]), ('rtursp', [too_big]),
        ('rtureq', [bytes([1, 16, 0, 0, 0, 1, 250]) + bytes(250)]),
        ('rtureq', [bytes([1, 7, 0, 0])]), ('rtursp', [bytes([1, 0x2B, 0, 0])]), ('rtureq', [bytes([1, 0x81, 1, 0, 0])]),
        ('rtureq', [bytes([5])]), ('rtureq', []),
    ]
    for line in fc.load_corpus('C06', 'reader.txt'):
        cases.append(fc.case_from_line(line))
        tags.append(({'corpus'}, 'corpus'))
    # the buffer exactly full with 6 bytes consumed: a 5-byte exception reply, then a 256-byte reply whose address byte is consumed
    small, huge = fc.rtu_frame(9, bytes([0x83, 2])), fc.rtu_frame(7, bytes([3, 251]) + bytes(range(251)))
    for tail in [[huge[255:]], [huge[255:256] + small], [bytes([b]) for b in huge[255:]]]:
        directed.append(('rtursp', [small + huge[:255]] + tail))
        directed.append(('rtursp', [small, huge[:100], huge[100:255]] + tail))
    directed.append(('rtureq', [bytes.fromhex('010600010002ffff'), bytes.fromhex('061029D0000102A0005332')]))
    for role, d in directed:
        for fin in ['eof', 'pending']:
            for mode in ['stop', 'resume', 'cancel']:
                cases.append((role, mode, fin, d))
                tags.append(({'directed'}, 'directed'))
    # a frame with a bad CRC followed by bytes that would verify against the STALE parser state
    for role in ['rtureq', 'rtursp']:
        for _ in range(6):
            pdu = fc.rtu_pdu(r, role, r.choice([5, 6]))
            addr = r.randrange(1, 248)
            bad = fc.corrupt(r, fc.rtu_frame(addr, pdu), 'crc_hi_only')
            data = bytes(r.randrange(256) for _ in range(len(pdu)))
            bait = data + fc.rtu_frame(addr, data)[-2:]
            cases.append((role, 'resume', 'pending', [bad, bait]))
            tags.append(({'stale_state_bait'}, 'directed'))
    combos = [(role, f, c) for role in ['rtureq', 'rtursp'] for f in fc.FCS + ['exc'] for c in CLASSES if not (role == 'rtureq' and f == 'exc')]
    r.shuffle(combos)
    for k in range(n_streams):
        if k < len(combos):
            role, f, cls = combos[k]
            s, bounds, t = gen_stream(r, role, f, cls)
        else:
            role = r.choice(['rtureq', 'rtursp'])
            s, bounds, t = gen_stream(r, role)
        for sched_tag, chunks in fc.schedules(r, s, bounds, want=2):
            fin = r.choice(['eof', 'pending', 'err'])
            k = r.random()
            mode = 'resume' if k < 0.2 else 'cancel' if k < 0.45 else 'stop'
            cases.append((role, mode, fin, chunks))
            tags.append((t, sched_tag))
    return cases, tags


# ---------------------------------------------------------------- emission
def gen_emit_cases(ctx, n):
    r = ctx.rng
    lines = fc.load_corpus('C06', 'emit.txt')
    counts_bits = [1, 2, 7, 8, 9, 15, 16, 17, 1000, 1967, 1968, 1969, 2000, 2001]
    counts_regs = [1, 2, 3, 100, 122, 123, 124, 125, 126]
    for k in ['rc', 'rd']:
        for c in counts_bits:
            lines.append(f'{r.randrange(256)} {k} {r.randrange(0, 60000)} {c}')
    for k in ['rh', 'ri']:
        for c in counts_regs:
            lines.append(f'{r.randrange(256)} {k} {r.randrange(0, 60000)} {c}')
    for c in [0, 1, 7, 8, 9, 1000, 1967, 1968, 1969, 1976, 2008]:
        bits = ''.join(r.choice('01') for _ in range(c)) or '-'
        lines.append(f'{r.randrange(256)} wmc {r.randrange(0, 60000)} {bits}')
    for c in [0, 1, 2, 100, 122, 123, 124, 125]:
        vals = ','.join(str(r.randrange(65536)) for _ in range(c)) or '-'
        lines.append(f'{r.randrange(256)} wmr {r.randrange(0, 60000)} {vals}')
    while len(lines) < n:
        k = r.choice(['rc', 'rd', 'rh', 'ri', 'wsc', 'wsr', 'wmc', 'wmr'])
        u, a = r.choice([0, 1, 255, r.randrange(256)]), r.choice([0, 65535, r.randrange(65536)])
        if k in ('rc', 'rd'):
            lines.append(f'{u} {k} {a} {r.randrange(1, 2001)}')
        elif k in ('rh', 'ri'):
            lines.append(f'{u} {k} {a} {r.randrange(1, 126)}')
        elif k == 'wsc':
            lines.append(f'{u} wsc {a} {r.choice("01")}')
        elif k == 'wsr':
            lines.append(f'{u} wsr {a} {r.randrange(65536)}')
        elif k == 'wmc':
            c = r.randrange(1, 1969)
            lines.append(f'{u} wmc {r.randrange(0, 65536 - c)} ' + ''.join(r.choice('01') for _ in range(c)))
        else:
            c = r.randrange(1, 124)
            lines.append(f'{u} wmr {r.randrange(0, 65536 - c)} ' + ','.join(str(r.randrange(65536)) for _ in range(c)))
    return lines


# ---------------------------------------------------------------- the RTU client over consecutive connections
def gen_client_cases(ctx, n):
    """each connection: the client has read-holding-registers(unit 1, start 0, count 1) in flight, the
    stream is what comes back: a valid reply, an exception reply, or one of them corrupted"""
    r = ctx.rng
    good = lambda v: fc.rtu_frame(1, bytes([3, 2, v >> 8, v & 255]))
    exc = lambda c: fc.rtu_frame(1, bytes([0x83, c]))
    cases = [[([good(0x1234)[:5]], 'eof'), ([good(7)], 'pending')],            # F5 on serial: dies mid-frame, next connection is clean
             [([fc.corrupt(r, good(1), 'crc_swapped')], 'pending'), ([good(2)], 'pending')]]
    while len(cases) < n:
        conns = []
        for k in range(r.choice([1, 2, 2, 3])):
            f = good(r.randrange(65536)) if r.random() < 0.7 else exc(r.choice([1, 2, 3, 4, 6]))
            kind = r.random()
            if kind < 0.5:
                f = fc.corrupt(r, f, r.choice(CLASSES))
            s = f + (good(9) if r.random() < 0.2 else b'')
            if r.random() < 0.25 and len(s) > 1:
                s = s[:r.randrange(1, len(s))]
                fin = r.choice(['eof', 'err'])
            else:
                fin = r.choice(['eof', 'err', 'pending'])
            cuts = [r.randrange(1, max(2, len(s))) for _ in range(r.choice([0, 1, 2]))]
            conns.append((fc.split_at(s, cuts), fin))
        cases.append(conns)
    return cases


def expected_client_results(spec_str):
    out = []
    for conn in spec_str.split(' / '):
        res = '?'
        for it in conn.split(' '):
            if it.startswith('F('):
                p = bytes.fromhex(it[2:-1].split(',')[3])
                res = ('Ok(%d)' % (p[2] * 256 + p[3]) if len(p) == 4 and p[0] == 3 and p[1] == 2 else
                       'Exception(%d)' % p[1] if len(p) == 2 and p[0] == 0x83 else 'BadResponse')
            elif it.startswith('BadFrame'):
                res = 'BadFrame'
            elif it.startswith('Io('):
                res = 'Io'
            elif it == 'Pending':
                res = 'Timeout'
            else:
                continue
            break
        out.append(res)
    return ' / '.join(out)


def run_client(ctx, cases):
    line = lambda conns: ' / '.join(' '.join([fin] + [c.hex() for c in chunks]) for chunks, fin in conns)
    coq = lambda conns: '[' + ';'.join('([%s], %s)' % (';'.join(vlib.coq_N_list(c) for c in chunks), fc.FIN[fin]) for chunks, fin in conns) + ']'
    impl = ctx.harness('client_conns', [line(c) for c in cases], args=['--rtu'], shards=8)
    both = fc.coq_pairs(ctx, 'client_rtu', [coq(c) for c in cases], 'list (list (list N) * fin)')
    bad = 0
    for c, i, (model, spec) in zip(cases, impl, both):
        want = expected_client_results(spec)
        if i != want or (model is not None and expected_client_results(model) != want):
            bad += 1
            if bad == 1:
                ctx.violation('rtu-client.connection-results-differ-from-spec',
                              f'RTU client over {len(c)} connection(s) `{line(c)[:200]}`: request results {i}; each connection\'s own stream prescribes {want} (frames: {spec[:160]})',
                              {'cases': [{'client': [[[x.hex() for x in ch], fin] for ch, fin in c]}], 'impl': i, 'spec_frames': spec, 'model_frames': model, 'expected': want},
                              no_failing_input=(i == want))
    return bad, impl


# ---------------------------------------------------------------- the RTU server across port re-opens
def gen_reopen_cases(ctx, n):
    """a bus carrying write-single-register requests for units 1, 2 (served), 6 (not served) and 0 (broadcast), some
    of them corrupted, received over several port sessions (one read burst per session, so that nothing is lost
    when a session ends; a session ends at the first framing error or at its EOF / I/O error)"""
    r = ctx.rng
    wsr = lambda u, a, v: fc.rtu_frame(u, bytes([6, a >> 8, a & 255, v >> 8, v & 255]))
    # the independent seeded scenario: a bad-CRC frame for unit 1, then a VALID frame for unit 6 whose first bytes
    # verify as a unit-1 PDU if the parser still remembers (unit 1, length 4)
    bait = bytes.fromhex('061029D0000102A0005332')
    bad1 = wsr(1, 1, 2)[:-2] + b'\xff\xff'
    cases = [[('eof', [bad1 + bait])], [('eof', [bad1]), ('eof', [bait])], [('err', [bad1[:5]]), ('eof', [bad1[5:] + bait[:3]]), ('eof', [bait[3:]])]]
    for u in (1, 2):
        data = bytes(r.randrange(256) for _ in range(5))
        stale = data + fc.rtu_frame(u, data)[-2:]                     # verifies only against the stale (unit u, length 4)
        cases.append([('eof', [fc.corrupt(r, wsr(u, 3, 4), 'crc_hi_only')]), ('eof', [stale + wsr(2, 9, 9)])])
    while len(cases) < n:
        frames = []
        for _ in range(r.choice([2, 3, 4, 6])):
            f = wsr(r.choice([1, 2, 6, 0, 1, 2]), r.randrange(65536), r.randrange(65536))
            k = r.random()
            if k < 0.35:
                f = fc.corrupt(r, f, r.choice(['1bit', '2bit', 'burst', 'crc_swapped', 'crc_hi_only', 'crc_lo_only', 'payload_byte']))
            frames.append(f)
        s = b''.join(frames)
        cuts = sorted(set(r.randrange(1, len(s)) for _ in range(r.choice([0, 1, 2, 3]))))
        cases.append([(r.choice(['eof', 'err']), [c]) for c in fc.split_at(s, cuts)])
    return cases


def expected_reopen(spec):
    """handler calls, framing errors and number of replies the Spec's items prescribe (None if a frame is not a write-single-register)"""
    calls, errs, replies = [], [], 0
    for it in spec.split(' '):
        if it.startswith('F('):
            tx, dest, bc, payload = it[2:-1].split(',')
            p = bytes.fromhex(payload)
            d = int(dest)
            if d not in (0, 1, 2):
                continue                                  # a unit this server does not serve: no call, no reply, whatever the request
            if len(p) != 5 or p[0] != 6:
                return None
            units = [1, 2] if d == 0 else [d] if d in (1, 2) else []
            calls += ['u%d:wsr(%d,%d)' % (u, p[1] * 256 + p[2], p[3] * 256 + p[4]) for u in units]
            replies += 1 if d in (1, 2) else 0
        elif it.startswith('E('):
            errs.append(it[2:-1])
    return ';'.join(calls) or '-', errs, replies


def run_reopen(ctx, cases):
    line = lambda c: ' / '.join(' '.join([fin] + [x.hex() for x in ch]) for fin, ch in c)
    impl = ctx.harness('rtu_reopen', [line(c) for c in cases], shards=8)
    flat = [('rtureq', 'resume', 'eof', [x for fin, ch in c for x in ch]) for c in cases]
    specs = [r[2] for r in fc.evaluate(ctx, flat)]
    bad = skipped = 0
    for c, i, spec in zip(cases, impl, specs):
        exp = expected_reopen(spec)
        if exp is None:
            skipped += 1
            continue
        f = dict(kv.split('=', 1) for kv in i.split(' ')) if i not in ('PANIC', 'SPIN') else {'calls': i, 'replies': '-', 'ends': i}
        errs = [e for e in f['ends'].split(';') if e.startswith('BadFrame') or e == 'Internal']
        nrep = 0 if f['replies'] == '-' else len(f['replies'].split(','))
        if f['calls'] != exp[0] or errs != exp[1] or nrep != exp[2] or not f['ends'].split(';')[-1].startswith('Io('):
            bad += 1
            if bad == 1:
                extra_call = f['calls'] != exp[0]
                ctx.violation('rtu-server.reopen.handler-called-for-a-frame-that-does-not-verify' if extra_call else 'rtu-server.reopen.sessions-differ-from-spec',
                              f'RTU server, one session across port re-opens `{line(c)[:200]}`: handler calls {f["calls"][:160]} (the stream prescribes {exp[0][:160]}); '
                              f'framing errors {errs} (prescribed {exp[1]}); the bus as the Spec cuts it: {spec[:200]}',
                              {'cases': [{'reopen': [[fin, [x.hex() for x in ch]] for fin, ch in c]}], 'impl': i, 'spec': spec,
                               'expected_calls': exp[0], 'harness_line': 'rtu_reopen: ' + line(c)})
    return bad, skipped, impl


# ---------------------------------------------------------------- the transmit side under congestion
def gen_write_cases(ctx, n):
    """(role, script, ncmds, request hex): a frame written into a transport that takes it in pieces and is full for a
    while (`b` steps), with decode-level changes arriving while the write is parked"""
    r = ctx.rng
    reqs = {'server-rtu': lambda: fc.rtu_frame(1, bytes([3, 0, r.randrange(50), 0, r.choice([1, 3, 60, 125])])).hex(),
            'server-tcp': lambda: fc.mbap(r.randrange(65536), 1, bytes([3, 0, r.randrange(50), 0, r.choice([1, 3, 60, 125])])).hex(),
            'client-rtu': lambda: '', 'client-tcp': lambda: ''}
    cases = [('server-rtu', 'a4,b,a2,b,a300', 2, fc.rtu_frame(1, bytes([3, 0, 0, 0, 3])).hex()),
             ('server-tcp', 'a4,b,a300', 3, fc.mbap(7, 1, bytes([3, 0, 0, 0, 3])).hex()),
             ('server-rtu', 'b,a300', 1, fc.rtu_frame(1, bytes([3, 0, 0, 0, 3])).hex()),
             ('client-rtu', 'a3,b,a300', 2, ''), ('client-tcp', 'a1,b,a1,b,a300', 1, '')]
    while len(cases) < n:
        role = r.choice(['server-rtu', 'server-rtu', 'server-tcp', 'client-rtu', 'client-tcp'])
        steps = []
        for _ in range(r.choice([1, 2, 2, 3])):
            steps.append('a%d' % r.choice([1, 2, 3, 5, 8, 100]))
            if r.random() < 0.8:
                steps.append('b')
        steps.append('a300')
        cases.append((role, ','.join(steps), r.choice([0, 1, 1, 2, 5]), reqs[role]()))
    return cases


def run_write(ctx, cases):
    line = lambda c, script, n: ' '.join([c[0], script, str(n)] + ([c[3]] if c[3] else []))
    out = ctx.harness('reply_write', [line(c, c[1], c[2]) for c in cases] + [line(c, '-', 0) for c in cases], shards=8)
    scripted, ref = out[:len(cases)], out[len(cases):]
    evs = lambda c: '[' + ';'.join('Take %s' % t[1:] if t[0] == 'a' else ';'.join(['Cmd CChangeDecoding'] * c[2]) for t in c[1].split(',') if t[0] == 'a' or c[2] > 0) + ']'
    if fc.MODE['write']:
        model = ctx.coq_eval(WRITE_REQUIRES, 'eval_write_reply', ['(%s, %s, %s)' % (vlib.coq_bool(c[0].startswith('client')), vlib.coq_N_list(bytes.fromhex(rf.split(' ')[0] if rf[0] != '-' else '')), evs(c)) for c, rf in zip(cases, ref)],
                             case_type='bool * list N * list wevent', per_shard=100)
    else:
        # no write-path model: the Spec alone - the one serialisation of the frame is the reference emission (its CRC is checked below)
        model = ['\x00|' + (rf.split(' ')[0] if rf[0] != '-' else '') for rf in ref]
    bad, rtu_refs, rtu_src = 0, [], []
    for c, s_, rf, m in zip(cases, scripted, ref, model):
        emitted, once = s_.split(' ')[0], rf.split(' ')[0]
        mout, _, spec = m.partition('|')
        if c[0].endswith('rtu') and once != '-':
            rtu_refs.append(once)
            rtu_src.append(line(c, '-', 0))
        if emitted != spec or once != spec or 'parked=0' not in rf:
            bad += 1
            if bad == 1:
                ctx.violation(f'{c[0]}.emitted-bytes-are-not-one-serialisation-of-the-frame',
                              f'`reply_write: {line(c, c[1], c[2])}`: the transport received {emitted[:120]} although the frame is {spec[:80]} '
                              '(a congested transmit path with commands arriving while the write is parked: fragment re-sent / bytes lost?)',
                              {'cases': [{'write': list(c)}], 'impl': s_, 'spec': spec, 'model': mout.replace('\x00', 'not available (Spec-only fallback)'), 'harness_line': 'reply_write: ' + line(c, c[1], c[2])})
        elif mout != '\x00' and mout.split(':')[0] != emitted:
            bad += 1
            ctx.violation(f'{c[0]}.write-model-differs-from-impl', f'{line(c, c[1], c[2])}: impl {emitted[:80]} model {mout[:80]}',
                          {'cases': [{'write': list(c)}], 'impl': s_, 'model': mout, 'spec': spec}, no_failing_input=True)
    bad += check_emitted(ctx, 'write-path', rtu_refs, rtu_src) if rtu_refs else 0
    return bad, scripted


def gen_client_timeout_cases(ctx, n):
    """the client's request write into a transport that stops taking bytes for good (`B`): (role, script)"""
    r = ctx.rng
    cases = [('client-rtu', 'a3,B'), ('client-tcp', 'a5,b,a2,B'), ('client-tcp', 'B'), ('client-rtu', 'a7,B'), ('client-rtu', 'a8,B')]
    while len(cases) < n:
        steps = []
        for _ in range(r.choice([0, 1, 2, 3])):
            steps.append('a%d' % r.choice([1, 2, 3, 5, 7]))
            if r.random() < 0.5:
                steps.append('b')
        cases.append((r.choice(['client-rtu', 'client-tcp']), ','.join(steps + ['B'])))
    return cases


def run_client_timeout(ctx, cases):
    out = ctx.harness('reply_write', [f'{role} {script} 1' for role, script in cases] + [f'{role} - 0' for role, script in cases], shards=8)
    scripted, ref = out[:len(cases)], out[len(cases):]
    evs = lambda script: '[' + ';'.join('CTake %s' % t[1:] if t[0] == 'a' else 'CTimeout' for t in script.split(',') if t != 'b') + ']'
    if fc.MODE['write']:
        model = ctx.coq_eval(WRITE_REQUIRES, 'eval_client_write',
                             ['(%s, %s)' % (vlib.coq_N_list(bytes.fromhex(rf.split(' ')[0])), evs(script)) for (role, script), rf in zip(cases, ref)],
                             case_type='list N * list cevent', per_shard=100)
    else:
        model = ['\x00|' + rf.split(' ')[0] for rf in ref]
    bad = 0
    for (role, script), s_, rf, m in zip(cases, scripted, ref, model):
        f = dict(kv.split('=', 1) for kv in s_.split(' ')[1:]) if ' ' in s_ else {}
        emitted = s_.split(' ')[0].replace('-', '')
        frame = rf.split(' ')[0]
        mout, _, spec = m.partition('|')
        taken = sum(int(t[1:]) for t in script.split(',') if t[0] == 'a')
        # Spec: a prefix of the one frame (what the transport took), the request fails with Io(TimedOut), the session ends on it
        want = frame[:2 * min(taken, len(frame) // 2)]
        complete = taken >= len(frame) // 2
        ok = emitted == want and frame == spec and (complete or (f.get('result') == 'Io(TimedOut)' and f.get('session') == 'Io(TimedOut)'))
        if not ok:
            bad += 1
            if bad == 1:
                ctx.violation(f'{role}.request-write-not-bounded-or-not-a-prefix',
                              f'`reply_write: {role} {script} 1`: the transport took {emitted or "-"} of the request {frame} and never more; 3 s later: {s_[:160]} '
                              f'(prescribed: exactly the prefix {want or "-"} on the wire, the request fails with Io(TimedOut) when its 1 s timeout elapses and the session ends)',
                              {'cases': [{'client_timeout': [role, script]}], 'impl': s_, 'spec': want + ':Io(TimedOut)', 'model': mout.replace('\x00', 'not available (Spec-only fallback)'), 'harness_line': f'reply_write: {role} {script} 1'})
        elif not complete and mout != '\x00' and mout != emitted + ':Io(TimedOut)':
            bad += 1
            ctx.violation(f'{role}.client-write-model-differs-from-impl', f'{role} {script}: impl {s_[:80]} model {mout[:80]}',
                          {'cases': [{'client_timeout': [role, script]}], 'impl': s_, 'model': mout}, no_failing_input=True)
    return bad, scripted


def run_pty(ctx, rounds):
    """the REAL serial arm of PhysLayer::write behind a pseudo terminal whose queue fills up"""
    out = ctx.harness('pty_serial', [' '.join(str(x) for x in rounds)], timeout=120)[0]
    if out.startswith('NOPTY') or out in ('PANIC', 'SPIN'):
        return None, out
    bad = 0
    frames, srcs = [], []
    for rd in out.split(' / '):
        f = dict(kv.split('=', 1) for kv in rd.split(' '))
        regs, sent, wire, same = int(f['regs']), int(f['sent']), int(f['wire']), int(f['same'])
        spec = fc.rtu_frame(0x11, bytes([3, 2 * regs]) + b''.join(bytes([i >> 8, i & 255]) for i in range(regs))).hex().upper()
        frames.append(f['first'])
        srcs.append('pty_serial: %d registers' % regs)
        if f['first'] != spec or same != sent or wire != sent * (len(spec) // 2) or sent < 2:
            bad += 1
            if bad == 1:
                ctx.violation('serial-port.emitted-bytes-are-not-complete-frames',
                              f'real serial arm of PhysLayer::write on a pseudo terminal, {sent} requests of {regs} registers answered while the master did not '
                              f'drain: {wire} bytes on the wire, {same} leading complete replies, then {f["bad"][:48]}.. (expected {sent} x {len(spec) // 2} bytes, every reply = {spec[:16]}..CRC)',
                              {'cases': [{'pty': list(rounds)}], 'impl': rd[:300], 'spec': f'{sent} x {spec}', 'harness_line': 'pty_serial: ' + ' '.join(str(x) for x in rounds)})
    bad += check_emitted(ctx, 'serial-port', frames, srcs)
    return bad, out


def check_emitted(ctx, what, frames, sources, replay_cases=None):
    """every emitted frame = rtu_format of its own destination and PDU = the Spec's rtu_frame_of, and <= 256 bytes"""
    frames = [bytes.fromhex(f) for f in frames]
    ok_shape = [len(f) >= 4 for f in frames]
    coq = fc.coq_pairs(ctx, 'emit', ['(%d, %s)' % (f[0], vlib.coq_N_list(f[1:-2])) for f in frames if len(f) >= 4], 'N * list N')
    it = iter(coq)
    bad = 0
    replay_cases = replay_cases or [{'emit': what, 'line': src} for src in sources]
    for f, src, okf, rc in zip(frames, sources, ok_shape, replay_cases):
        model, spec = (next(it) if okf else ('', ''))
        third = fc.rtu_frame(f[0], f[1:-2]).hex().upper() if okf else ''
        got = f.hex().upper()
        if not okf or got != spec or len(f) > 256 or got != third:
            bad += 1
            if bad == 1:
                ctx.violation(f'{what}.emitted-frame-not-crc-of-address-and-pdu',
                              f'{what} emitted {got[:80]}.. ({len(f)} bytes) for `{src[:80]}`; the Spec frame for that address and PDU is {spec[:80]}..',
                              {'cases': [rc], 'impl': got, 'spec': spec, 'model': model})
        elif model is not None and got != model:
            bad += 1
            ctx.violation(f'{what}.model-differs-from-impl', f'{src[:80]}: emitted {got[:60]} model {model[:60]}',
                          {'cases': [rc], 'impl': got, 'model': model, 'spec': spec}, no_failing_input=True)
    return bad


def run(ctx):
    ctx.translate(['Consts.v', 'RtuLengths.v', 'ParserShape.v', 'WritePath.v'])
    models_ok = ctx.build_models(['Base.Show', 'Base.Frame', 'Model.Reader', 'Spec.Framing', 'Model.FramingEval'])
    write_ok = ctx.build_models(['Model.WriteEval'])
    ctx.prove()
    if ctx.tier == 'thorough':
        ctx.coqchk()
    if not ctx.build_harness():
        return
    fc.MODE['models'], fc.MODE['write'] = models_ok, write_ok
    if not models_ok:
        # a Gen table could not be regenerated / a model file does not compile: the implementation is still judged
        # against the Spec alone (Spec/SpecEval.v imports no Gen file and no model), so a violation keeps its replay
        if not ctx.build_models(['Spec.SpecEval']):
            return
        ctx.notes.append('reader model not evaluable: correspondence families judged against the Spec only')
    if not write_ok:
        ctx.notes.append('write-path model not evaluable (Gen/WritePath.v): transmit families judged against the Spec only')
    emit_lines = server_cases = client_cases = reopen_cases = write_cases = pty_rounds = timeout_cases = None
    if ctx.replay and 'cases' in ctx.replay:
        cs = ctx.replay['cases']
        cases = [fc.case_from_json(c) for c in cs if not isinstance(c, dict)]
        tags = [(set(), 'replay')] * len(cases)
        emit_lines = [c['line'] for c in cs if isinstance(c, dict) and c.get('emit') == 'client']
        server_cases = [(c['fin'], [bytes.fromhex(x) for x in c['chunks']]) for c in cs if isinstance(c, dict) and 'server' in c]
        client_cases = [[([bytes.fromhex(x) for x in ch], fin) for ch, fin in c['client']] for c in cs if isinstance(c, dict) and 'client' in c]
        reopen_cases = [[(fin, [bytes.fromhex(x) for x in ch]) for fin, ch in c['reopen']] for c in cs if isinstance(c, dict) and 'reopen' in c]
        write_cases = [tuple(c['write']) for c in cs if isinstance(c, dict) and 'write' in c]
        pty_rounds = [c['pty'] for c in cs if isinstance(c, dict) and 'pty' in c]
        timeout_cases = [tuple(c['client_timeout']) for c in cs if isinstance(c, dict) and 'client_timeout' in c]
    else:
        cases, tags = gen_reader_cases(ctx, 800 if ctx.quick() else 6000)
    decode = (ctx.replay or {}).get('decode', 'min')
    results = fc.evaluate(ctx, cases, decode)
    n_spec, n_model = fc.compare(ctx, cases, results, 'RTU reader', decode)
    ctx.oblige('correspondence:framed-reader-rtu', n_spec == 0 and n_model == 0, f'{n_model} model / {n_spec} spec mismatches over {len(cases)} cases')
    if not ctx.replay:
        # full protocol decoding switched on: judged against the Spec again (a difference is a concrete violation,
        # e.g. a frame accepted at decode level max although its CRC does not verify)
        sample = cases[:600]
        loud = fc.evaluate_impl_only(ctx, sample, 'max')
        res_max = [(i, r[1], r[2], {}) for i, r in zip(loud, results[:600])]
        ns, nm = fc.compare(ctx, sample, res_max, 'RTU reader', 'max')
        ctx.oblige('decode-level-does-not-change-framing', ns == 0 and nm == 0, f'{ns} spec / {nm} model mismatches at decode level max over {len(sample)} cases')

    # ---- emission: client requests
    if emit_lines is None:
        emit_lines = gen_emit_cases(ctx, 400 if ctx.quick() else 4000)
    emitted = ctx.harness('rtu_emit', emit_lines, shards=8) if emit_lines else []
    sent = [(e, l) for e, l in zip(emitted, emit_lines) if e not in ('ERR', '-', 'PANIC')]
    bad = check_emitted(ctx, 'client', [e for e, _ in sent], [l for _, l in sent]) if sent else 0
    n_panic = sum(1 for e in emitted if e == 'PANIC')
    ctx.oblige('correspondence:rtu-client-emission', bad == 0 and n_panic == 0, f'{bad} bad frames, {n_panic} panics over {len(sent)} emitted frames ({len(emit_lines)} requests)')
    longest = max([len(e) // 2 for e, _ in sent], default=0)
    if not ctx.replay and emit_lines:
        loud = ctx.harness('rtu_emit', emit_lines[:100], args=['--decode', 'max'], shards=4)
        diff = [k for k, (a, b) in enumerate(zip(loud, emitted[:100])) if a != b]
        ctx.oblige('decode-level-does-not-change-emission', not diff, f'{len(diff)} of {len(loud)} differ' + (f'; first: {emit_lines[diff[0]][:120]}' if diff else ''))

    # ---- the server session: replies carry a correct CRC; corrupted requests cause no call and no reply
    if server_cases is None:
        server_cases = []
        for c, (t, _) in zip(cases, tags):
            if c[0] == 'rtureq' and c[1] == 'stop' and len(server_cases) < (500 if ctx.quick() else 5000):
                server_cases.append((c[2], c[3]))
    srv = ctx.harness('server_session', [' '.join(['rtu', fin] + [(x.hex() if x else '-') for x in ch]) for fin, ch in server_cases], shards=8) if server_cases else []
    srv_results = fc.evaluate(ctx, [('rtureq', 'stop', fin, ch) for fin, ch in server_cases])
    replies, reply_src, reply_rc, bad_srv, n_silent = [], [], [], 0, 0
    for (fin, ch), line, (impl, model, spec, _) in zip(server_cases, srv, srv_results):
        f = dict(kv.split('=', 1) for kv in line.split(' ')) if line != 'PANIC' else {'calls': '-1', 'replies': '-', 'end': 'PANIC'}
        spec_frames = spec.count('F(')
        spec_end = spec.split(' ')[-1]
        ok = f['end'] == spec_end
        if spec_frames == 0:
            n_silent += 1
            ok = ok and f['calls'] == '0' and f['replies'] == '-'
        if not ok:
            bad_srv += 1
            if bad_srv == 1:
                ctx.violation('rtu-server.acts-on-frames-the-spec-rejects' if spec_frames == 0 else 'rtu-server.session-end-differs',
                              f'server session on {fc.to_line(("rtureq", "stop", fin, ch))[:160]}: {line[:160]}; the stream prescribes {spec[:160]}',
                              {'cases': [{'server': 1, 'fin': fin, 'chunks': [x.hex() for x in ch]}], 'impl': line, 'spec': spec, 'model': model})
        if f['replies'] != '-':
            for rep in f['replies'].split(','):
                replies.append(rep)
                reply_src.append(fc.to_line(('rtureq', 'stop', fin, ch))[:200])
                reply_rc.append({'server': 1, 'fin': fin, 'chunks': [x.hex() for x in ch]})
    bad_rep = check_emitted(ctx, 'server', replies, reply_src, reply_rc) if replies else 0
    if not ctx.replay and server_cases:
        loud = ctx.harness('server_session', [' '.join(['rtu', fin] + [(x.hex() if x else '-') for x in ch]) for fin, ch in server_cases[:150]], args=['--decode', 'max'], shards=4)
        diff = [k for k, (a, b) in enumerate(zip(loud, srv[:150])) if a != b]
        ctx.oblige('decode-level-does-not-change-server-session', not diff, f'{len(diff)} of {len(loud)} differ')
    ctx.oblige('correspondence:rtu-server-session', bad_srv == 0 and bad_rep == 0,
               f'{bad_srv} session mismatches over {len(server_cases)} sessions ({n_silent} must stay silent); {bad_rep} bad replies of {len(replies)}')
    longest = max([longest] + [len(x) // 2 for x in replies])

    # ---- the RTU client: corrupted replies are never accepted, every connection starts clean
    if client_cases is None:
        client_cases = gen_client_cases(ctx, 300 if ctx.quick() else 3000)
    bad_cl, client_impl = run_client(ctx, client_cases) if client_cases else (0, [])
    if client_cases:
        ctx.oblige('correspondence:rtu-client-accepts-only-crc-verified-replies', bad_cl == 0, f'{bad_cl} mismatches over {len(client_cases)} histories')

    # ---- the RTU server across port re-opens: one session, several port sessions; handler calls judged against the Spec
    if reopen_cases is None:
        reopen_cases = gen_reopen_cases(ctx, 300 if ctx.quick() else 3000)
    bad_ro, skipped_ro, reopen_impl = run_reopen(ctx, reopen_cases) if reopen_cases else (0, 0, [])
    if reopen_cases:
        ctx.oblige('correspondence:rtu-server-across-port-reopens', bad_ro == 0, f'{bad_ro} mismatches over {len(reopen_cases)} lifecycles ({skipped_ro} not judged)')

    # ---- the transmit side: a congested transport + commands while the write is parked (scripted), and the real serial arm (pty)
    if write_cases is None:
        write_cases = gen_write_cases(ctx, 200 if ctx.quick() else 2000)
    bad_w, write_impl = run_write(ctx, write_cases) if write_cases else (0, [])
    if write_cases:
        ctx.oblige('correspondence:emitted-bytes-under-congestion-and-commands', bad_w == 0, f'{bad_w} mismatches over {len(write_cases)} scripted writes')
    if timeout_cases is None:
        timeout_cases = gen_client_timeout_cases(ctx, 60 if ctx.quick() else 600)
    bad_t, timeout_impl = run_client_timeout(ctx, timeout_cases) if timeout_cases else (0, [])
    if timeout_cases:
        ctx.oblige('correspondence:client-request-write-bounded-by-timeout', bad_t == 0, f'{bad_t} mismatches over {len(timeout_cases)} writes into a transport that stops taking bytes')
    if pty_rounds is None:
        pty_rounds = [[125, 124, 101]]
    pty_out = ''
    for rounds in pty_rounds:
        bad_p, pty_out = run_pty(ctx, rounds)
        if bad_p is None:
            ctx.notes.append('pty_serial not run: ' + pty_out)
            ctx.oblige('correspondence:real-serial-arm-on-a-pty', True, 'NOT RUN (no pseudo terminal available): ' + pty_out[:80])
        else:
            ctx.oblige('correspondence:real-serial-arm-on-a-pty', bad_p == 0, pty_out[:60] + '..')

    # ---- measured input classes
    classes = {}
    def bump(k, n=1):
        classes[k] = classes.get(k, 0) + n
    for c, (t, sched), (impl, model, spec, stats) in zip(cases, tags, results):
        bump('role:' + c[0])
        bump('schedule:' + sched)
        bump('mode:' + c[1])
        if c[1] == 'cancel' and len(c[3]) >= 2 and 'F(' in impl:
            bump('cancel:abandoned_mid_frame')
        for x in t:
            bump('stream:' + x)
        bump('ending:' + fc.ending_class(impl))
        for cls in [x for x in t if x.startswith('corrupt:')]:
            bump(cls + ('->rejected' if 'BadFrame' in impl else '->other'))
        if stats.get('compactions', 0) > 0:
            bump('buffer:compacted')
        if 0 < stats.get('min_compaction', 0) <= 7:
            bump('buffer:full_with_1..7_consumed')        # end == capacity with begin in 1..7: compaction frees exactly that much
    for e, l in zip(emitted, emit_lines):
        bump('emit:' + l.split()[1] + (':refused' if e == 'ERR' else ''))
    for c, i in zip(write_cases, write_impl):
        bump('write:' + c[0])
        if 'parked=0' not in i and c[2] > 0:
            bump('write:commands_while_parked')
    for i in timeout_impl:
        if 'result=Io(TimedOut)' in i:
            bump('write:client_write_timed_out')
    for rd in (pty_out.split(' / ') if 'regs=' in pty_out else []):
        bump('pty:congested_round')
    for c, i in zip(reopen_cases, reopen_impl):
        bump('reopen:port_sessions=%d' % min(len(c), 4))
        if 'BadFrame' in i and 'wsr' in i.split(' ends=')[0].split('BadFrame')[-1]:
            pass
        if 'BadFrame' in i:
            bump('reopen:framing_error_then_reopen')
        if 'wsr' in i:
            bump('reopen:handler_called')
    for i in client_impl:
        for x in i.split(' / '):
            bump('client_result:' + x.split('(')[0])
    bump('emit:server_replies', len(replies))
    bump('emit:longest_frame_bytes', longest)
    if not ctx.replay:
        need = (['corrupt:%s->rejected' % c for c in CLASSES] + ['stream:fc:%d' % f for f in fc.FCS] +
                ['stream:exception_reply', 'stream:length_preserving', 'stream:length_changing', 'ending:Crc', 'ending:UnknownFunctionCode',
                 'ending:FrameLengthTooBig', 'role:rtureq', 'role:rtursp', 'schedule:byte_per_byte', 'mode:resume', 'mode:cancel', 'cancel:abandoned_mid_frame', 'stream:stale_state_bait', 'buffer:full_with_1..7_consumed', 'client_result:Ok', 'client_result:BadFrame', 'client_result:Exception', 'reopen:framing_error_then_reopen', 'reopen:handler_called', 'write:commands_while_parked', 'write:client_write_timed_out'])
        missing = [k for k in need if classes.get(k, 0) < 3]
        ctx.oblige('generator-reaches-expected-classes', not missing, 'missing: ' + ','.join(missing))
    nontrivial = set(fc.to_line(c) for c, (t, _) in zip(cases, tags) if any(x.startswith('corrupt:') for x in t))
    ctx.coverage.update({
        'evaluations': len(cases) + len(emit_lines) + len(server_cases) + len(client_cases) + len(reopen_cases) + len(write_cases) + len(pty_rounds) + len(timeout_cases),
        'distinct_nontrivial': len(nontrivial) + len(set(e for e, _ in sent)),
        'rule': 'reader cases (role, stop/resume, ending, chunk list) from a seeded PRNG: directed list, then streams of 1-5 RTU frames of the eight functions / exception replies, '
                'one of them corrupted (8 classes; every role x function x class combination first), x chunk schedules; non-trivial = stream contains a corrupted frame; '
                'emission cases = client requests of all eight kinds at the quantity boundaries + server replies; non-trivial = distinct emitted frames; server sessions = the rtureq stop-mode streams again',
        'samples': [fc.to_line(c)[:140] + ' => ' + x[0][:100] for c, x in list(zip(cases, results))[60:64]] + [l[:60] + ' => ' + e[:60] for e, l in sent[:2]],
        'input_classes': dict(sorted(classes.items())),
        'exhaustive': False,
    })
