"""C03 - Client transmits exactly the protocol encoding of a request, or nothing.

Theorems (coq/theories/Properties/C03.v) are about Model/ClientRequest.v (`client_submit`): for every
API call the model either yields exactly `ref_encode` (Spec/ClientCodecSpec.v) or an error with
nothing on the wire; calls outside the protocol limits are rejected; frames are <= 260 / 256 bytes.
Correspondence: the real client (`rodbus::verif::ClientSession` over the in-memory Wire, requests
submitted through the public `Channel` API by harness subcommand `cenc`) against the model AND the
Spec, both evaluated inside Coq (Model/ClientShow.v `run_enc`).

A case is (framing 'T'|'R', kind 1|2|3|4|5|6|15|16, unit, start, count_or_value, values, literal) with
values = None | ['s', seed] (count values expanded from the seed on both sides) | ['l', [..]];
literal = 1 (reads only): the AddressRange is the struct literal `AddressRange { start, count }`
(public fields, harness kind suffix `r`) instead of AddressRange::try_from - the library must
validate it itself (finding F10, repaired by 3d39d18).
An optional 8th field `style` selects the submit path: 0 = async Channel, 1 = CallbackSession
(deprecated callback API), 2 = FfiChannel (try_send, used by the C bindings); harness framing
suffix `c` / `x`. All three must put the same bytes on the wire (C03_paths_agree); a rejected call
is signalled as Model/ClientPaths.v says (`<err>/-`: FfiChannel returned the error and the callback
was never invoked; `<err>/Shutdown`: returned and the dropped promise called back with Shutdown).
"""
import vlib

READS = (1, 2, 3, 4)
KIND_NAME = {1: 'read_coils', 2: 'read_discrete_inputs', 3: 'read_holding_registers', 4: 'read_input_registers',
             5: 'write_single_coil', 6: 'write_single_register', 15: 'write_multiple_coils', 16: 'write_multiple_registers'}
LIMIT = {1: 2000, 2: 2000, 3: 125, 4: 125, 15: 1968, 16: 123}
BOUNDARY = [0, 1, 2, 7, 8, 9, 15, 16, 17, 122, 123, 124, 125, 126, 127, 128, 255, 256, 1967, 1968, 1969, 1975, 1976, 1977,
            1999, 2000, 2001, 2008, 2009, 2040, 2041, 4096, 65534, 65535]
UNITS = [0, 1, 2, 17, 247, 248, 254, 255]
REQS = ['Base.Show', 'Model.ClientShow']
CASE_TYPE = 'enc_case'
NO_TX = ('CountOfZero', 'AddressOverflow', 'CountTooLargeForType', 'CountTooBigForU16')   # rejected before the task sees the request


def norm(c):
    c = tuple(c)
    if len(c) == 6:
        c = c + (0,)
    if len(c) == 7:
        c = c + (0,)
    f, k, u, s, n, v, lit, style = c
    if v is not None:
        v = (v[0], tuple(v[1]) if v[0] == 'l' else int(v[1]))
        if v[0] == 'l':
            n = len(v[1])
    return (f, int(k), int(u), int(s), int(n), v, int(bool(lit)) if int(k) in READS else 0, int(style))


def jcase(c):
    return [c[0], c[1], c[2], c[3], c[4], (list(c[5]) if c[5] else None), c[6], c[7]]


STYLE_SUFFIX = {0: '', 1: 'c', 2: 'x'}
STYLE_NAME = {0: 'channel', 1: 'callback', 2: 'ffi'}


def line(c):
    f, k, u, s, n, v, lit, style = c
    if v is None:
        vs = '-'
    elif v[0] == 's':
        vs = f's{v[1]}'
    else:
        vs = 'l' + ','.join(str(x) for x in v[1])
    return f'{f}{STYLE_SUFFIX[style]} {k}{"r" if lit else ""} {u} {s} {n} {vs}'


def to_coq(c, tx):
    f, k, u, s, n, v, lit, style = c
    if v is None:
        vs = 'Seed 0 0'
    elif v[0] == 's':
        vs = f'Seed {v[1]} {n}'
    else:
        vs = 'Lst ' + vlib.coq_N_list(v[1])
    return f'({vlib.coq_bool(f == "T")}, {vlib.coq_bool(lit)}, {style}, {k}, {tx}, {u}, {s}, {n}, {vs})'


def starts_for(r, count):
    fit = min(65535, max(0, 65536 - count))
    return [0, 1, r.randrange(0, 65536), 65535, fit, min(65535, fit + 1), max(0, fit - 1)]


def gen_cases(ctx, quick):
    r = ctx.rng
    cases = []
    # corpus: the F1 witnesses (DESIGN.md section 7) and the protocol's own maxima
    cases += [('T', 15, 1, 0, 1969, ('s', 1)), ('T', 15, 1, 0, 1976, ('s', 5)), ('T', 15, 1, 0, 1977, ('s', 5)),
              ('R', 16, 1, 0, 124, ('s', 7)), ('R', 16, 1, 0, 125, ('s', 7)), ('R', 15, 1, 0, 2008, ('s', 1)),
              ('T', 16, 1, 0, 124, ('s', 7)), ('T', 15, 255, 0, 1968, ('s', 1)), ('R', 15, 255, 0, 1968, ('s', 1)),
              ('T', 16, 255, 65413, 123, ('s', 1)), ('R', 16, 255, 65413, 123, ('s', 9)),
              ('T', 15, 1, 19, 10, ('l', (1, 0, 1, 1, 0, 0, 1, 1, 1, 0))),      # the standard's example: CD 01
              ('T', 1, 1, 0, 2000, None), ('T', 1, 1, 0, 2001, None), ('T', 3, 1, 0, 125, None), ('T', 3, 1, 0, 126, None),
              ('T', 3, 1, 65535, 1, None), ('T', 3, 1, 65535, 2, None), ('T', 1, 1, 0, 0, None),
              # F10: unvalidated struct literals
              ('T', 1, 1, 0, 0, None, 1), ('T', 3, 1, 65535, 10, None, 1), ('R', 2, 1, 65535, 2, None, 1), ('R', 4, 1, 1, 65535, None, 1),
              ('T', 1, 1, 0, 2001, None, 1), ('T', 3, 1, 65411, 125, None, 1), ('R', 1, 1, 63536, 2000, None, 1)]
    # every rejection signal of the callback / FfiChannel paths (Model/ClientPaths.v), literal and try_from-accepted ranges
    for f in 'TR':
        for k in READS:
            for style in (1, 2):
                for (s, n, lit) in [(0, 0, 1), (65535, 0, 1), (65535, 2, 1), (65530, 100, 1), (0, LIMIT[k] + 1, 0), (7, LIMIT[k] + 1, 1), (0, 65535, 0)]:
                    cases.append((f, k, 1, s, n, None, lit, style))
                cases.append((f, k, 1, 0, LIMIT[k], None, 0, style))
                cases.append((f, k, 1, 65536 - LIMIT[k], LIMIT[k], None, 1, style))
    # boundary quantities x start edges x kinds x framings
    for f in 'TR':
        for k in READS:
            for n in BOUNDARY:
                ss = starts_for(r, n)
                if k in (2, 4) and quick:        # same code path as 1 / 3: a sample of the start edges
                    ss = r.sample(ss, 3)
                for s in ss:
                    cases.append((f, k, r.choice(UNITS), s, n, None, r.randrange(2)))
        for k in (15, 16):
            for n in BOUNDARY + [65536, 65537, 70000]:
                ss = starts_for(r, n)
                if n > 300 and quick:
                    ss = ss[:1] + r.sample(ss[1:], 3 if n <= 2100 else 1)
                for s in ss:
                    seed = r.choice([0, 1, r.randrange(2, 2**31)]) if n <= 2100 or r.random() < 0.15 else r.choice([0, 1])
                    cases.append((f, k, r.choice(UNITS), s, n, ('s', seed)))
        for i in [0, 1, 255, 256, 0xFF00, 65535, r.randrange(65536)]:
            for v in (0, 1):
                cases.append((f, 5, r.choice(UNITS), i, v, None))
            for v in [0, 1, 255, 256, 0xFF00, 65535, r.randrange(65536)]:
                cases.append((f, 6, r.choice(UNITS), i, v, None))
    # explicit value lists (packing with chosen bit patterns, register byte order)
    for _ in range(300 if quick else 3000):
        f = r.choice('TR')
        ln = r.choice([0, 1, 2, 7, 8, 9, 15, 16, 17, 23, 24, 25, r.randrange(0, 70)])
        if r.random() < 0.5:
            pat = r.choice(['rand', 'one-hot', 'all-but-one'])
            if pat == 'rand':
                vs = [r.randrange(2) for _ in range(ln)]
            else:
                hot = r.randrange(ln) if ln else 0
                vs = [int((i == hot) == (pat == 'one-hot')) for i in range(ln)]
            cases.append((f, 15, r.randrange(256), r.randrange(0, 65536 - ln), ln, ('l', tuple(vs))))
        else:
            vs = [r.choice([0, 1, 255, 256, 0x1234, 0xFF00, 65535, r.randrange(65536)]) for _ in range(ln)]
            cases.append((f, 16, r.randrange(256), r.randrange(0, 65536 - ln), ln, ('l', tuple(vs))))
    # random mixture
    for _ in range(2500 if quick else 60000):
        f = r.choice('TR')
        k = r.choice([1, 2, 3, 4, 5, 6, 15, 15, 16, 16])
        u = r.choice(UNITS + [r.randrange(256)])
        if k in (5, 6):
            cases.append((f, k, u, r.randrange(65536), r.randrange(2) if k == 5 else r.randrange(65536), None))
            continue
        m = r.random()
        lim = LIMIT[k]
        if m < 0.35:
            n = max(0, lim + r.randrange(-3, 4))
        elif m < 0.6:
            n = r.randrange(0, lim + 1)
        elif m < 0.8:
            n = r.randrange(0, 2101)
        elif m < 0.9:
            n = r.choice(BOUNDARY)
        else:
            n = r.randrange(0, 65536)
        sm = r.random()
        fit = min(65535, max(0, 65536 - n))
        s = r.randrange(65536) if sm < 0.3 else (max(0, min(65535, fit + r.randrange(-2, 3))) if sm < 0.7 else r.randrange(0, fit + 1) if fit else 0)
        seed = r.choice([0, 1, r.randrange(2, 2**31)]) if n <= 2100 or r.random() < 0.15 else r.choice([0, 1])
        cases.append((f, k, u, s, n, ('s', seed) if k in (15, 16) else None, r.randrange(2)))
    if not quick:
        # exhaustive count sweep (DESIGN.md section 6, C03 Corr.)
        for f in 'TR':
            for k in (1, 3, 15, 16):
                for n in list(range(0, 2101)) + [65535]:
                    for s in (0, min(65535, max(0, 65536 - n))):
                        cases.append((f, k, 1, s, n, ('s', 2 + n) if k in (15, 16) else None, n % 2))
    seen, out = set(), []
    for c in cases:
        c = norm(c)
        if c[7] == 0 and len(out) >= 170:          # submit path: half Channel, a quarter each CallbackSession / FfiChannel (corpus: Channel)
            c = c[:7] + (r.choice([0, 0, 1, 2]),)
        if c not in seen:
            seen.add(c)
            out.append(c)
    return out


def reaches_task(c):
    """python mirror of Spec reaches_task (+ the try_from the harness applies to non-literal read ranges): the call is queued and
    the task takes a transaction id for it"""
    f, k, u, s, n, v, lit, style = c
    if k in (5, 6):
        return True
    if n == 0 or n > 65535 or s + n > 65536:
        return False
    return k in (15, 16) or n <= LIMIT[k]


def evaluate(ctx, cases):
    """-> list of (impl, model, spec, tx) per case; one harness process: the cases of one framing form ONE session, so the
    transaction id handed to model and Spec is the number of earlier cases of that framing that reach the task (C03_session_wire)"""
    ctx.log(f'{len(cases)} cases: running the implementation')
    impl = ctx.harness('cenc', [line(c) for c in cases])
    ctx.log('evaluating model and Spec in Coq')
    txs = []
    count = {'T': 0, 'R': 0}
    for c, i in zip(cases, impl):
        txs.append(count[c[0]] % 65536 if c[0] == 'T' else 0)
        if reaches_task(c):
            count[c[0]] += 1
    # spread the expensive cases (long value vectors) evenly over the coqc shards
    order = list(range(len(cases)))
    order.sort(key=lambda i: (i * 7919) % 104729)
    shuffled = []
    for lo in range(0, len(order), 9600):        # bounded coqc memory: at most 800 cases per process
        shuffled += ctx.coq_eval(REQS, 'run_enc', [to_coq(cases[i], txs[i]) for i in order[lo:lo + 9600]], case_type=CASE_TYPE, per_shard=800)
    both = [None] * len(cases)
    for i, b in zip(order, shuffled):
        both[i] = b
    res = []
    for i, b, tx in zip(impl, both, txs):
        model, spec = b.split('|')
        res.append((i, model, model if spec == '=' else spec, tx))
    return res


def spec_ok(impl, spec):
    if spec.startswith('SENT '):
        return impl == spec
    res, wire = impl.split(' ', 1)
    return wire == '-' and res.split('/')[0] not in ('SENT', 'OK?', 'PANIC', 'BADLINE', 'LOST', 'HUNG')


def why_outside(c):
    f, k, u, s, n, v, lit, style = c
    if k in (5, 6):
        return 'in-limits'
    if n == 0:
        return 'count=0'
    if n > 65535:
        return 'count>65535'
    if s + n > 65536:
        return 'address-overflow'
    if n > LIMIT[k]:
        return f'count>{LIMIT[k]}'
    return 'in-limits'


def key_of(c, impl, spec):
    fr = ('range-literal.' if c[6] else '') + ('tcp' if c[0] == 'T' else 'rtu') + ('.' + STYLE_NAME[c[7]] if c[7] else '')
    w = why_outside(c)
    if spec == 'REJECT':
        return f'client.{KIND_NAME[c[1]]}.{w}.{fr}'
    if impl.startswith('SENT '):
        return f'client.{KIND_NAME[c[1]]}.wrong-encoding.{fr}'
    return f'client.{KIND_NAME[c[1]]}.not-transmitted.{fr}'


def shrink_candidates(c):
    for x in shrink_candidates6(c[:6]):
        yield norm(tuple(x) + (c[6], c[7]))
    if c[6]:
        yield norm(tuple(c[:6]) + (0, c[7]))
    if c[7]:
        yield norm(tuple(c[:7]) + (0,))


def shrink_candidates6(c):
    f, k, u, s, n, v = c
    if v is not None and v[0] == 's' and v[1] != 0:
        yield (f, k, u, s, n, ('s', 0))
        yield (f, k, u, s, n, ('s', 1))
    if u != 1:
        yield (f, k, 1, s, n, v)
    if s != 0:
        yield (f, k, u, 0, n, v)
    if s not in (0, 65535):
        yield (f, k, u, 65535, n, v)
    if k in (5, 6):
        for x in (0, 1, s // 2):
            if x != s:
                yield (f, k, u, x, n, v)
        if k == 6:
            for x in (0, 1, n // 2):
                if x != n:
                    yield (f, k, u, s, x, v)
        return
    if v is not None and v[0] == 'l':
        lst = list(v[1])
        for i in range(len(lst)):
            yield (f, k, u, s, len(lst) - 1, ('l', tuple(lst[:i] + lst[i + 1:])))
        for i in range(len(lst)):
            if lst[i]:
                yield (f, k, u, s, n, ('l', tuple(lst[:i] + [0] + lst[i + 1:])))
        return
    for x in sorted({LIMIT[k] + 1, LIMIT[k], 0, 1, 2, 8, 9, n // 2, n - 1, n - 8}):
        if 0 <= x < n:
            yield (f, k, u, s, x, v)


def fails_spec(ctx, cs):
    cs = [norm(c) for c in cs]
    ev = evaluate_each(ctx, cs)                   # fresh process per candidate: tx id 0, no interference
    return [not spec_ok(i, sp) for (i, m, sp, tx) in ev]


def evaluate_each(ctx, cs, args=()):
    """like evaluate, but every case in its own harness process (used by shrinking / replay)"""
    impl = [ctx.harness('cenc', [line(c)], args=args)[0] for c in cs]
    txs = [int(i.split(' ')[-1][:4], 16) if c[0] == 'T' and i.startswith('SENT ') and '+' not in i else 0 for c, i in zip(cs, impl)]
    both = ctx.coq_eval(REQS, 'run_enc', [to_coq(c, tx) for c, tx in zip(cs, txs)], case_type=CASE_TYPE)
    return [(i, b.split('|')[0], b.split('|')[0] if b.split('|')[1] == '=' else b.split('|')[1], tx) for i, b, tx in zip(impl, both, txs)]


def session_family(ctx, nseq, length, given=None):
    """whole sessions: a sequence of calls through any mix of the three APIs in a fresh process; the concatenated wire log vs
    Model session_wire and Spec ref_session_wire evaluated in Coq on the whole sequence (C03_session_wire)"""
    r = ctx.rng
    seqs = [[norm(c) for c in seq] for seq in given] if given else []
    for q in range(0 if given else nseq):
        f = 'T' if q % 4 != 3 else 'R'
        seq = []
        for _ in range(length):
            k = r.choice([1, 2, 3, 4, 5, 6, 15, 15, 16, 16])
            u = r.choice(UNITS)
            style = r.choice([0, 0, 1, 2])
            if k in (5, 6):
                seq.append(norm((f, k, u, r.randrange(65536), r.randrange(2) if k == 5 else r.randrange(65536), None, 0, style)))
                continue
            lim = LIMIT[k]
            n = r.choice([0, 1, 2, 9, lim - 1, lim, lim + 1, lim + 1, r.randrange(0, 40), r.randrange(0, 300)])
            fit = min(65535, max(0, 65536 - n))
            s0 = r.choice([0, r.randrange(0, fit + 1), fit, min(65535, fit + 1)])
            seq.append(norm((f, k, u, s0, n, ('s', r.choice([0, 1, r.randrange(2, 2**31)])) if k in (15, 16) else None, 1, style)))
        seqs.append(seq)
    wires = []
    for seq in seqs:
        out = ctx.harness('cenc', [line(c) for c in seq])            # fresh process: transaction ids start at 0
        wires.append('+'.join(o.split(' ')[1] for o in out if o.split(' ')[1] != '-'))

    def coq_call(c):
        f, k, u, s0, n, v, lit, style = c
        vs = 'Seed 0 0' if v is None else f'Seed {v[1]} {n}'
        return f'({style}, {k}, {u}, {s0}, {n}, {vs})'
    both = ctx.coq_eval(REQS, 'run_session_case', [f'({vlib.coq_bool(seq[0][0] == "T")}, [{"; ".join(coq_call(c) for c in seq)}])' for seq in seqs],
                        case_type='session_case', per_shard=2)
    bad = 0
    for seq, w, b in zip(seqs, wires, both):
        model, spec = b.split('|')
        spec = model if spec == '=' else spec
        if w != spec or w != model:
            bad += 1
            if bad == 1:
                # first differing frame
                fw, fs = w.split('+'), spec.split('+')
                ix = next((i for i in range(min(len(fw), len(fs))) if fw[i] != fs[i]), min(len(fw), len(fs)))
                ctx.violation('client.session.wire-log-differs-from-the-spec' if w != spec else 'model-differs-from-impl',
                              f'session of {len(seq)} calls over {"TCP" if seq[0][0] == "T" else "RTU"}: frame #{ix} on the wire is `{(fw + ["(none)"])[ix][:60]}` '
                              f'but ref_session_wire says `{(fs + ["(none)"])[ix][:60]}` ({len(fw)} vs {len(fs)} frames)',
                              {'session': [jcase(c) for c in seq], 'impl': w[:2000], 'spec': spec[:2000]}, no_failing_input=(w == spec))
    ctx.oblige('correspondence:session-wire-log-vs-model-and-spec', bad == 0, f'{bad} of {len(seqs)} sessions')
    return sum(len(x) for x in seqs)


def gen_peer_sessions(r, nseq, length):
    """sessions for harness `cseq`: calls with a scripted peer (stale / foreign transaction ids, duplicates, partial replies,
    nothing) and a scripted transmit side (frame taken in pieces, stalled and released, cut by the request timeout)"""
    seqs = []
    for q in range(nseq):
        f = 'T' if q % 5 != 4 else 'R'
        seq = []
        for j in range(length):
            last = j == length - 1
            k = r.choice([1, 2, 3, 3, 4, 5, 6, 15, 16])
            u = r.choice(UNITS)
            style = r.choice([0, 0, 1, 2])
            if k in (5, 6):
                s0, n, v = r.randrange(65536), (r.randrange(2) if k == 5 else r.randrange(65536)), None
            else:
                lim = LIMIT[k]
                n = r.choice([1, 2, 3, 9, 16, r.randrange(1, 30), r.randrange(1, 30), 0, lim + 1])
                s0 = r.randrange(0, 65536 - n + 1) if r.random() < 0.9 else 65535
                v = ('s', r.choice([0, 1, r.randrange(2, 2**31)])) if k in (15, 16) else None
            c = norm((f, k, u, s0, n, v, 1, style))
            acts = r.choice([['g'], ['g'], ['s1', 'g'], ['s-1', 's7', 'g'], ['s-1', 's-1', 's-1', 'g'], ['d', 'g'], ['d', 's2', 'd', 'g'], ['p5', 'r'], ['s3', 'p1', 'r'], ['p7', 't300', 'r'],
                             ['n'], ['s1', 'n'], ['d'], ['x2'], ['s-1', 'x6'], ['g', 'g'], ['w4.3.100', 'g'], ['w1.1.1.1.1.1.1.300', 's1', 'g'],
                             ['w5.b', 't100', 'u', 'g'], ['w2.b', 't400', 'u', 's-1', 'g']])
            cut = 0
            transmitted = reaches_task(c) and (c[1] in (5, 6) or c[4] <= LIMIT[c[1]])
            if not transmitted:
                acts = ['n']                     # nothing is in flight: frames pushed now would reach the idle session
            elif last:
                m = r.random()
                if m < 0.35:
                    pieces = [r.randrange(1, 5) for _ in range(r.randrange(0, 3))]
                    acts = ['w' + '.'.join([str(x) for x in pieces] + ['b'])] + r.choice([[], ['t200'], ['s1']])
                    cut = sum(pieces) + 1                       # cut after sum(pieces) bytes
                elif m < 0.5:
                    acts = [f'p{r.randrange(1, 9)}']
            seq.append((c, acts, cut))
        seqs.append(seq)
    return seqs


def peer_family(ctx, nseq, length, given=None, given_firsts=None, spec_only=False):
    """the COMPLETE wire log of a connection while the peer sends stale / foreign / duplicate / partial frames or nothing and
    the transport takes the frames in pieces, stalls or stops: vs Model session_stream and Spec ref_session_stream (C03_session_stream)"""
    seqs = given or gen_peer_sessions(ctx.rng, nseq, length)
    seqs = [[(norm(c), list(a), int(k)) for c, a, k in seq] for seq in seqs]
    # the session's first transaction id (hook ClientSession::set_next_tx_id): near the 16-bit wrap for 40% of the TCP sessions, so
    # that a 6-call session crosses 0xFFFF -> 0x0000 -> 0x0001 (C03_session_wire_from: the i-th request carries (first + i) mod 65536)
    firsts = (given_firsts if given_firsts else
              [(65536 - ctx.rng.randrange(1, 6)) if (seq[0][0][0] == 'T' and ctx.rng.random() < 0.4) else 0 for seq in seqs])

    def tok(c, acts):
        f, k, u, s0, n, v, lit, style = c
        vs = '-' if v is None else (f's{v[1]}' if v[0] == 's' else 'l' + ';'.join(str(x) for x in v[1]))
        return f'{k}{"r" if lit else ""},{u},{s0},{n},{vs},{"fcx"[style]}@{"+".join(acts)}'
    lines = [seq[0][0][0] + (f' tx={first} ' if first else ' ') + ' '.join(tok(c, a) for c, a, _ in seq) for seq, first in zip(seqs, firsts)]
    out = ctx.harness('cseq', lines)

    def coq_call(c, cut):
        f, k, u, s0, n, v, lit, style = c
        vs = 'Seed 0 0' if v is None else (f'Seed {v[1]} {n}' if v[0] == 's' else 'Lst ' + vlib.coq_N_list(v[1]))
        return f'({style}, {k}, {u}, {s0}, {n}, {vs}, {cut}, false)'
    terms = [f'({vlib.coq_bool(seq[0][0][0] == "T")}, {first}, [{"; ".join(coq_call(c, k) for c, _, k in seq)}])' for seq, first in zip(seqs, firsts)]
    if spec_only:
        # the model does not compile (lost translator tie): judge the implementation against the oracle alone
        ctx.build_models(['Spec.ClientSpecEval'])
        both = ctx.coq_eval(['Base.Show', 'Base.CaseGen', 'Spec.ClientSpecEval'], 'run_stream_spec', terms, case_type='stream_case_spec', per_shard=25)
    else:
        both = ctx.coq_eval(REQS, 'run_stream_case', terms, case_type='stream_case', per_shard=25)
    bad = 0
    stats = {'peer-sessions': len(seqs), 'peer-calls': sum(len(x) for x in seqs), 'peer-sessions-crossing-the-tx-id-wrap': sum(1 for x in firsts if x)}
    for seq, ln, o, b, first in zip(seqs, lines, out, both, firsts):
        m = __import__('re').fullmatch(r'wire=(\S+) res=(.*) end=(\S+)', o)
        model, spec = b.split('|')
        spec = model if spec == '=' else spec
        wire = (m.group(1).replace('+', '').replace('-', '') if m else o)
        res = m.group(2) if m else ''
        end = m.group(3) if m else '?'
        for _, acts, cut in seq:
            for a in acts:
                key = 'peer-act:' + ('stale' if a[0] == 's' else 'duplicate' if a == 'd' else 'partial' if a[0] == 'p' else 'rest' if a == 'r' else 'nothing' if a == 'n'
                                     else 'exception' if a[0] == 'x' else 'write-script' if a[0] == 'w' else 'release' if a == 'u' else 'time' if a[0] == 't' else 'genuine')
                stats[key] = stats.get(key, 0) + 1
            if cut:
                stats['peer-act:write-cut-by-timeout'] = stats.get('peer-act:write-cut-by-timeout', 0) + 1
        cutlast = seq[-1][2] != 0
        # the frame is cut only if the call is transmitted at all and the cut point lies inside the frame: the Spec decides; the
        # session must then have ended with Io(TimedOut), and must still be running otherwise
        ok_wire = (wire == spec == model)
        bad_tokens = [t for t in ('HUNG', 'PANIC', 'STUCK') if t in res or t in end]
        if not ok_wire or bad_tokens:
            bad += 1
            if bad <= 2:
                # first differing byte -> frame index
                ix = next((i for i in range(0, min(len(wire), len(spec)), 2) if wire[i:i + 2] != spec[i:i + 2]), min(len(wire), len(spec))) // 2
                key = 'client.session.wire-log-with-scripted-peer-differs-from-the-spec' if wire != spec else ('model-differs-from-impl' if wire != model else 'client.session.hung-or-panicked')
                ctx.violation(key, f'connection over {"TCP" if seq[0][0][0] == "T" else "RTU"} with a scripted peer: the client wrote {len(wire) // 2} bytes, the Spec (one serialisation per accepted '
                              f'call, in order, nothing else: ref_session_stream) says {len(spec) // 2}; first difference at byte {ix}: wire `...{wire[max(0, 2 * ix - 8):2 * ix + 32]}` '
                              f'Spec `...{spec[max(0, 2 * ix - 8):2 * ix + 32]}`; results `{res[:120]}` end={end} [cseq: {ln[:400]}]',
                              {'peer_sessions': [[[jcase(c), a, k] for c, a, k in seq]], 'first_tx_ids': [first], 'impl': o[:3000], 'spec': spec[:3000]}, no_failing_input=(wire == spec and not bad_tokens))
        if cutlast and ok_wire and len(spec) and end not in ('Io(TimedOut)', '-'):
            bad += 1
    ctx.oblige('correspondence:wire-log-with-scripted-peer-and-transport-vs-model-and-spec', bad == 0, f'{bad} of {len(seqs)} sessions')
    return stats


# ---------------------------------------------------------------------------------------------
# C03 through the C ABI (Properties/C03_CAbi.v): harness ffi_client (extern "C" functions, loopback TCP peer)
# ---------------------------------------------------------------------------------------------
CABI_OP = {1: 'rc', 2: 'rd', 3: 'rh', 4: 'ri', 5: 'wc', 6: 'wr', 15: 'wmc', 16: 'wmr'}


def cabi_bit(i):
    return 1 if i % 2 == 0 else 0


def cabi_reg(i):
    return (i * 257) % 65536


def cabi_family(ctx, quick):
    """every request kind through rodbus_client_channel_* (first ADU the peer receives vs the Spec's encoding of the call), and
    one caller-owned rodbus_bit_list / rodbus_register_list object used for several write calls, growing in between or not
    (all ADUs the peer receives vs the Spec: each call transmits what the list holds at call time)"""
    r = ctx.rng
    reqs = []
    for k in (1, 2, 3, 4, 5, 6, 15, 16):
        ns = {1: [1, 7, 8, 9, 2000], 2: [1, 9, 2000], 3: [1, 2, 125], 4: [1, 125], 5: [0, 1], 6: [0, 513, 65535], 15: [1, 7, 8, 9, 16, 17, 100, 1968], 16: [1, 2, 3, 123]}[k]
        if not quick:
            ns = ns + [r.randrange(1, LIMIT[k] + 1) for _ in range(12)] if k not in (5, 6) else ns
        for n in ns:
            cnt = n if k not in (5, 6) else 1
            for s0 in {2000, 65536 - cnt, r.randrange(2000, 65536 - cnt + 1)}:
                reqs.append((k, s0, n))
    out = ctx.harness('ffi_client', [f'req {CABI_OP[k]} {s0} {n}' for k, s0, n in reqs], timeout=900)

    def unit_of(s0, n):
        return (s0 + 7 * n) % 247 + 1

    def vals(k, n):
        return None if k not in (15, 16) else ('l', tuple(cabi_bit(i) if k == 15 else cabi_reg(i) for i in range(n)))
    enc = ctx.coq_eval(REQS, 'run_enc', [to_coq(norm(('T', k, unit_of(s0, n), s0, n, vals(k, n), 0, 2)), 0) for k, s0, n in reqs], case_type=CASE_TYPE, per_shard=30)
    bad = 0
    import re as _re
    for (k, s0, n), o, b in zip(reqs, out, enc):
        m = _re.search(r'wire:(\S+?)/(\S+)', o)
        model, spec = b.split('|')
        spec = model if spec == '=' else spec
        got = 'SENT ' + m.group(1) if m else o
        if got != spec or got != model:
            bad += 1
            if bad <= 2:
                ctx.violation(f'client.cabi.{KIND_NAME[k]}.wrong-encoding' if got != spec else 'model-differs-from-impl',
                              f'C ABI rodbus_client_channel_{KIND_NAME[k]} start={s0} n={n}: the peer received `{got[:80]}` but the Spec says `{spec[:80]}` [ffi_client: req {CABI_OP[k]} {s0} {n}]',
                              {'cabi_reqs': [[k, s0, n]], 'impl': o[:600], 'spec': spec}, no_failing_input=(got == spec))
    # list reuse
    reuse = []
    for k in (15, 16):
        for n in ([1, 3, 8] if quick else [1, 2, 3, 7, 8, 9, 16, 50]):
            for kk, add in ([(2, True), (3, True), (2, False)] if quick else [(2, True), (3, True), (4, True), (2, False), (3, False)]):
                reuse.append((k, r.choice([0, 100, 2000, 60000]), n, kk, add))
    out2 = ctx.harness('ffi_client', [f'reuse {CABI_OP[k]} {s0} {n} {kk}{"+a" if add else ""}' for k, s0, n, kk, add in reuse], timeout=900)
    ok = ctx.build_models(['Model.ClientCAbiEval'])

    def steps(k, s0, n, kk, add):
        f = cabi_bit if k == 15 else cabi_reg
        st = ['inl ' + vlib.coq_N_list([f(i) for i in range(n)])]
        for j in range(kk):
            st.append(f'inr ({unit_of(s0, n)}, {s0})')
            if add:
                st.append('inl ' + vlib.coq_N_list([f(n + j)]))
        return f'({vlib.coq_bool(k == 15)}, [{"; ".join(st)}])'
    lst = ctx.coq_eval(['Base.Show', 'Model.ClientCAbiEval'], 'run_cabi_list_case', [steps(*x) for x in reuse], case_type='cabi_list_case', per_shard=20) if ok else [None] * len(reuse)
    for x, o, b in zip(reuse, out2, lst):
        k, s0, n, kk, add = x
        m = _re.search(r'ffi:(\S+) rust:\S+ wire:(\S+?)/(\S+)', o)
        if b is None:
            bad += 1
            continue
        model, spec = b.split('|')
        spec = model if spec == '=' else spec
        got = m.group(2) if m else o
        if got != spec or got != model:
            bad += 1
            if bad <= 4:
                ctx.violation(f'client.cabi.{KIND_NAME[k]}.list-reuse.wire-log-differs-from-the-spec' if got != spec else 'model-differs-from-impl',
                              f'C ABI: ONE {"rodbus_bit_list" if k == 15 else "rodbus_register_list"} with {n} values passed to {kk} successive rodbus_client_channel_{KIND_NAME[k]} calls'
                              f'{" (one value appended between calls)" if add else ""}: the peer received `{got[:160]}` but the Spec (each call transmits what the list holds at call time) '
                              f'says `{spec[:160]}`; return codes/callbacks {m.group(1) if m else "?"} [ffi_client: reuse {CABI_OP[k]} {s0} {n} {kk}{"+a" if add else ""}]',
                              {'cabi_reuse': [list(x)], 'impl': o[:800], 'spec': spec, 'model': model}, no_failing_input=(got == spec))
    ctx.oblige('correspondence:c-abi-requests-and-list-reuse-vs-spec', bad == 0, f'{bad} of {len(reqs) + len(reuse)}')
    return len(reqs) + len(reuse)


def run(ctx):
    ctx.translate(['Consts.v', 'ClientTables.v', 'SessionErrors.v', 'FfiTables.v'])
    models_ok = ctx.build_models(REQS + ['Spec.ClientCodecSpec'])
    ctx.prove()
    if ctx.tier == 'thorough':
        ctx.coqchk()
    if not ctx.build_harness():
        return
    quick = ctx.quick()
    if not models_ok:
        # no model to evaluate: the scripted-peer sessions (whole wire log, transaction ids across the wrap) against the Spec alone
        if not ctx.replay or 'peer_sessions' in ctx.replay:
            st = peer_family(ctx, 150 if quick else 3000, 6, given=(ctx.replay or {}).get('peer_sessions'), given_firsts=(ctx.replay or {}).get('first_tx_ids'), spec_only=True)
            ctx.coverage.update({'evaluations': st['peer-calls'], 'distinct_nontrivial': st['peer-calls'], 'samples': [],
                                 'rule': 'the model does not compile: scripted-peer sessions judged against the Spec alone', 'input_classes': st})
        return
    if ctx.replay and 'peer_sessions' in ctx.replay:
        st = peer_family(ctx, 0, 0, given=ctx.replay['peer_sessions'], given_firsts=ctx.replay.get('first_tx_ids'))
        ctx.coverage.update({'evaluations': st['peer-calls'], 'distinct_nontrivial': st['peer-calls'], 'rule': 'replay of scripted-peer sessions', 'samples': []})
        return
    if ctx.replay and 'session' in ctx.replay:
        n = session_family(ctx, 0, 0, given=[ctx.replay['session']])
        ctx.coverage.update({'evaluations': n, 'distinct_nontrivial': n, 'rule': 'replay of one session', 'samples': []})
        return
    if ctx.replay and 'cases' in ctx.replay:
        cases = [norm(c) for c in ctx.replay['cases']]
        results = evaluate_each(ctx, cases, args=(['--decode', 'max'] if ctx.replay.get('decode') == 'max' else ()))
    else:
        cases = gen_cases(ctx, quick)
        results = evaluate(ctx, cases)

    bad = [line(c) for c, r in zip(cases, results) if r[0].startswith('BADLINE')]
    ctx.oblige('harness-accepts-every-generated-case', not bad, f'{len(bad)} lines rejected by the harness parser, e.g. {bad[:2]}')
    n_model = n_spec = 0
    reported = set()
    per_class = {}
    classes = {}

    def bump(name):
        classes[name] = classes.get(name, 0) + 1
    expect_tx, tx_bad = {'T': 0, 'R': 0}, 0            # one persistent session (and counter) per framing in the harness
    max_len = {'T': 0, 'R': 0}
    for c, (impl, model, spec, tx) in zip(cases, results):
        res = impl.split(' ')[0]
        fr = 'tcp' if c[0] == 'T' else 'rtu'
        bump(f'kind:{KIND_NAME[c[1]]}')
        bump(f'framing:{fr}')
        bump(f'result:{res}')
        bump(f'style:{STYLE_NAME[c[7]]}')
        bump(f'domain:{why_outside(c)}')
        if c[1] in READS:
            bump('range:' + ('struct-literal' if c[6] else 'try_from') + ('.invalid' if why_outside(c) in ('count=0', 'address-overflow') else '.valid'))
        if res == 'SENT':
            bump(f'sent:{KIND_NAME[c[1]]}.{fr}')
            max_len[c[0]] = max(max_len[c[0]], len(impl.split(' ')[1]) // 2)
        # transaction id bookkeeping (sequence itself is C11's subject; here: the field is the task's counter)
        if not (ctx.replay and 'cases' in ctx.replay):
            if res == 'PANIC':
                expect_tx[c[0]] = 0
            elif res.split('/')[0] not in NO_TX:
                if res == 'SENT' and c[0] == 'T' and tx != expect_tx['T']:
                    tx_bad += 1
                expect_tx[c[0]] = (expect_tx[c[0]] + 1) % 65536
        if not spec_ok(impl, spec):
            n_spec += 1
            key = key_of(c, impl, spec)
            cls = (why_outside(c), c[6], c[7], spec == 'REJECT')
            if key not in reported and len(reported) < 10 and per_class.get(cls, 0) < 2:
                reported.add(key)
                per_class[cls] = per_class.get(cls, 0) + 1
                small = c
                if not ctx.replay:
                    small = vlib.shrink_batch(c, lambda xs, w=why_outside(c): [bad and why_outside(norm(x)) == w for x, bad in zip(xs, fails_spec(ctx, xs))], shrink_candidates, rounds=14, width=16)   # stay in the same input class
                    si, sm, ss, _ = evaluate_each(ctx, [small])[0]
                else:
                    si, sm, ss = impl, model, spec
                key = key_of(small, si, ss)
                what = (f'{KIND_NAME[small[1]]}{" (AddressRange struct literal)" if small[6] else ""} via {STYLE_NAME[small[7]]} API unit={small[2]} start={small[3]} count/value={small[4]} values={small[5]} over {"TCP" if small[0] == "T" else "RTU"}: '
                        f'implementation `{si[:90]}` but the protocol Spec says `{ss[:90]}` ({why_outside(small)})')
                ctx.violation(key, what, {'cases': [jcase(small)], 'impl': si, 'spec': ss, 'model': sm, 'original_case': jcase(c)})
        elif impl != model:
            n_model += 1
            if n_model <= 2:
                ctx.violation('model-differs-from-impl', f'{line(c)}: impl `{impl[:80]}` model `{model[:80]}`',
                              {'cases': [jcase(c)], 'impl': impl, 'model': model, 'spec': spec}, no_failing_input=True)
    if not ctx.replay:
        # the same cases with every decode level at its maximum: the "PDU TX" Display walks (RequestDetailsDisplay,
        # WriteMultipleIterator at DataValues), MbapDisplay / RtuDisplay and format_bytes really execute (C04_log_request):
        # no panic, identical lines
        k = min(len(cases), 40000)
        loud = ctx.harness('cenc', [line(c) for c in cases[:k]], args=['--decode', 'max'])
        diff = [i for i in range(k) if loud[i] != results[i][0]]
        ctx.oblige('decode-level-max-gives-identical-results', not diff, f'{len(diff)} of {k} lines differ, first: {line(cases[diff[0]]) if diff else ""}')
        for i in diff[:2]:
            c = cases[i]
            ctx.violation(f'client.{KIND_NAME[c[1]]}.logging-at-decode-max-changes-the-result',
                          f'{line(c)[:120]}: with every decode level at its maximum `{loud[i][:80]}`, with logging off `{results[i][0][:80]}`; Spec `{results[i][2][:80]}`',
                          {'cases': [jcase(c)], 'decode': 'max', 'impl': loud[i], 'impl_without_logging': results[i][0], 'spec': results[i][2]})
        for c, r0 in zip(cases[:k], results[:k]):
            if r0[0].startswith('SENT') and c[1] in (15, 16):
                if c[3] + c[4] == 65536:
                    bump('logged-tx:write-multiple-ends-at-65535')
                if c[4] == LIMIT[c[1]]:
                    bump('logged-tx:write-multiple-at-limit')
                if c[1] == 15 and c[4] % 8:
                    bump('logged-tx:coils-not-multiple-of-8')
        lmiss = [x for x in ('logged-tx:write-multiple-ends-at-65535', 'logged-tx:write-multiple-at-limit', 'logged-tx:coils-not-multiple-of-8') if classes.get(x, 0) < 3]
        ctx.oblige('decode-level-max-pass-reaches-expected-classes', not lmiss, f'missing={lmiss}')
    ctx.oblige('correspondence:client-encode-vs-model', n_model == 0, f'{n_model} cases where the implementation differs from the model only')
    ctx.oblige('correspondence:client-encode-vs-spec', n_spec == 0, f'{n_spec} cases where the implementation differs from the Spec')
    ctx.oblige('tx-id-field-is-the-task-counter', tx_bad == 0, f'{tx_bad} frames whose MBAP transaction id is not the number of requests the task saw before')
    if not ctx.replay:
        need = ['result:SENT', 'result:CountOfZero', 'result:AddressOverflow', 'result:CountTooLargeForType', 'result:CountTooBigForU16',
                'result:CountTooBigForType'] + [f'sent:{KIND_NAME[k]}.{fr}' for k in KIND_NAME for fr in ('tcp', 'rtu')]
        need += ['style:channel', 'style:callback', 'style:ffi', 'result:CountOfZero/-', 'result:AddressOverflow/-', 'result:CountTooLargeForType/-',
                 'result:CountOfZero/Shutdown', 'result:AddressOverflow/Shutdown', 'result:CountTooLargeForType/Shutdown']
        need += ['range:struct-literal.invalid', 'range:struct-literal.valid', 'range:try_from.invalid', 'range:try_from.valid']
        missing = [n for n in need if classes.get(n, 0) < 3]
        ctx.oblige('generator-reaches-expected-classes', not missing and max_len['T'] == 259 and max_len['R'] == 255,
                   f'missing={missing} max frame lengths={max_len}')
    n_sess = 0
    if not ctx.replay:
        n_sess = session_family(ctx, 8 if quick else 64, 60 if quick else 300)
        classes['session-calls'] = n_sess
        n_cabi = cabi_family(ctx, quick)
        classes['cabi-cases'] = n_cabi
        n_sess += n_cabi
        pst = peer_family(ctx, 150 if quick else 3000, 6)
        classes.update(pst)
        n_sess += pst['peer-calls']
        pmiss = [x for x in ('peer-sessions-crossing-the-tx-id-wrap', 'peer-act:stale', 'peer-act:duplicate', 'peer-act:partial', 'peer-act:nothing', 'peer-act:write-script', 'peer-act:write-cut-by-timeout',
                             'peer-act:release', 'peer-act:exception') if classes.get(x, 0) < 3]
        ctx.oblige('scripted-peer-generator-reaches-expected-classes', not pmiss, f'missing={pmiss}')
    classes['max_frame_len_tcp'] = max_len['T']
    classes['max_frame_len_rtu'] = max_len['R']
    ctx.coverage.update({
        'evaluations': len(cases) + n_sess,
        'distinct_nontrivial': len({c for c in cases if c[1] in (5, 6) or c[4] > 0}),
        'rule': 'cases (framing, kind, unit, start, count|value, values, range-is-struct-literal, submit API: Channel / CallbackSession / FfiChannel) from a seeded PRNG: F1/F10 corpus, boundary quantities x start edges x 8 kinds x 2 framings, explicit value lists, random mixture'
                + ('' if quick else ', exhaustive count sweep 0..2100') + '; non-trivial = non-empty request; distinct by value. Transaction ids given to model and Spec are those of the Spec (number of earlier calls of the session that reach the task), not the observed ones; plus whole-session wire logs (mixed APIs) vs session_wire / ref_session_wire. Each case runs the real Channel API + ClientLoop over the in-memory wire and is compared with model and Spec evaluated in Coq',
        'samples': [[line(c), r[0][:80]] for c, r in list(zip(cases, results))[:8]],
        'input_classes': classes,
        'exhaustive': False,
    })
