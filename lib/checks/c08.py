"""C08 - A denied request has no effect and is answered with exception 01.

Theorems (coq/theories/Properties/C08.v) about the server model for an arbitrary policy, and about
the tables regenerated from server/task.rs::check_authorization and server/handler.rs (default
trait bodies = Deny, ReadOnlyAuthorizationHandler). Correspondence: the production session task
with an instrumented AuthorizationHandler (hashed policies of kind/unit/range/role, the built-in
read-only handler, a handler with only default methods) and arbitrary role strings; observable =
interleaved log of authorization and point-handler calls plus the reply bytes.
"""
from checks import srv


def gen_cases(ctx):
    r = ctx.rng
    cases = srv.load_corpus(ctx, 'C08')
    # every kind x allow/deny x configured/unconfigured unit, single frame
    for link in ('tcp', 'rtu'):
        for fc in srv.KNOWN_FC:
            for pct in (0, 100):
                for dest in (1, 9, 0):
                    pdu = srv.gen_pdu(r, link, fc, big_ok=False)
                    cases.append((link, (srv.simple_unit(1), srv.simple_unit(4, 7, 9)), ('hash', b'operator', r.randrange(65536), pct),
                                  ((3 if link == 'tcp' else None, dest, pdu),)))
    for fc in srv.KNOWN_FC:
        for pol in ('ro', 'deny'):
            pdu = srv.gen_pdu(r, 'tcp', fc, big_ok=False)
            cases.append(('tcp', (srv.simple_unit(1),), (pol, srv.gen_role(r)), ((5, 1, pdu),)))
    n = 2200 if ctx.quick() else 12000
    for _ in range(n):
        link = 'tcp' if r.random() < 0.8 else 'rtu'
        cases.append(srv.gen_session(r, link, auth=srv.gen_auth(r), big_ok=(r.random() < 0.3), raw=0.08))
    return cases


def authz_sequence_pass(ctx):
    """real TLS servers with an authorization handler, created through the C ABI (rodbus_server_create_tls_with_authz:
    AuthorizationHandlerWrapper) and through the Rust API, several client sessions with different role certificates on
    ONE server. Judged straight from the property: every request of a session whose certificate carries a role is submitted
    once, to the callback of its own kind, with its unit id, range / index and THAT session's role; deny => exception 01,
    allow => served; a certificate without a usable role gets no session (authorization is never switched off)."""
    seqs = srv.gen_authz_sequences(ctx.rng, ctx.quick())
    out, res = srv.run_authz_sequences(ctx, seqs)
    bad = [(sq, o, p) for sq, o, per in zip(seqs, out, res) for p in per if not p['ok_full']]
    for server in ('ffi', 'rust'):
        b = [x for x in bad if x[0][0] == server]
        ctx.oblige(f'tls-authorization-sequences:{server}-server', not b, f'{len(b)} sessions; first: {b[0][2] if b else ""}'[:300])
    for sq, o, p in bad[:2]:
        what = 'role-less-certificate-served' if not p['want'].get('served', True) else ('denied-request-served' if not p['want'].get('allowed', True) and p['got'].startswith('client=OK') else 'query-differs')
        ctx.violation(f'authorization.tls.{sq[0]}-server.{what}',
                      f'TLS + authorization, {sq[0]} server, policy {sq[1]}: session #{p["session"]} (role certificate {p["role"]}, {p["op"]}) got `{p["got"]}`, the property requires {p["want"]}',
                      {'authz_sequences': [list(sq[:3]) + [[list(x) for x in sq[3]]]], 'harness_line': 'ffi_authz: ' + srv.authz_line(sq), 'impl': o, 'required': p['want']})
    return {'tls-authorization-sequences': len(seqs), 'tls-authorization-sessions': sum(len(s[3]) for s in seqs),
            'tls-authorization-sessions:role-less-certificate': sum(1 for s in seqs for x in s[3] if x[0] in ('roleless', 'tworoles'))}


def tls_pass(ctx):
    """thorough tier: real TLS sessions - the rodbus TLS client holding the repository's client certificate
    (role "operator") against spawn_tls_server_task_with_authz; the role the policy is consulted with must be
    the certificate's, and log and per-request results must be the reference server's for that role"""
    import os
    import vlib
    r = ctx.rng
    role = b'operator'
    cases = []
    while len(cases) < 48:
        k = len(cases) % 4
        auth = ('ro', role) if k == 0 else ('deny', role) if k == 1 else ('hash', role, r.randrange(65536), r.choice([50, 50, 30, 70, 100]))
        c = srv.gen_session(r, 'tcp', auth=auth, big_ok=False, raw=0.0, nframes=r.choice([2, 3, 5, 8]))
        frames = tuple(f for f in c[3] if srv.classify(f[2]) in ('valid:fc1', 'valid:fc2', 'valid:fc3', 'valid:fc4', 'valid:fc5', 'valid:fc6', 'valid:fc15', 'valid:fc16'))
        if not frames or not c[1]:
            continue
        # the client re-encodes write-multiple-coils with zero padding bits: send them canonical
        canon = []
        for tx, d, p in frames:
            if p[0] == 15:
                n = p[3] * 256 + p[4]
                data = bytearray(p[6:])
                if n % 8:
                    data[-1] &= (1 << (n % 8)) - 1
                p = bytes(p[:6]) + bytes(data)
            canon.append((tx, d, p))
        cases.append((c[0], c[1], auth, tuple(canon)))
    impl = ctx.harness('server_tls', [srv.to_line(c) for c in cases], args=[os.path.join(vlib.REPO, 'certs')], shards=8, timeout=900)
    both = srv.run_coq(ctx, cases)
    rolehex = role.hex().upper()
    bad, n_au, wrong_role = [], 0, []
    for k, (c, i, b) in enumerate(zip(cases, impl, both)):
        res, log, end = srv.split3(i)
        srep, slog, _ = srv.split3(b[1])
        want = []
        if not srep and len(c[3]) == 1:
            srep = ['-']          # a single silent reply and "no replies" are both rendered as `-`
        for x in srep:
            if x == '-':
                want.append('err')
            else:
                y = bytes.fromhex(x)
                want.append(f'ex{y[8]}' if y[7] & 0x80 else 'ok')
        for e in srv.auth_calls(log):
            n_au += 1
            if not e.endswith('.' + rolehex):
                wrong_role.append(e)
        if end != 'done' or res != want or log != slog:
            bad.append(k)
    ctx.oblige('tls-session:policy-is-consulted-with-the-role-of-the-client-certificate', not wrong_role and n_au >= 50, f'{n_au} queries, wrong role: {wrong_role[:2]}')
    ctx.oblige('tls-session:log-and-results-equal-the-reference-server', not bad, f'{len(bad)} of {len(cases)} sessions differ')
    if bad:
        k = bad[0]
        ctx.violation('authorization.tls-session', 'real TLS session differs from the reference server: ' + srv.describe(cases[k]),
                      {'cases': [srv.case_to_json(cases[k])], 'harness_line': srv.to_line(cases[k]), 'impl': impl[k], 'spec': both[k][1]})
    return {'tls-sessions': len(cases), 'tls-sessions:authorization-queries': n_au}


def run(ctx):
    if not srv.prepare(ctx, ['FfiTables.v', 'TlsAuthz.v']):
        return
    if ctx.replay and 'authz_sequences' in ctx.replay:
        srv.replay_authz_sequences(ctx, False)
        return
    if ctx.replay and 'tls_role_cases' in ctx.replay:
        from checks import c08_tls
        c08_tls.run_tls_roles(ctx)
        return
    if ctx.replay and 'cases' in ctx.replay:
        cases = [srv.case_from_json(c) for c in ctx.replay['cases']]
    else:
        cases = gen_cases(ctx)
    impl, both, n_spec, n_model = srv.compare(ctx, cases, 'all', 'authorization', 'authorization + handler log and replies')
    for pol in ('hash', 'ro', 'deny'):
        idx = [k for k, c in enumerate(cases) if c[2] is not None and c[2][0] == pol]
        bad = [k for k in idx if srv.differs(impl[k], both[k], 'all')]
        ctx.oblige(f'correspondence:interleaved-log-and-replies:policy={pol}', not bad, f'{len(bad)} of {len(idx)} sessions differ')
    # metamorphic, implementation only: an allow-everything policy behaves like no authorization at all
    allow = [c for c in cases if c[2] is not None and c[2][0] == 'hash' and c[2][3] == 100]
    if allow:
        a = srv.run_impl(ctx, allow)
        b = srv.run_impl(ctx, [(c[0], c[1], None, c[3]) for c in allow])
        bad = [k for k in range(len(allow)) if srv.observe(a[k], 'replies') != srv.observe(b[k], 'replies') or srv.expand_runs(srv.observe(a[k], 'calls')[0]) != srv.expand_runs(srv.observe(b[k], 'calls')[0])]
        ctx.oblige('allow-all-policy-equals-no-authorization', not bad, f'{len(bad)} of {len(allow)}')
        if bad:
            c = allow[bad[0]]
            ctx.violation('authorization.allow-differs-from-none.' + c[0], 'an allowed request behaves differently from the same request without authorization: ' + srv.describe(c),
                          {'cases': [srv.case_to_json(c)], 'impl': a[bad[0]], 'impl_without_authorization': b[bad[0]]})
    # implementation only: under a deny-everything policy no point handler is ever called
    deny = [(c, i) for c, i in zip(cases, impl) if c[2] is not None and ((c[2][0] == 'hash' and c[2][3] == 0) or c[2][0] == 'deny')]
    bad = [(c, i) for c, i in deny if srv.handler_calls(srv.split3(i)[1])]
    ctx.oblige('deny-all-policy-never-reaches-a-point-handler', not bad, f'{len(bad)} of {len(deny)}')
    st = {'auth-queries': 0, 'sessions:policy=hash': 0, 'sessions:policy=ro': 0, 'sessions:policy=deny': 0, 'sessions:allow-all': len(allow),
          'sessions:deny-all': len(deny), 'distinct-roles': len(set(c[2][1] for c in cases if c[2])), 'denied-replies(exception 01)': 0}
    for c, i in zip(cases, impl):
        rep, log, _ = srv.split3(i)
        st['auth-queries'] += len(srv.auth_calls(log))
        if c[2]:
            st['sessions:policy=' + c[2][0]] += 1
        for x in rep:
            if x not in ('-', 'PANIC', 'WEDGED'):
                b = bytes.fromhex(x)
                if (c[0] == 'tcp' and b[7] & 0x80 and b[8] == 1) or (c[0] == 'rtu' and b[1] & 0x80 and b[2] == 1):
                    st['denied-replies(exception 01)'] += 1
    if not ctx.replay:
        st.update(authz_sequence_pass(ctx))
    if not ctx.quick() and not ctx.replay:
        st.update(tls_pass(ctx))
    if not ctx.replay:
        # real TLS sessions with client certificates of different role content (lib/checks/c08_tls.py)
        from checks import c08_tls
        st.update(c08_tls.run_tls_roles(ctx))
    cl = srv.coverage(ctx, cases, impl,
                      'sessions with an authorization handler: 8 kinds x allow/deny x configured/unconfigured/broadcast destination, built-in read-only and default '
                      'handlers per kind, then mixed sessions under hashed policies (seed, allow percentage 0..100) and arbitrary role strings; '
                      'non-trivial = contains at least one valid request; distinct by value', st)
    if not ctx.replay:
        need = ['auth-queries', 'sessions:policy=hash', 'sessions:policy=ro', 'sessions:policy=deny', 'sessions:allow-all', 'sessions:deny-all',
                'denied-replies(exception 01)', 'replies:normal', 'sessions:rtu']
        missing = [k for k in need if cl.get(k, 0) < 3]
        ctx.oblige('generator-reaches-expected-classes', not missing, 'missing: ' + ','.join(missing))
