"""C04 - Client accepts only the genuine matching reply and returns exactly its data.

Theorems (coq/theories/Properties/C04.v) are about Model/ClientRequest.v `handle_response`.
Correspondence: the real client (Channel API + ClientLoop over the in-memory Wire, harness
subcommand `cresp`) is given one request and one reply ADU built around a chosen PDU; the value
the request future resolves to is compared with the model AND with the Spec (`ref_reply`,
`ref_exception` of Spec/ClientCodecSpec.v), both evaluated inside Coq (Model/ClientShow.v `run_resp`).

A case is (framing 'T'|'R', kind, unit, start, count_or_value, pdu bytes, literal). RTU is used only
for PDUs the RTU response parser delimits as that PDU (otherwise the framing layer, C06, decides).
literal = 1 (reads only): the AddressRange is a struct literal (public fields, harness suffix `r`)
instead of AddressRange::try_from; invalid literals must be REJECTED before anything is sent
(finding F10, repaired by 3d39d18), valid ones behave like any other request.
An 8th field `style` selects the API: 0 = async Channel, 1 = CallbackSession, 2 = FfiChannel
(harness framing suffix `c` / `x`); the callback styles iterate the BitIterator / RegisterIterator
they are handed and must see the values the Channel path returns (C04_paths_agree).
A second family (`rtu_stream_family`) feeds the real RTU client raw byte chunks (harness
`raw:<hex>+<hex>..[/Z|/E]`) and compares the request's result with the composed model
`client_system_rtu` (reader o task o handle_response) and its Spec `ref_client_result_rtu`
(Properties/C04_SystemRtu.v), both evaluated in Coq (Model/SystemClientRtuEval.v).
"""
import vlib

KIND_NAME = {1: 'read_coils', 2: 'read_discrete_inputs', 3: 'read_holding_registers', 4: 'read_input_registers',
             5: 'write_single_coil', 6: 'write_single_register', 15: 'write_multiple_coils', 16: 'write_multiple_registers'}
LIMIT = {1: 2000, 2: 2000, 3: 125, 4: 125, 15: 1968, 16: 123}
COUNTS = {1: [1, 2, 7, 8, 9, 15, 16, 17, 123, 124, 125, 126, 1968, 1969, 1976, 1977, 1992, 1993, 1999, 2000],
          3: [1, 2, 3, 7, 8, 9, 61, 62, 123, 124, 125]}
COUNTS[2] = COUNTS[1]
COUNTS[4] = COUNTS[3]
COUNTS[15] = [1, 8, 9, 123, 1968]
COUNTS[16] = [1, 2, 8, 123]
EX_CODES = [1, 2, 3, 4, 5, 6, 8, 10, 11, 0, 7, 9, 12, 127, 128, 255]
REQS = ['Base.Show', 'Model.ClientShow']
CASE_TYPE = 'resp_case'


def be(v):
    return [v >> 8, v & 255]


def genuine(r, k, s, n):
    """a genuine reply PDU for the request (reads: random data)"""
    if k in (1, 2):
        nb = (n + 7) // 8
        return [k, nb & 255] + [r.choice([0, 255, 0x55, 0xAA, r.randrange(256)]) if r.random() < 0.3 else r.randrange(256) for _ in range(nb)]
    if k in (3, 4):
        return [k, (2 * n) & 255] + [r.randrange(256) for _ in range(2 * n)]
    if k == 5:
        return [5] + be(s) + ([0xFF, 0] if n else [0, 0])
    if k == 6:
        return [6] + be(s) + be(n)
    return [k] + be(s) + be(n)


def invalid_request(c):
    k, s, n = c[1], c[3], c[4]
    return k in LIMIT and (n == 0 or s + n > 65536 or n > LIMIT[k])


def classify(c):
    """python-side class of the reply w.r.t. the request (keys and the measured distribution only)"""
    f, k, u, s, n, pdu = c[:6]
    if invalid_request(c):
        return 'request-invalid'
    if not pdu:
        return 'empty'
    if pdu[0] == k | 0x80:
        return 'exception' if len(pdu) == 2 else ('exception-truncated' if len(pdu) < 2 else 'exception-extended')
    if pdu[0] != k:
        return 'other-exception-function' if pdu[0] & 0x80 else 'wrong-function'
    if k in (1, 2, 3, 4):
        want = 2 + ((n + 7) // 8 if k in (1, 2) else 2 * n)
        if len(pdu) < want:
            return 'too-short'
        if len(pdu) > want:
            return 'too-long'
        return 'genuine' if pdu[1] == (want - 2) & 255 else 'genuine-odd-byte-count'
    if len(pdu) < 5:
        return 'too-short'
    if k == 5 and (pdu[3], pdu[4]) not in ((0xFF, 0), (0, 0)):
        return 'bad-coil-value' if len(pdu) == 5 else 'bad-coil-value-and-too-long'
    if len(pdu) > 5:
        return 'too-long'
    want = genuine(None, k, s, n)
    if pdu == want:
        return 'genuine'
    if k in (15, 16):
        cnt = pdu[3] * 256 + pdu[4]
        st = pdu[1] * 256 + pdu[2]
        if cnt == 0 or st + cnt > 65536:
            return 'echo-invalid-range'
    return 'echo-mismatch'


def rtu_deliverable(pdu):
    if not pdu or len(pdu) > 253:
        return False
    fc = pdu[0]
    if fc & 0x80:
        return len(pdu) == 2
    if fc in (1, 2, 3, 4):
        return len(pdu) >= 2 and pdu[1] == len(pdu) - 2
    if fc in (5, 6, 15, 16):
        return len(pdu) == 5
    return False


def mutations(r, k, s, n, g):
    """the genuine reply mutated by truncation / extension / function byte / byte count / echo fields"""
    out = [list(g)]
    # truncation
    for cut in {1, 2, 3, len(g) // 2, len(g) - 1, len(g)}:
        if 0 < cut <= len(g):
            out.append(g[:len(g) - cut])
    # extension
    for extra in (1, 2, r.randrange(3, 9)):
        if len(g) + extra <= 253:
            out.append(g + [r.randrange(256) for _ in range(extra)])
    # function byte
    for fc in {k | 0x80, k ^ 1, k + 1, 0, 0x80, 0xFF, r.choice([1, 2, 3, 4, 5, 6, 15, 16]), r.randrange(256)}:
        out.append([fc & 255] + g[1:])
    if k in (1, 2, 3, 4):
        # byte-count byte: not among the property's checks, any value must still be accepted
        for bc in {0, 1, g[1] ^ 1, (g[1] + 1) & 255, 255, r.randrange(256)}:
            out.append([g[0], bc] + g[2:])
        # one data byte flipped: still genuine, other values
        if len(g) > 2:
            i = r.randrange(2, len(g))
            out.append(g[:i] + [g[i] ^ (1 << r.randrange(8))] + g[i + 1:])
        # reply sized for a neighbouring count
        for dn in (-8, -1, 1, 8):
            m = n + dn
            if 1 <= m <= LIMIT[k]:
                h = genuine(r, k, s, m)
                if len(h) != len(g):
                    out.append(h)
    else:
        # echo fields
        for i in (1, 2, 3, 4):
            for d in (1, 255, 128):
                h = list(g)
                h[i] = (h[i] + d) & 255
                out.append(h)
        out.append([g[0]] + g[3:5] + g[1:3])                      # fields swapped
        if k == 5:
            for raw in (0xFF01, 0x0001, 0x00FF, 0xFFFF, 0xFE00, r.randrange(65536)):
                out.append(g[:3] + be(raw))
                out.append(g[:3] + be(raw) + [0])
            out.append(g[:3] + ([0, 0] if n else [0xFF, 0]))       # the other legal coil value
        if k in (15, 16):
            out.append(g[:3] + [0, 0])                            # count 0
            out.append(g[:3] + [0, 0, 0])
            out.append([g[0], 0xFF, 0xFF, 0xFF, 0xFF])            # overflowing range
            out.append([g[0], 0xFF, 0xFF, 0, 2])
            out.append(g + [g[1]])                                # echo + a byte count as in the request
    # exception replies
    for code in r.sample(EX_CODES, 5) + [r.randrange(256)]:
        out.append([k | 0x80, code])
    out.append([k | 0x80])
    out.append([k | 0x80, 2, 0])
    out.append([k | 0x80, r.randrange(256)] + [r.randrange(256) for _ in range(r.randrange(1, 6))])
    out.append([(k ^ 1) | 0x80, 2])
    out.append([r.choice([1, 2, 3, 4, 5, 6, 15, 16]) | 0x80, r.randrange(256)])
    return out


def gen_cases(ctx, quick):
    r = ctx.rng
    cases = []

    def add(k, s, n, pdu, f=None, u=None, lit=None):
        pdu = [int(b) & 255 for b in pdu][:253]
        if lit is None:
            lit = r.randrange(2)
        lit = lit if k in (1, 2, 3, 4) else 0
        style = r.choice([0, 0, 1, 2])
        if f is None:
            f = 'R' if rtu_deliverable(pdu) and r.random() < 0.5 else 'T'
        if f == 'R' and not rtu_deliverable(pdu):
            f = 'T'
        cases.append((f, k, r.choice([0, 1, 17, 247, 255, r.randrange(256)]) if u is None else u, s, n, tuple(pdu), lit, style))

    # corpus
    add(1, 10, 3, [1, 1, 5], 'T', 1)
    add(1, 19, 10, [1, 2, 0xCD, 0x01], 'R', 1)               # the standard's example
    add(3, 65534, 2, [3, 4, 1, 2, 3, 4], 'T', 1)
    add(1, 63536, 2000, [1, 250] + [0xFF] * 250, 'T', 1)
    add(3, 65411, 125, [3, 250] + list(range(250)), 'R', 1)
    add(6, 3, 513, [6, 0, 3, 2, 1], 'R', 7)
    add(1, 0, 1, [], 'T', 1)
    for k in (1, 2, 3, 4):                       # the largest replies, also ending at address 65535 (logging walks, decode-max pass)
        for s0 in (0, 65536 - LIMIT[k], r.randrange(0, 65536 - LIMIT[k])):
            add(k, s0, LIMIT[k], genuine(r, k, s0, LIMIT[k]), 'T', 1)
    # F10: struct literals that were never validated, with the replies that used to be accepted / to panic
    add(1, 0, 0, [1, 0], 'T', 1, 1)
    add(1, 65535, 10, [1, 2, 0xFF, 0x03], 'T', 1, 1)
    add(3, 65535, 3, [3, 6, 0, 1, 0, 2, 0, 3], 'T', 1, 1)
    add(2, 65535, 2, [2, 1, 3], 'R', 1, 1)
    add(4, 65534, 3, [4, 6, 0, 1, 0, 2, 0, 3], 'R', 1, 1)
    add(3, 0, 126, [3, 252] + [0] * 252, 'T', 1, 1)
    for _ in range(40 if quick else 400):
        k = r.choice([1, 2, 3, 4])
        bad = r.choice(['zero', 'overflow', 'overflow', 'limit'])
        if bad == 'zero':
            s, n = r.choice([0, 65535, r.randrange(65536)]), 0
        elif bad == 'overflow':
            n = r.choice([2, 3, 9, 10, LIMIT[k], r.randrange(2, LIMIT[k] + 1)])
            s = min(65535, 65536 - n + r.choice([1, 1, 2, n - 1]))
        else:
            n = LIMIT[k] + r.choice([1, 2, 8])
            s = r.randrange(0, 65536 - n)
        g = genuine(r, k, s, n)[:253]
        add(k, s, n, r.choice([g, g, [k | 0x80, 2], []]), lit=r.choice([1, 1, 1, 0]))
    reps = 1 if quick else 6
    for _ in range(reps):
        for k in KIND_NAME:
            if k in (5, 6):
                reqs = [(i, v) for i in (0, 1, 255, 256, 65535, r.randrange(65536))
                        for v in ((0, 1) if k == 5 else (0, 1, 0xFF00, 65535, r.randrange(65536)))]
                reqs = r.sample(reqs, 6)
            else:
                reqs = []
                for n in COUNTS[k]:
                    for s in {0, 65536 - n, r.randrange(0, 65536 - n + 1)}:
                        reqs.append((s, n))
                if quick and len(reqs) > 24:
                    reqs = r.sample(reqs, 24)
                if quick:                         # at most 6 requests per kind whose reply is long (expensive in coqc)
                    long_ones = [q for q in reqs if q[1] * (2 if k in (3, 4) else 0.125) > 40]
                    keep = set(r.sample(long_ones, min(6, len(long_ones))))
                    reqs = [q for q in reqs if q not in long_ones or q in keep]
            for s, n in reqs:
                g = genuine(r, k, s, n)
                ms = mutations(r, k, s, n, g)
                if quick and len(g) > 40:       # long replies are expensive to evaluate in Coq: genuine + a sample of the mutations
                    ms = ms[:1] + r.sample(ms[1:], 6)
                for m in ms:
                    add(k, s, n, m)
    # random PDUs of length 0..253 (function byte biased towards the interesting ones)
    for _ in range(1000 if quick else 30000):
        k = r.choice(list(KIND_NAME))
        if k in (5, 6):
            s, n = r.randrange(65536), (r.randrange(2) if k == 5 else r.randrange(65536))
        else:
            n = r.choice(COUNTS[k] + [r.randrange(1, LIMIT[k] + 1)]) if r.random() < 0.4 else r.randrange(1, 33)
            s = r.randrange(0, 65536 - n + 1)
        ln = r.choice([0, 1, 2, 3, 4, 5, 6, 7, 252, 253, r.randrange(254), r.randrange(254)])
        pdu = [r.randrange(256) for _ in range(ln)]
        if pdu and r.random() < 0.7:
            pdu[0] = r.choice([k, k, k | 0x80, k ^ 1, r.choice([1, 2, 3, 4, 5, 6, 15, 16])])
        if k in (1, 2, 3, 4) and r.random() < 0.3:
            want = 2 + ((n + 7) // 8 if k in (1, 2) else 2 * n)
            pdu = (pdu + [r.randrange(256) for _ in range(want)])[:want]
            pdu[0] = k
        add(k, s, n, pdu)
    seen, out = set(), []
    for c in cases:
        if c not in seen:
            seen.add(c)
            out.append(c)
    return out


STYLE_SUFFIX = {0: '', 1: 'c', 2: 'x'}
STYLE_NAME = {0: 'channel', 1: 'callback', 2: 'ffi'}


def line(c):
    f, k, u, s, n, pdu, lit, style = c
    vals = 's0' if k in (15, 16) else '-'
    return f'{f}{STYLE_SUFFIX[style]} {k}{"r" if lit else ""} {u} {s} {n} {vals} ' + (''.join(f'{b:02X}' for b in pdu) or '-')


def hexnum(bs):
    return f'({len(bs)}%nat, 0x{"".join("%02x" % b for b in bs) or "0"})'


def to_coq(c):
    f, k, u, s, n, pdu, lit, style = c
    return f'({vlib.coq_bool(lit)}, {style}, {k}, {s}, {n}, {hexnum(pdu)})'


def evaluate(ctx, cases, each=False, args=()):
    if each:
        impl = [ctx.harness('cresp', [line(c)], args=args)[0] for c in cases]
    else:
        impl = ctx.harness('cresp', [line(c) for c in cases])
    # spread the expensive cases (long genuine replies) evenly over the coqc shards
    order = list(range(len(cases)))
    order.sort(key=lambda i: (i * 7919) % 104729)
    shuffled = []
    for lo in range(0, len(order), 9600):         # bounded coqc memory: at most 800 cases per process
        shuffled += ctx.coq_eval(REQS, 'run_resp', [to_coq(cases[i]) for i in order[lo:lo + 9600]], case_type=CASE_TYPE, per_shard=800)
    both = [None] * len(cases)
    for i, b in zip(order, shuffled):
        both[i] = b
    return [(i, b.split('|')[0], b.split('|')[0] if b.split('|')[1] == '=' else b.split('|')[1]) for i, b in zip(impl, both)]


def spec_ok(impl, spec):
    if spec == 'REJECTED':
        return impl.startswith('REJECTED ')
    if spec == 'ERR other':
        return impl.startswith('ERR ') and not impl.startswith('ERR Exception(')
    return impl == spec


def shrink_candidates(c):
    f, k, u, s, n, pdu, lit, style = c
    if u != 1:
        yield (f, k, 1, s, n, pdu, lit, style)
    if f == 'R':
        yield ('T', k, u, s, n, pdu, lit, style)
    if style:
        yield (f, k, u, s, n, pdu, lit, 0)
    if lit:
        yield (f, k, u, s, n, pdu, 0, style)
    for i in range(min(len(pdu), 40)):
        if i >= 1 and pdu[i] != 0 and not (k not in (1, 2, 3, 4) and i <= 4):
            yield (f, k, u, s, n, pdu[:i] + (0,) + pdu[i + 1:], lit, style)


def fails_spec(ctx, cs):
    cs = [c if (c[0] == 'T' or rtu_deliverable(list(c[5]))) else ('T',) + tuple(c[1:]) for c in cs]
    return [not spec_ok(i, sp) for (i, m, sp) in evaluate(ctx, cs, each=True)]


def jcase(c):
    return [c[0], c[1], c[2], c[3], c[4], list(c[5]), c[6], c[7]]


# ---------------------------------------------------------------------------------------------
# RTU end to end: raw byte chunks (Properties/C04_SystemRtu.v)
# ---------------------------------------------------------------------------------------------
def crc16(bs):
    c = 0xFFFF
    for b in bs:
        c ^= b
        for _ in range(8):
            c = (c >> 1) ^ 0xA001 if c & 1 else c >> 1
    return c


def rtu_frame(addr, pdu):
    c = crc16([addr] + list(pdu))
    return [addr] + list(pdu) + [c & 255, c >> 8]


def cut(r, bs, style):
    if not bs:
        return []
    if style == 'whole':
        return [bs]
    if style == 'bytes':
        return [[b] for b in bs]
    k = r.randrange(1, 5)
    pts = sorted(set(r.randrange(1, len(bs)) for _ in range(k))) if len(bs) > 1 else []
    out, prev = [], 0
    for p in pts + [len(bs)]:
        out.append(bs[prev:p])
        prev = p
    return out


def gen_rtu_cases(r, n):
    cases = []
    while len(cases) < n:
        k = r.choice([1, 2, 3, 4, 5, 6, 15, 16])
        if k in (5, 6):
            s, cnt = r.randrange(65536), (r.randrange(2) if k == 5 else r.randrange(65536))
        else:
            cnt = r.choice([1, 2, 3, 8, 9, 16, 17, r.randrange(1, 60)])
            cnt = min(cnt, LIMIT[k])
            s = r.randrange(0, 65536 - cnt + 1)
        unit = r.choice([1, 1, 17, 247])
        g = genuine(r, k, s, cnt)
        first = r.choice(['genuine', 'genuine', 'genuine', 'mutated', 'mutated', 'exception', 'other-unit', 'crc-damaged', 'crc-damaged', 'bit-flip',
                          'truncated', 'unknown-fc', 'too-long-count', 'nothing'])
        addr = unit
        stream = []
        if first == 'genuine':
            stream = rtu_frame(addr, g)
        elif first == 'mutated':
            m = r.choice(mutations(r, k, s, cnt, g))
            stream = rtu_frame(addr, m) if m else []
        elif first == 'exception':
            stream = rtu_frame(addr, [k | 0x80, r.choice(EX_CODES)])
        elif first == 'other-unit':                       # the client does not compare the address byte (recorded observation)
            stream = rtu_frame(r.choice([0, 2, 99, 255]), g)
        elif first == 'crc-damaged':
            stream = rtu_frame(addr, g)
            stream[-r.choice([1, 2])] ^= 1 << r.randrange(8)
        elif first == 'bit-flip':
            stream = rtu_frame(addr, g)
            stream[r.randrange(len(stream))] ^= 1 << r.randrange(8)
        elif first == 'truncated':
            stream = rtu_frame(addr, g)
            stream = stream[:r.randrange(0, len(stream))]
        elif first == 'unknown-fc':
            stream = [addr, r.choice([0, 7, 8, 17, 43, 100, 127])] + [r.randrange(256) for _ in range(r.randrange(0, 8))]
        elif first == 'too-long-count':
            stream = [addr, r.choice([1, 2, 3, 4]), r.choice([252, 253, 255])] + [r.randrange(256) for _ in range(r.randrange(0, 20))]
        tail = r.choice(['', '', 'noise', 'second-frame'])
        if tail == 'noise':
            stream = stream + [r.randrange(256) for _ in range(r.randrange(1, 6))]
        elif tail == 'second-frame':
            stream = stream + rtu_frame(addr, genuine(r, k, s, cnt))
        fin = r.choice(['P', 'P', 'Z', 'E'])
        chunks = cut(r, stream, r.choice(['whole', 'bytes', 'random', 'random', 'random']) if len(stream) < 60 else r.choice(['whole', 'random']))
        cases.append({'kind': k, 'start': s, 'count': cnt, 'unit': unit, 'chunks': chunks, 'fin': fin, 'first': first, 'tail': tail,
                      'style': r.choice([0, 0, 1, 2])})
    return cases


def rtu_line(c):
    vals = 's0' if c['kind'] in (15, 16) else '-'
    raw = 'raw:' + '+'.join(''.join('%02X' % b for b in ch) for ch in c['chunks']) + {'P': '', 'Z': '/Z', 'E': '/E'}[c['fin']]
    return f'R{STYLE_SUFFIX[c["style"]]} {c["kind"]} {c["unit"]} {c["start"]} {c["count"]} {vals} {raw}'


def rtu_coq(c):
    return (f'({c["kind"]}, {c["start"]}, {c["count"]}, [{";".join(hexnum(ch) for ch in c["chunks"])}], '
            f'{ {"P": 0, "Z": 1, "E": 2}[c["fin"]] })')


def rtu_canon(i):
    """the harness line seen through the verdict classes of Spec/SystemClientSpec.v"""
    if i.startswith('OK ') or i.startswith('ERR Exception(') or i in ('PANIC', 'ERR ResponseTimeout'):
        return i
    if i.startswith('ERR BadFrame('):
        return 'ERR BadFrame'
    if i.startswith('ERR Io('):
        return 'ERR Io'
    if i.startswith('ERR ') and i[4:] in ('InsufficientBytes', 'TrailingBytes', 'ReplyEchoMismatch', 'UnknownResponseFunction', 'UnknownCoilState',
                                           'CountOfZero', 'AddressOverflow', 'InsufficientBytesForByteCount'):
        return 'ERR other'
    return i


# ---------------------------------------------------------------------------------------------
# TCP byte streams that force the reader's 260-byte buffer to compact: [frame to be skipped][reply] in one read
# (Properties/C04_System.v quantifies over every stream and chunking; this family is the generator for that corner)
# ---------------------------------------------------------------------------------------------
def gen_tcp_compaction_cases(r, n):
    cases = []
    while len(cases) < n:
        k = r.choice([1, 2, 3, 3, 4, 4])
        big = r.random() < 0.7
        cnt = (LIMIT[k] - r.choice([0, 0, 0, 1, 2, 7])) if big else r.choice([1, 9, 16, 60, r.randrange(1, LIMIT[k])])
        s0 = r.randrange(0, 65536 - cnt + 1)
        g = genuine(r, k, s0, cnt)
        second = r.choice(['genuine', 'genuine', 'genuine', 'genuine', 'exception', 'wrong-function', 'one-byte-short', 'bit-flip-in-data'])
        pdu2 = list(g)
        if second == 'exception':
            pdu2 = [k | 0x80, r.choice(EX_CODES)]
        elif second == 'wrong-function':
            pdu2 = [k ^ 1] + g[1:]
        elif second == 'one-byte-short':
            pdu2 = g[:-1]
        elif second == 'bit-flip-in-data' and len(g) > 2:
            i = r.randrange(2, len(g))
            pdu2 = g[:i] + [g[i] ^ (1 << r.randrange(8))] + g[i + 1:]
        reply = mbap(0, 1, pdu2)
        b = len(reply)
        # the frame(s) to be skipped: late replies to earlier requests / foreign transaction ids; total length a with a + b > 260
        lo = max(9, 261 - b)
        a = r.choice([lo, lo, lo + 1, 259, r.randrange(lo, 260)]) if lo <= 259 else 259
        nstale = r.choice([1, 1, 1, 2])
        stale = []
        rest = a
        for j in range(nstale):
            ln = rest if j == nstale - 1 else r.randrange(9, max(10, rest - 9)) if rest >= 18 else rest
            ln = max(9, min(259, ln))
            stale += mbap(r.choice([0xFFFF, 1, 5, r.randrange(1, 65536)]), r.choice([1, 17]), [r.choice([k, 3, 1, k | 0x80])] + [r.randrange(256) for _ in range(ln - 8)])
            rest -= ln
            if rest < 9:
                break
        stream = stale + reply
        tail = r.choice(['', '', 'noise', 'second-reply'])
        if tail == 'noise':
            stream += [r.randrange(256) for _ in range(r.randrange(1, 9))]
        elif tail == 'second-reply':
            stream += mbap(0, 1, genuine(r, k, s0, cnt))
        how = r.choice(['whole', 'whole', 'at-259', 'at-260', 'at-261', 'at-stale-end', 'random'])
        if how == 'whole' or len(stream) < 262:
            chunks = [stream]
        elif how.startswith('at-2'):
            p = int(how[3:])
            chunks = [stream[:p], stream[p:]]
        elif how == 'at-stale-end':
            p = len(stale) + r.choice([-1, 0, 1, 7])
            chunks = [stream[:p], stream[p:]]
        else:
            chunks = cut(r, stream, 'random')
        cases.append({'kind': k, 'start': s0, 'count': cnt, 'unit': 1, 'chunks': [c for c in chunks if c], 'fin': r.choice(['P', 'P', 'P', 'Z']), 'first': second, 'tail': tail,
                      'a': len(stale), 'b': b, 'how': how, 'style': r.choice([0, 0, 1, 2])})
    return cases


def tcp_line(c):
    return 'T' + rtu_line(c)[1:]


def tcp_compaction_family(ctx, n, cases=None):
    cases = cases or gen_tcp_compaction_cases(ctx.rng, n)
    impl = ctx.harness('cresp', [tcp_line(c) for c in cases])
    ok = ctx.build_models(['Model.SystemClientRtuEval'])
    both = ctx.coq_eval(['Base.Show', 'Model.ClientShow', 'Model.SystemClientRtuEval'], 'eval_tcp_syscase', [rtu_coq(c) for c in cases],
                        case_type='rtu_syscase', per_shard=40) if ok else [None] * len(cases)
    bad = 0
    classes = {}
    for c, i, b in zip(cases, impl, both):
        got = rtu_canon(i)
        classes['tcp-compaction:' + c['first']] = classes.get('tcp-compaction:' + c['first'], 0) + 1
        classes['tcp-compaction-cut:' + c['how']] = classes.get('tcp-compaction-cut:' + c['how'], 0) + 1
        if c['a'] + c['b'] > 260:
            classes['tcp-compaction:a+b>260'] = classes.get('tcp-compaction:a+b>260', 0) + 1
        if c['b'] == 259:
            classes['tcp-compaction:reply-of-259-bytes'] = classes.get('tcp-compaction:reply-of-259-bytes', 0) + 1
        if b is None:
            continue
        model, spec = b.split('|')
        spec = model if spec == '=' else spec
        if got != spec or got != model:
            bad += 1
            if bad <= 2:
                key = f'client.tcp-stream.skipped-frame-then-{c["first"]}-reply.result-differs-from-the-spec' if got != spec else 'model-differs-from-impl'
                ctx.violation(key, f'{KIND_NAME[c["kind"]]} ({c["start"]},{c["count"]}) over TCP (tx id 0): {c["a"]} bytes of frames with other transaction ids followed by a '
                              f'{c["b"]}-byte {c["first"]} reply, delivered in chunks of {[len(x) for x in c["chunks"]]} bytes then {c["fin"]}: the client reports `{i[:70]}`, '
                              f'Spec ref_client_result says `{spec[:70]}`, client_system says `{model[:70]}` [cresp: {tcp_line(c)[:120]}...]',
                              {'tcp_cases': [c], 'impl': i, 'spec': spec, 'model': model}, no_failing_input=(got == spec))
    ctx.oblige('correspondence:tcp-byte-stream-with-buffer-compaction-vs-client_system-and-its-spec', bad == 0, f'{bad} of {len(cases)}')
    return len(cases), classes


def rtu_stream_family(ctx, n, cases=None):
    cases = cases or gen_rtu_cases(ctx.rng, n)
    impl = ctx.harness('cresp', [rtu_line(c) for c in cases])
    loud = ctx.harness('cresp', [rtu_line(c) for c in cases], args=['--decode', 'max'])
    ctx.oblige('rtu-stream:decode-level-max-gives-identical-results', loud == impl, f'{sum(1 for a, b in zip(loud, impl) if a != b)} lines differ')
    ok = ctx.build_models(['Model.SystemClientRtuEval'])
    both = ctx.coq_eval(['Base.Show', 'Model.ClientShow', 'Model.SystemClientRtuEval'], 'eval_rtu_syscase', [rtu_coq(c) for c in cases],
                        case_type='rtu_syscase', per_shard=400) if ok else [None] * len(cases)
    bad = 0
    classes = {}
    for c, i, b in zip(cases, impl, both):
        got = rtu_canon(i)
        classes['rtu-stream:' + c['first']] = classes.get('rtu-stream:' + c['first'], 0) + 1
        classes['rtu-result:' + got.split(' ')[0] + (' ' + got.split(' ')[1].split('(')[0] if got.startswith('ERR') else '')] = \
            classes.get('rtu-result:' + got.split(' ')[0] + (' ' + got.split(' ')[1].split('(')[0] if got.startswith('ERR') else ''), 0) + 1
        classes['rtu-fin:' + c['fin']] = classes.get('rtu-fin:' + c['fin'], 0) + 1
        if b is None:
            continue
        model, spec = b.split('|')
        spec = model if spec == '=' else spec
        if got != spec or got != model:
            bad += 1
            if bad <= 2:
                key = f'client.rtu-stream.{c["first"]}.result-differs-from-the-spec' if got != spec else 'model-differs-from-impl'
                ctx.violation(key, f'{KIND_NAME[c["kind"]]} ({c["start"]},{c["count"]}) to unit {c["unit"]} over RTU, line bytes in chunks '
                              f'{["".join("%02X" % b for b in ch) for ch in c["chunks"]]} then {c["fin"]}: the client reports `{i[:80]}`, '
                              f'Spec ref_client_result_rtu says `{spec[:80]}`, client_system_rtu says `{model[:80]}` [{rtu_line(c)[:200]}]',
                              {'rtu_cases': [c], 'impl': i, 'spec': spec, 'model': model}, no_failing_input=(got == spec))
    ctx.oblige('correspondence:rtu-byte-stream-vs-client_system_rtu-and-its-spec', bad == 0, f'{bad} of {len(cases)}')
    return len(cases), classes


# ---------------------------------------------------------------------------------------------
# consecutive connections of one channel (Properties/C04_Connections.v): a connection dies in the middle of a frame,
# the next connection's replies must be decided by their own bytes alone
# ---------------------------------------------------------------------------------------------
def mbap(tx, unit, pdu):
    return [tx >> 8, tx & 255, 0, 0, (len(pdu) + 1) >> 8, (len(pdu) + 1) & 255, unit] + list(pdu)


def gen_conn_cases(r, n):
    """consecutive connections of one channel; the session's first transaction id is near the 16-bit wrap for half of the cases.
    Exchange kinds: genuine / exception / nothing (timeout) / stale-below+genuine / stale-above+genuine (frames whose id is below
    AND above the outstanding one must be skipped) / late-reply+genuine (the reply to the request that just timed out arrives while
    the next one is in flight) / torn-then-timeout followed by tail-looks-like-next-frame+genuine (a reply cut inside its PDU when
    the deadline expires; its tail, crafted to read like a frame with the NEXT id, arrives after the next request was sent: it
    belongs to the old frame) / torn, torn-header, full+torn before the connection dies"""
    cases = []
    while len(cases) < n:
        first = r.choice([0, 0, 0, 65535, 65534, 65533, 65531])
        conns, idx = [], 0
        nconn = r.choice([1, 2, 2, 3])
        for ci in range(nconn):
            xs = []

            def tx_of(i):
                return (first + i) % 65536

            def add(k, s0, cnt, unit, stream, fin, what):
                nonlocal idx
                xs.append({'kind': k, 'start': s0, 'count': cnt, 'unit': unit, 'tx': tx_of(idx), 'chunks': cut(r, stream, r.choice(['whole', 'random', 'random', 'bytes'])) if stream else [],
                           'fin': fin, 'what': what, 'style': r.choice([0, 0, 1, 2])})
                idx += 1

            def req():
                k = r.choice([1, 3, 3, 4, 6, 16])
                if k == 6:
                    return k, r.randrange(65536), r.randrange(65536)
                cnt = r.choice([1, 1, 2, 3, 9]) if k != 16 else r.choice([1, 2])
                return k, r.randrange(0, 65536 - cnt + 1), cnt
            nx = r.choice([1, 2, 2, 3])
            while len(xs) < nx:
                unit = r.choice([1, 17])
                tx = tx_of(idx)
                kind = r.choice(['genuine', 'genuine', 'exception', 'nothing', 'stale-below+genuine', 'stale-above+genuine', 'late-reply+genuine', 'torn-pair', 'torn-pair'])
                if kind == 'torn-pair':
                    n2 = r.choice([1, 2, 3])
                    n1 = n2 + r.choice([5, 6, 8, 12])
                    s1, s2 = r.randrange(0, 65536 - n1), r.randrange(0, 65536 - n2)
                    fake = mbap(tx_of(idx + 1), unit, [3, 2 * n2] + [r.randrange(256) for _ in range(2 * n2)])     # 9 + 2*n2 bytes that read like the next reply
                    data = [r.randrange(256) for _ in range(2 * n1 - len(fake))] + fake
                    old = mbap(tx, unit, [3, 2 * n1] + data)
                    c = len(old) - len(fake)                                                                         # = 2*(n1-n2): inside the register data
                    add(3, s1, n1, unit, old[:c], 'P', 'torn-then-timeout')
                    g2 = mbap(tx_of(idx), unit, genuine(r, 3, s2, n2))
                    add(3, s2, n2, unit, old[c:] + g2, 'P', 'tail-looks-like-next-frame+genuine')
                    continue
                k, s0, cnt = req()
                g = mbap(tx, unit, genuine(r, k, s0, cnt))
                other = lambda t: mbap(t % 65536, unit, genuine(r, k, s0, cnt))          # same shape, other (random) data
                if kind == 'genuine':
                    stream = g
                elif kind == 'exception':
                    stream = mbap(tx, unit, [k | 0x80, r.choice([1, 2, 4, 6, 11, 77])])
                elif kind == 'nothing':
                    stream = []
                elif kind == 'stale-below+genuine':
                    stream = other(tx - r.choice([1, 1, 2, 100])) + g
                elif kind == 'stale-above+genuine':
                    stream = other(tx + r.choice([1, 1, 2, 100])) + g
                else:                                                                       # the previous request timed out; its reply comes now
                    if not xs or xs[-1]['what'] != 'nothing':
                        k0, s00, c0 = req()
                        add(k0, s00, c0, unit, [], 'P', 'nothing')
                        tx = tx_of(idx)
                        g = mbap(tx, unit, genuine(r, k, s0, cnt))
                    stream = other(tx - 1) + g
                add(k, s0, cnt, unit, stream, 'P', kind)
            # how the connection ends
            if ci < nconn - 1 or r.random() < 0.3:
                unit = r.choice([1, 17])
                k, s0, cnt = req()
                tx = tx_of(idx)
                g = mbap(tx, unit, genuine(r, k, s0, cnt))
                kind = r.choice(['torn', 'torn', 'torn-header', 'full+torn', 'genuine', 'nothing'])
                if kind == 'torn':
                    stream = g[:r.randrange(7, len(g))]
                elif kind == 'torn-header':
                    stream = g[:r.randrange(1, 7)]
                elif kind == 'full+torn':
                    nxt = mbap(tx_of(idx + 1), unit, genuine(r, 3, 0, 2))
                    stream = g + nxt[:r.randrange(1, len(nxt))]
                elif kind == 'genuine':
                    stream = g
                else:
                    stream = []
                add(k, s0, cnt, unit, stream, r.choice(['Z', 'Z', 'E']), kind)
            conns.append(xs)
        cases.append({'first': first, 'conns': conns})
    return cases


def conn_line(case):
    conns = case['conns']
    toks = [f'tx={case["first"]}'] if case['first'] else []
    for ci, xs in enumerate(conns):
        if ci:
            toks.append('/')
        for x in xs:
            vals = 's0' if x['kind'] in (15, 16) else '-'
            raw = 'raw:' + '+'.join(''.join('%02X' % b for b in ch) for ch in x['chunks']) + {'P': '', 'Z': '/Z', 'E': '/E'}[x['fin']]
            toks.append(f'{x["kind"]},{x["unit"]},{x["start"]},{x["count"]},{vals},{"fcx"[x["style"]]}@{raw}')
    return 'T ' + ' '.join(toks)


def conn_coq(case):
    conns = case['conns']
    return '[' + '; '.join('[' + '; '.join(
        f'({x["kind"]}, {x["start"]}, {x["count"]}, {x["tx"]}, [{";".join(hexnum(ch) for ch in x["chunks"])}], { {"P": 0, "Z": 1, "E": 2}[x["fin"]] })' for x in xs) + ']'
        for xs in conns) + ']'


def connections_family(ctx, n, cases=None, spec_only=False):
    cases = cases or gen_conn_cases(ctx.rng, n)
    impl = ctx.harness('cconn', [conn_line(c) for c in cases])
    if spec_only:
        # the model does not compile (lost translator tie): judge the implementation against the oracle alone
        ok = ctx.build_models(['Spec.ClientSpecEval'])
        both = ctx.coq_eval(['Base.Show', 'Base.CaseGen', 'Spec.ClientSpecEval'], 'eval_conn_spec', [conn_coq(c) for c in cases], case_type='list (list xcase_spec)',
                            per_shard=100) if ok else [None] * len(cases)
    else:
        ok = ctx.build_models(['Model.SystemClientConnEval'])
        both = ctx.coq_eval(['Model.SystemClientConnEval'], 'eval_conn_case', [conn_coq(c) for c in cases], case_type='conn_case', per_shard=100) if ok else [None] * len(cases)
    bad = 0
    classes = {}
    for c, i, b in zip(cases, impl, both):
        got = '/'.join(';'.join(rtu_canon(x) for x in conn.split(';')) for conn in i.split('|'))
        if c['first']:
            classes['conn-first-tx-id-near-the-wrap'] = classes.get('conn-first-tx-id-near-the-wrap', 0) + 1
        for xs in c['conns']:
            for x in xs:
                classes['conn-exchange:' + x['what']] = classes.get('conn-exchange:' + x['what'], 0) + 1
        if b is None:
            continue
        model, spec = b.split('|')
        spec = model if spec == '=' else spec
        if got != spec or got != model:
            bad += 1
            if bad <= 2:
                # first differing exchange
                gl, sl = [x for conn in got.split('/') for x in conn.split(';')], [x for conn in spec.split('/') for x in conn.split(';')]
                ix = next((j for j in range(min(len(gl), len(sl))) if gl[j] != sl[j]), min(len(gl), len(sl)))
                flat = [x for xs in c['conns'] for x in xs]
                what = flat[ix]['what'] if ix < len(flat) else '?'
                key = f'client.connections.exchange-after-reconnect.result-differs-from-the-spec' if got != spec else 'model-differs-from-impl'
                ctx.violation(key, f'{len(c["conns"])} consecutive connection(s) of one channel (first transaction id {c["first"]}): exchange #{ix} ({what}; {KIND_NAME[flat[ix]["kind"]] if ix < len(flat) else "?"}) '
                              f'returned `{(gl + ["(none)"])[ix][:60]}` but the Spec (each connection decided by its own bytes: ref_connections) says `{(sl + ["(none)"])[ix][:60]}`; '
                              f'all results `{got[:160]}` vs Spec `{spec[:160]}` [cconn: {conn_line(c)[:300]}]',
                              {'conn_cases': [c], 'impl': i, 'spec': spec, 'model': model}, no_failing_input=(got == spec))
    ctx.oblige('correspondence:consecutive-connections-vs-connections_from-and-ref_connections', bad == 0, f'{bad} of {len(cases)}')
    return sum(len(xs) for c in cases for xs in c['conns']), classes


# ---------------------------------------------------------------------------------------------
# the C-ABI completion callbacks (Properties/C04_CAbi.v): exception replies with every code byte
# ---------------------------------------------------------------------------------------------
CABI_OPS = ['rc', 'rd', 'rh', 'ri', 'wc', 'wr', 'wmc', 'wmr']


def cabi_exception_family(ctx, quick, given=None):
    """harness ffi_client: one request through the extern "C" functions against a scripted TCP peer that answers with the
    exception reply [fc|0x80, code]; what the C completion callback receives must be the Spec's name for that code
    (Spec/CAbiSpec.v cabi_exception_name) and what the generated conversion tables say (cabi_callback_exception)"""
    r = ctx.rng
    cases = [tuple(x) for x in given] if given else []
    for code in ([] if given else range(256)):
        ops = CABI_OPS if (not quick or code in (1, 2, 3, 4, 5, 6, 8, 10, 11)) else [CABI_OPS[(code + r.randrange(8)) % 8]]
        for op in ops:
            cases.append((op, code))
    out = ctx.harness('ffi_client', [f'req {op} {code} 1' for op, code in cases], timeout=600)
    ok = ctx.build_models(['Spec.CAbiSpec', 'Model.ClientCAbi'])
    both = ctx.coq_eval(['Spec.CAbiSpec', 'Model.ClientCAbi'], '(fun c : N => cabi_callback_exception c ++ "|" ++ cabi_exception_name c)',
                        [str(c) for c in range(256)], case_type='N', preamble='Local Open Scope string_scope.', per_shard=256) if ok else None
    bad = 0
    for (op, code), line_out in zip(cases, out):
        m = __import__('re').match(r'ffi:(\S+?)/(\S+) rust:(\S+)', line_out)
        got = m.group(2) if m else line_out
        model, spec = both[code].split('|') if both else (None, None)
        if both and (got != 'failure:' + spec or got != 'failure:' + model):
            bad += 1
            if bad <= 2:
                ctx.violation(f'client.cabi.exception-code-{code}.callback-receives-another-error' if got != 'failure:' + spec else 'model-differs-from-impl',
                              f'C ABI, op {op}: the server answers with the exception reply for code {code}; the completion callback receives `{got}` '
                              f'but the Spec says `failure:{spec}` (generated conversion tables: {model}; Rust API: {m.group(3) if m else "?"}) [ffi_client: req {op} {code} 1]',
                              {'cabi_cases': [[op, code]], 'impl': line_out, 'spec': 'failure:' + spec, 'model': 'failure:' + model}, no_failing_input=(got == 'failure:' + spec))
    ctx.oblige('correspondence:c-abi-callback-exception-vs-spec', bad == 0 and both is not None, f'{bad} of {len(cases)}')
    return len(cases)


def run(ctx):
    ctx.translate(['Consts.v', 'ClientTables.v', 'SessionErrors.v', 'ErrorMaps.v', 'FfiTables.v', 'DecodeLevels.v'])
    models_ok = ctx.build_models(REQS + ['Spec.ClientCodecSpec'])
    ctx.prove()
    if ctx.tier == 'thorough':
        ctx.coqchk()
    if not ctx.build_harness():
        return
    quick = ctx.quick()
    if not models_ok:
        # no model to evaluate: consecutive connections / transaction ids across the wrap / late replies against the Spec alone
        if not ctx.replay or 'conn_cases' in ctx.replay:
            n_c, cl = connections_family(ctx, 200 if quick else 6000, cases=(ctx.replay or {}).get('conn_cases'), spec_only=True)
            ctx.coverage.update({'evaluations': n_c, 'distinct_nontrivial': n_c, 'samples': [], 'input_classes': cl,
                                 'rule': 'the model does not compile: consecutive-connection cases judged against the Spec alone'})
        return
    if ctx.replay and 'rtu_cases' in ctx.replay:
        n_rtu, _ = rtu_stream_family(ctx, 0, cases=ctx.replay['rtu_cases'])
        ctx.coverage.update({'evaluations': n_rtu, 'distinct_nontrivial': n_rtu, 'rule': 'replay of RTU byte-stream cases', 'samples': []})
        return
    if ctx.replay and 'tcp_cases' in ctx.replay:
        n_t, _ = tcp_compaction_family(ctx, 0, cases=ctx.replay['tcp_cases'])
        ctx.coverage.update({'evaluations': n_t, 'distinct_nontrivial': n_t, 'rule': 'replay of TCP compaction cases', 'samples': []})
        return
    if ctx.replay and 'cabi_cases' in ctx.replay:
        n_c = cabi_exception_family(ctx, quick, given=ctx.replay['cabi_cases'])
        ctx.coverage.update({'evaluations': n_c, 'distinct_nontrivial': n_c, 'rule': 'replay of C-ABI exception cases', 'samples': []})
        return
    if ctx.replay and 'conn_cases' in ctx.replay:
        n_c, _ = connections_family(ctx, 0, cases=ctx.replay['conn_cases'])
        ctx.coverage.update({'evaluations': n_c, 'distinct_nontrivial': n_c, 'rule': 'replay of consecutive-connection cases', 'samples': []})
        return
    if ctx.replay and 'cases' in ctx.replay:
        cases = [(c[0], int(c[1]), int(c[2]), int(c[3]), int(c[4]), tuple(c[5]), int(c[6]) if len(c) > 6 else 0, int(c[7]) if len(c) > 7 else 0) for c in ctx.replay['cases']]
        results = evaluate(ctx, cases, each=True, args=(['--decode', 'max'] if ctx.replay.get('decode') == 'max' else ()))
    else:
        cases = gen_cases(ctx, quick)
        ctx.log(f'{len(cases)} cases')
        results = evaluate(ctx, cases)
    bad = [line(c)[:80] for c, r in zip(cases, results) if r[0].startswith('BADLINE')]
    ctx.oblige('harness-accepts-every-generated-case', not bad, f'{len(bad)} lines rejected by the harness parser, e.g. {bad[:2]}')
    n_model = n_spec = 0
    reported = set()
    classes = {}

    def bump(name):
        classes[name] = classes.get(name, 0) + 1
    for c, (impl, model, spec) in zip(cases, results):
        cl = classify(c)
        bump(f'reply:{cl}')
        bump(f'kind:{KIND_NAME[c[1]]}')
        bump('framing:' + ('tcp' if c[0] == 'T' else 'rtu'))
        bump('style:' + STYLE_NAME[c[7]])
        if c[1] in (1, 2, 3, 4):
            bump('range:' + ('struct-literal' if c[6] else 'try_from'))
        bump('result:' + (impl.split('(')[0] if impl.startswith('ERR') else impl.split(' ')[0]))
        bump(f'len:{"0" if not c[5] else "1-5" if len(c[5]) <= 5 else "6-251" if len(c[5]) < 252 else "252-253"}')
        if not spec_ok(impl, spec):
            n_spec += 1
            key = f'client.{KIND_NAME[c[1]]}.reply-{cl}' + ('.range-literal' if c[6] else '') + ('.' + STYLE_NAME[c[7]] if c[7] else '')
            if key not in reported and len(reported) < 6:
                reported.add(key)
                small = c
                if not ctx.replay:
                    small = vlib.shrink_batch(c, lambda xs: fails_spec(ctx, xs), shrink_candidates, rounds=10, width=16)
                    si, sm, ss = evaluate(ctx, [small], each=True)[0]
                else:
                    si, sm, ss = impl, model, spec
                what = (f'{KIND_NAME[small[1]]}{" (AddressRange struct literal)" if small[6] else ""} via {STYLE_NAME[small[7]]} API start={small[3]} count/value={small[4]} unit={small[2]} over {"TCP" if small[0] == "T" else "RTU"}, reply PDU '
                        f'{"".join("%02X" % b for b in small[5])[:80] or "(empty)"} ({classify(small)}): client returned `{si[:80]}` but the Spec says `{ss[:80]}`')
                ctx.violation(f'client.{KIND_NAME[small[1]]}.reply-{classify(small)}' + ('.range-literal' if small[6] else '') + ('.' + STYLE_NAME[small[7]] if small[7] else ''), what,
                              {'cases': [jcase(small)], 'impl': si, 'spec': ss, 'model': sm, 'original_case': jcase(c)})
        elif impl != model:
            n_model += 1
            if n_model <= 2:
                ctx.violation('model-differs-from-impl', f'{line(c)[:120]}: impl `{impl[:80]}` model `{model[:80]}`',
                              {'cases': [jcase(c)], 'impl': impl, 'model': model, 'spec': spec}, no_failing_input=True)
    if not ctx.replay:
        # the same cases with every decode level at its maximum: the "PDU RX" Display walks (BitIteratorDisplay /
        # RegisterIteratorDisplay at DataValues over the reply, echo Display), frame and phys dumps really execute
        # (C04_log_response): no panic, identical lines
        k = min(len(cases), 40000)
        loud = ctx.harness('cresp', [line(c) for c in cases[:k]], args=['--decode', 'max'])
        diff = [i for i in range(k) if loud[i] != results[i][0]]
        ctx.oblige('decode-level-max-gives-identical-results', not diff, f'{len(diff)} of {k} lines differ, first: {line(cases[diff[0]])[:100] if diff else ""}')
        for i in diff[:2]:
            c = cases[i]
            ctx.violation(f'client.{KIND_NAME[c[1]]}.logging-at-decode-max-changes-the-result',
                          f'{KIND_NAME[c[1]]} via {STYLE_NAME[c[7]]} API start={c[3]} count/value={c[4]} over {"TCP" if c[0] == "T" else "RTU"}, reply PDU '
                          f'{"".join("%02X" % b for b in c[5])[:80]}: with every decode level at its maximum the client returned `{loud[i][:80]}`, '
                          f'with logging off `{results[i][0][:80]}`; the Spec says `{results[i][2][:80]}` [cresp --decode max: {line(c)[:160]}]',
                          {'cases': [jcase(c)], 'decode': 'max', 'impl': loud[i], 'impl_without_logging': results[i][0], 'spec': results[i][2]})
        for c, r0 in zip(cases[:k], results[:k]):
            if r0[0].startswith('OK ') and c[1] in (1, 2, 3, 4):
                if c[3] + c[4] == 65536:
                    bump('logged-rx:range-ends-at-65535')
                if c[4] == LIMIT[c[1]]:
                    bump(f'logged-rx:count={LIMIT[c[1]]}')
                if c[1] in (1, 2) and c[4] % 8:
                    bump('logged-rx:bits-not-multiple-of-8')
        lmiss = [x for x in ('logged-rx:range-ends-at-65535', 'logged-rx:count=2000', 'logged-rx:count=125', 'logged-rx:bits-not-multiple-of-8') if classes.get(x, 0) < 3]
        ctx.oblige('decode-level-max-pass-reaches-expected-classes', not lmiss, f'missing={lmiss}')
    ctx.oblige('correspondence:handle-response-vs-model', n_model == 0, f'{n_model} cases where the implementation differs from the model only (error class)')
    ctx.oblige('correspondence:handle-response-vs-spec', n_spec == 0, f'{n_spec} cases where the implementation differs from the Spec')
    if not ctx.replay:
        need = ['reply:genuine', 'reply:genuine-odd-byte-count', 'reply:exception', 'reply:exception-extended', 'reply:exception-truncated',
                'reply:wrong-function', 'reply:other-exception-function', 'reply:too-short', 'reply:too-long', 'reply:echo-mismatch',
                'reply:echo-invalid-range', 'reply:bad-coil-value', 'reply:empty', 'result:OK', 'result:ERR Exception', 'result:ERR TrailingBytes',
                'result:ERR InsufficientBytes', 'result:ERR ReplyEchoMismatch', 'result:ERR UnknownResponseFunction', 'result:ERR UnknownCoilState',
                'result:ERR CountOfZero', 'result:ERR AddressOverflow', 'framing:rtu', 'framing:tcp', 'len:252-253', 'len:0',
                'reply:request-invalid', 'result:REJECTED', 'range:struct-literal', 'range:try_from', 'style:channel', 'style:callback', 'style:ffi']
        missing = [n for n in need if classes.get(n, 0) < 3]
        unexpected = [k for k in classes if k.startswith('result:') and k.split(':')[1] in ('PANIC', 'BADLINE', 'OKX', 'ERR ResponseTimeout', 'ERR BadFrame', 'ERR LOST', 'ERR HUNG')]
        ctx.oblige('generator-reaches-expected-classes', not missing and not unexpected, f'missing={missing} unexpected={unexpected}')
    n_cabi = 0
    if not ctx.replay:
        n_cabi = cabi_exception_family(ctx, quick)
        classes['cabi-exception-cases'] = n_cabi
    n_tcp = 0
    if not ctx.replay:
        n_tcp, tcp_classes = tcp_compaction_family(ctx, 200 if quick else 5000)
        classes.update(tcp_classes)
        tmiss = [x for x in ('tcp-compaction:a+b>260', 'tcp-compaction:reply-of-259-bytes', 'tcp-compaction:genuine', 'tcp-compaction-cut:whole', 'tcp-compaction-cut:at-259',
                             'tcp-compaction-cut:at-260', 'tcp-compaction-cut:at-261') if classes.get(x, 0) < 3]
        ctx.oblige('tcp-compaction-generator-reaches-expected-classes', not tmiss, f'missing={tmiss}')
    n_conn = 0
    if not ctx.replay:
        n_conn, conn_classes = connections_family(ctx, 200 if quick else 6000)
        classes.update(conn_classes)
        cmiss = [x for x in ('conn-exchange:torn', 'conn-exchange:torn-header', 'conn-exchange:full+torn', 'conn-exchange:genuine', 'conn-exchange:stale-below+genuine',
                             'conn-exchange:stale-above+genuine', 'conn-exchange:late-reply+genuine', 'conn-exchange:torn-then-timeout',
                             'conn-exchange:tail-looks-like-next-frame+genuine', 'conn-first-tx-id-near-the-wrap') if classes.get(x, 0) < 3]
        ctx.oblige('connections-generator-reaches-expected-classes', not cmiss, f'missing={cmiss}')
    n_rtu = 0
    if not ctx.replay:
        n_rtu, rtu_classes = rtu_stream_family(ctx, 450 if quick else 12000)
        classes.update(rtu_classes)
        need_rtu = ['rtu-stream:' + x for x in ('genuine', 'mutated', 'exception', 'other-unit', 'crc-damaged', 'bit-flip', 'truncated', 'unknown-fc',
                                                'too-long-count', 'nothing')] + \
                   ['rtu-result:OK', 'rtu-result:ERR Exception', 'rtu-result:ERR other', 'rtu-result:ERR BadFrame', 'rtu-result:ERR Io',
                    'rtu-result:ERR ResponseTimeout']
        miss = [x for x in need_rtu if classes.get(x, 0) < 3]
        ctx.oblige('rtu-stream-generator-reaches-expected-classes', not miss and 'rtu-result:PANIC' not in classes, f'missing={miss}')
    ctx.coverage.update({
        'evaluations': len(cases) + n_rtu + n_cabi + n_conn + n_tcp,
        'distinct_nontrivial': len({c for c in cases if len(c[5]) >= 2}),
        'rule': 'cases (framing, kind, unit, start, count|value, reply PDU, range-is-struct-literal) from a seeded PRNG: F10 corpus (unvalidated range literals must be rejected), for every request kind and boundary range the genuine reply and its mutations (truncation, extension, function byte, byte-count byte, data bits, echo fields, coil raw value, exception replies) plus random PDUs of length 0..253; non-trivial = PDU of at least two bytes; distinct by value. RTU framing only where the RTU response parser delimits the PDU as such. Plus the RTU byte-stream family: raw chunked line bytes (genuine / mutated / exception / other unit / CRC damaged / bit flip / truncated / unknown function / over-long count / nothing, with noise or a second frame behind, then pending / EOF / error) vs client_system_rtu and ref_client_result_rtu',
        'samples': [[line(c)[:100], r[0][:60]] for c, r in list(zip(cases, results))[:8]],
        'input_classes': classes,
        'exhaustive': False,
    })
