"""Shared by c18.py and c19.py: correspondence for the COMPOSED model (C-ABI RequestHandlerWrapper as an
instance of the server core, Model/FfiServer.v + Model/Server.v) against a live C-ABI TCP server driven
with raw request frames (harness ffi_wire), and against the reference server (Spec/Modbus.v) over the same
handler. Properties/C18_System.v and C19_System.v hold the theorems.

Two evaluations in Coq, kept apart on purpose:
  Spec  - Spec/FfiWireSpec.run_wire_spec: reference Modbus server over the database model and the programmable
          application, write results read through Spec/FfiSpec.write_result_spec. It imports NO generated table, so it
          still evaluates when a change to ffi/rodbus-ffi/src/server.rs makes Gen/FfiTables.v impossible to regenerate;
          the implementation is judged against it first (concrete failing scenario).
  Model - Model/FfiWire.run_wire: the composed code model (and the reference server over the C-ABI handler built from
          the regenerated tables); needs Gen/FfiTables.v."""
import re
import vlib

TYPES = {'c': 'Coil', 'd': 'Discrete', 'h': 'Holding', 'i': 'Input'}
FC_READ = {'c': 1, 'd': 2, 'h': 3, 'i': 4}


def be(v):
    return [(v >> 8) & 0xFF, v & 0xFF]


def ops(r, k, idx, focus):
    out = []
    for _ in range(k):
        t = focus if r.random() < 0.6 else r.choice('cdhi')
        i = r.choice(idx)
        v = r.choice([0, 1]) if t in 'cd' else r.choice([0, 1, 255, 256, 65535, r.randrange(65536)])
        kind = r.choices('audg', weights=[6, 3, 2, 2])[0]
        out.append(f'{kind}{t}{i}' + (f'={v}' if kind in 'au' else ''))
    return ';'.join(out)


def gen_case(r, flavour):
    """flavour 'read' favours read requests, 'write' favours write requests"""
    idx = r.sample([0, 1, 2, 3, 5, 7, 8, 9], r.choice([2, 3, 5])) + r.sample([366, 400, 65534, 65535], 1)
    focus = r.choice('cdhi' if flavour == 'read' else 'ch')
    groups = []
    if r.random() < 0.9:
        init = ops(r, r.choice([2, 4, 8]), idx, focus)
        if r.random() < 0.7:
            base, ln = r.choice([0, 1, 5, 65530]), r.choice([2, 6, 17])
            block = [base + k for k in range(ln) if base + k < 65536]
            init = ';'.join(f'a{focus}{a}={(a * 7 + 1) % (2 if focus in "cd" else 65536)}' for a in block) + ';' + init
            idx = idx + block[:3] + [block[0]] * 3
        groups.append('I:' + init)
    for _ in range(r.choice([2, 4, 6, 9])):
        k = r.random()
        who = 'S' if r.random() < 0.9 else 'N'
        if k < 0.15:
            groups.append('T:' + ops(r, r.choice([1, 2, 4]), idx, focus))
        elif k < (0.65 if flavour == 'read' else 0.3):
            t = focus if r.random() < 0.7 else r.choice('cdhi')
            start = r.choice(idx + [0, 0, 1])
            count = r.choice([1, 1, 2, 3, 8, 9, 16, 17])
            if r.random() < 0.08:
                count = r.choice([0, 125, 126, 2000, 2001])           # limits: exception 03 beyond them
            if start + count > 65536 and r.random() < 0.8:
                count = 65536 - start
            pdu = [FC_READ[t]] + be(start) + be(count)
            if r.random() < 0.04:
                pdu = pdu[:r.randrange(1, 5)]                          # truncated
            groups.append(f'X:{who}:' + bytes(pdu).hex().upper())
        elif k < 0.93:
            wk = r.choice(['sc', 'sr', 'mc', 'mr'])
            a = r.choice(idx[:3] + [r.choice(idx), 100 + r.randrange(10), 110 + r.choice([0, 1, 2, 7, 40, 127, 200, 255]), 366, 400, 99])
            if wk == 'sc':
                pdu = [5] + be(a) + r.choice([[0xFF, 0], [0, 0], [0, 0], [0xFF, 0], [0x12, 0x34]])
            elif wk == 'sr':
                pdu = [6] + be(a) + be(r.choice([0, 1, 255, 65535, r.randrange(65536)]))
            elif wk == 'mc':
                n = r.choice([1, 2, 8, 9])
                data = [r.randrange(256) for _ in range((n + 7) // 8)]
                pdu = [15] + be(a) + be(n) + [len(data)] + data
            else:
                n = r.choice([1, 2, 3])
                data = [x for _ in range(n) for x in be(r.choice([0, 1, 65535, r.randrange(65536)]))]
                pdu = [16] + be(a) + be(n) + [len(data)] + data
            if r.random() < 0.04:
                pdu = pdu[:-1]
            groups.append(f'X:{who}:' + bytes(pdu).hex().upper())
        else:
            pdu = r.choice([[0x2B, 0x0E, 1, 0], [0x07], [0x99], [0x83, 2], [0x11], [0x00, 1, 2]])
            groups.append(f'X:{who}:' + bytes(pdu).hex().upper())
    return ' '.join(groups)


def rd(t, a, n=1, who='S'):
    return f'X:{who}:' + bytes([FC_READ[t]] + be(a) + be(n)).hex().upper()


def gen_interleaved(r):
    """update transactions, accepted writes and refused writes (exception from the callback, absent point, failing
    later item, unset callbacks) interleaved, each followed by reads of ALL four point types at the addresses a
    callback or transaction may have changed"""
    null = r.random() < 0.12
    low = r.sample(range(0, 12), r.choice([3, 4, 6]))
    high = r.sample([366, 367, 368, 369, 401, 402, 403, 65533, 65534, 65535], 2)
    pool = low + high
    init = []
    for a in low:
        for t in 'cdhi':
            if r.random() < (0.8 if t in 'ch' else 0.5):
                init.append(f'a{t}{a}={r.choice([0, 1]) if t in "cd" else r.randrange(65536)}')
    r.shuffle(init)
    groups = (['H:null'] if null else []) + ['I:' + ';'.join(init)] if init else (['H:null'] if null else [])
    if init and r.random() < 0.2:
        # the same unit id registered a second time, with another initial database: refused, no effect
        dup = [f'a{t}{a}={r.choice([0, 1]) if t in "cd" else r.randrange(65536)}' for a in r.sample(range(0, 12), 3) for t in r.sample('cdhi', 2)]
        groups.append('J:' + ';'.join(dup))
    touched = []

    def reads(addrs, p=0.8):
        out = []
        for a in addrs:
            for t in 'cdhi':
                if r.random() < p:
                    out.append(rd(t, a))
        if r.random() < 0.3 and addrs:
            a = max(0, min(addrs) - r.choice([0, 1]))
            out.append(rd(r.choice('cdhi'), a, min(r.choice([2, 3, 4]), 65536 - a)))
        return out
    for _ in range(r.choice([2, 3, 4, 6])):
        k = r.random()
        if k < 0.3:
            os_, used = [], []
            for _ in range(r.choice([1, 2, 4])):
                t, a = r.choice('cdhi'), r.choice(pool)
                kind = r.choices('aud', weights=[5, 3, 2])[0]
                v = r.choice([0, 1]) if t in 'cd' else r.choice([0, 1, 65535, r.randrange(65536)])
                os_.append(f'{kind}{t}{a}' + (f'={v}' if kind in 'au' else ''))
                used.append(a)
            if r.random() < 0.35:
                # the transaction callback itself sends a client write to the same unit and waits for it
                a = r.choice(pool + used)
                if r.random() < 0.5:
                    pdu = [6] + be(a) + be(r.choice([1, 65535, r.randrange(65536)]))
                else:
                    pdu = [5] + be(a) + r.choice([[0xFF, 0], [0, 0]])
                groups.append('W:' + ';'.join(os_) + '|' + bytes(pdu).hex().upper())
                used.append(a)
                groups += reads([a] + used[:1], 0.9)
            else:
                groups.append('T:' + ';'.join(os_))
                groups += reads(used[:2], 0.5)
            touched += used
        else:
            refused = r.random() < 0.45
            wk = r.choice(['sc', 'sr', 'mc', 'mr'])
            if refused:
                a = r.choice([100 + r.randrange(10), 110 + r.choice([0, 1, 7, 200, 255]), r.choice([12, 13, 14, 15, 50, 99])])
                if wk in ('mc', 'mr') and r.random() < 0.6:
                    a = 98 if r.random() < 0.5 else 99                 # absent points, then 100.. = callback exceptions
            else:
                a = r.choice(pool)
            if wk == 'sc':
                pdu = [5] + be(a) + r.choice([[0xFF, 0], [0, 0]])
                n = 1
            elif wk == 'sr':
                pdu = [6] + be(a) + be(r.choice([0, 1, 65535, r.randrange(65536)]))
                n = 1
            elif wk == 'mc':
                n = min(r.choice([1, 2, 3, 4]), 65536 - a)
                pdu = [15] + be(a) + be(n) + [1, r.randrange(16)]
            else:
                n = min(r.choice([1, 2, 3, 4]), 65536 - a)
                pdu = [16] + be(a) + be(n) + [2 * n] + [x for _ in range(n) for x in be(r.choice([0, 1, r.randrange(65536)]))]
            groups.append('X:S:' + bytes(pdu).hex().upper())
            span = [a + j for j in range(n) if a + j < 65536]
            groups += reads(span[:2] + (touched[-2:] if refused else []), 0.7)
            touched += span
    final = list(dict.fromkeys(touched + low[:2]))
    r.shuffle(final)
    groups += reads(final[:3], 1.0)
    return ' '.join(groups)


CORPUS = [
    # write callbacks that change the read-only types: coil 1 on -> discrete input 1 added true; register 2 -> input
    # register 2; register 3 -> discrete input 3 and input register 3 deleted; each read back
    'I:ac1=0;ah2=0;ah3=0;ad3=1;ai3=7 X:S:050001FF00 X:S:0200010001 X:S:0100010001 X:S:0600021234 X:S:0400020001 X:S:0300020001 '
    'X:S:0200030001 X:S:0400030001 X:S:0600030005 X:S:0200030001 X:S:0400030001 X:S:0300030001',
    'X:S:0601710007 X:S:0201710001 X:S:0501720000 X:S:0401720001 X:S:0101720001 X:S:10017100020400010002 X:S:0401720001',
    # transactions, then a REFUSED write (callback exception / absent point / later item fails), then reads of all types
    'I:ah0=1 T:ah5=9;ai5=3;ac5=1;ad5=1 X:S:0600640001 X:S:0300050001 X:S:0400050001 X:S:0100050001 X:S:0200050001',
    'I:ah0=1;ac0=0 X:S:0600000002 T:uh0=7;ai6=6;dc0 X:S:0500630000 X:S:0300000001 X:S:0400060001 X:S:0100000001 T:gh0;gi6;gc0',
    'I:ah1=0;ah2=0 T:ad2=1 X:S:100001000306000100020003 X:S:0300010002 X:S:0200010002 X:S:0400020001 X:S:0200020001',
    # a client write sent from INSIDE a transaction callback: served after the whole transaction, both effects stay
    'I:ah0=1 W:uh0=5|0600000009 X:S:0300000001',
    'I:ah0=1;ah1=1 W:uh1=5;ai7=3|0601710009 X:S:0301710001 X:S:0300010001 X:S:0400070001 X:S:0201710001',
    'I:ac2=0 W:ad9=1|050002FF00 X:S:0100020001 X:S:0400020001 X:S:0200090001',
    # the unit id registered twice: the second call is refused and changes nothing
    'I:ah0=5;ac1=1 J:ah0=9;ai3=4 X:S:0300000001 X:S:0400030001 T:gh0;gi3 X:S:0100010001 X:S:0600000007 X:S:0300000001',
    'I:ah0=5 J:ah1=1 J:ah0=6 X:S:0300000001 X:S:0300010001',
    # unset callbacks: exception 01, nothing changes, transactions stay
    'H:null I:ah0=1 T:ah5=9;ad5=1 X:S:0600000002 X:S:0300000001 X:S:0300050001 X:S:0200050001 X:S:0500050000 X:S:0F0005000101FF X:S:10000000010200FF',
    'I:ah0=5;ah1=6;ac0=1 X:S:0300000002 X:S:0300000003 X:S:06000000FF X:S:0300000001 X:S:0600650001 X:S:0600960001 X:S:060170000A X:S:0301700001 '
    'X:N:0300000001 X:N:99 X:S:99 X:S:0500000000 X:S:0100000001 T:gh0;gc0 X:S:10000000020400010002 X:S:0300000002 X:S:0F00000002010300',
    'I:ah65534=8;ah65535=9 X:S:03FFFE0002 X:S:03FFFF0001 X:S:03FFFF0002',
    'I:ac0=0;ac1=0;ac2=0 X:S:0F0000000301FF X:S:0100000003 X:S:0F0000000401FF X:S:0100000003',
    'I:ah1=1 X:S:10000100020400070008 X:S:0300010001 X:S:100064000102000A X:S:10006E000102000A',
]


def op_to_coq(o):
    k, t, rest = o[0], o[1], o[2:]
    if k in 'au':
        i, v = rest.split('=')
        val = f'(VBit {vlib.coq_bool(int(v) != 0)})' if t in 'cd' else f'(VReg {v})'
        return f'{"Add" if k == "a" else "Update"} {TYPES[t]} {i} {val}'
    if k == 'd':
        return f'Delete {TYPES[t]} {rest}'
    return f'Get {TYPES[t]} {rest}'


def to_coq(case):
    items = []
    for g in case.split():
        if g[0] == 'H':
            continue
        if g[0] == 'W':
            # a write sent from inside a transaction callback is served after the whole transaction
            o, hx = g[2:].split('|')
            items.append('IOps [' + '; '.join(op_to_coq(x) for x in o.split(';') if x) + ']')
            items.append(f'IFrame 1 {vlib.coq_N_list(bytes.fromhex(hx))}')
            continue
        if g[0] == 'J':
            items.append('IDup [' + '; '.join(op_to_coq(o) for o in g[2:].split(';') if o) + ']')
            continue
        if g[0] in 'IT':
            items.append('IOps [' + '; '.join(op_to_coq(o) for o in g[2:].split(';') if o) + ']')
        else:
            _, who, hx = g.split(':')
            items.append(f'IFrame {1 if who == "S" else 9} {vlib.coq_N_list(bytes.fromhex(hx))}')
    return f'({vlib.coq_bool("H:null" not in case.split())}, [' + '; '.join(items) + '])'


CT = 'bool * list item'
SPEC_REQ = ['Base.Show', 'Model.DbTypes', 'Spec.FfiWireSpec']
SPEC_FN = 'fun c : bool * list item => run_wire_spec (fst c) (snd c)'
MODEL_REQ = ['Base.Show', 'Model.DbTypes', 'Spec.FfiWireSpec', 'Model.FfiWire']
FN = 'fun c : bool * list item => run_wire (fst c) true (snd c) ++ "|" ++ run_wire (fst c) false (snd c)'


def split_inside(lines):
    """`... cb=3 inside=1` -> ('... cb=3', 1)"""
    out, ins = [], []
    for ln in lines:
        m = re.fullmatch(r'(.*) inside=(\d+)', ln)
        out.append(m.group(1) if m else ln)
        ins.append(int(m.group(2)) if m else 0)
    return out, ins


def expand(case):
    """groups with a W group shown as the transaction followed by the request"""
    for g in case.split():
        if g[0] == 'W':
            o, hx = g[2:].split('|')
            yield 'T:' + o
            yield 'X:S:' + hx
        else:
            yield g


def spec_eval(ctx, cases):
    return ctx.coq_eval(SPEC_REQ, SPEC_FN, [to_coq(c) for c in cases], case_type=CT, preamble='Local Open Scope string_scope.', per_shard=150)


def check_system(ctx, flavour, n, tag):
    """returns (n cases, classes, samples); records obligations / violations under ctx"""
    if ctx.replay and 'cases' in ctx.replay:
        cases = [c[1] for c in ctx.replay['cases'] if c[0] == 'wire']
    else:
        cases = list(CORPUS)
        share = 0.45 if flavour == 'read' else 0.25
        while len(cases) < n:
            cases.append(gen_interleaved(ctx.rng) if ctx.rng.random() < share else gen_case(ctx.rng, flavour))
    if not cases:
        return 0, {}, []
    impl, inside = split_inside(ctx.harness('ffi_wire', cases, timeout=1200))
    # the Spec side must evaluate whatever happened to the generated tables
    rc, out = vlib.coq_make([vlib.vo('Spec.FfiWireSpec')])
    if not ctx.oblige(f'system-spec-compiles({tag})', rc == 0, '' if rc == 0 else str(vlib.parse_coq_error(out) or out[-300:])):
        return len(cases), {}, []
    try:
        spec = spec_eval(ctx, cases)
    except vlib.ModelEvalError as e:
        ctx.oblige(f'system-spec-evaluates({tag})', False, str(e)[:300])
        return len(cases), {}, []
    if getattr(ctx, 'models_ok', True):
        try:
            both = ctx.coq_eval(MODEL_REQ, FN, [to_coq(c) for c in cases], case_type=CT, preamble='Local Open Scope string_scope.', per_shard=150)
        except vlib.ModelEvalError as e:
            ctx.oblige('system-model-evaluates', False, str(e)[:300])
            both = [None] * len(cases)
    else:
        both = [None] * len(cases)
    bad = 0
    classes = {'read-values': 0, 'read-exception-02': 0, 'write-echo': 0, 'write-exception': 0, 'exception-01-03': 0, 'silence': 0,
               'read-after-refused-write': 0, 'read-of-read-only-type-after-accepted-write': 0, 'unset-callback': 0, 'transaction-then-refused-write': 0}
    classes['write-sent-inside-transaction'] = 0
    for c, i, sp, b, ins in zip(cases, impl, spec, both, inside):
        toks = i.split(';')
        pos = 0
        null = 'H:null' in c.split()
        last_write = None                     # 'ok' / 'refused' : outcome of the latest write request seen
        txn_pending = False
        classes['write-sent-inside-transaction'] += sum(1 for g in c.split() if g[0] == 'W')
        for g in expand(c):
            if g[0] == 'H':
                continue
            if g[0] == 'J':
                pos += 1
                classes['duplicate-registration'] = classes.get('duplicate-registration', 0) + 1
                continue
            if g[0] in 'IT':
                pos += len([o for o in g[2:].split(';') if o])
                txn_pending = txn_pending or g[0] == 'T'
                continue
            tok = toks[pos] if pos < len(toks) else ''
            pos += 1
            if tok == '-':
                classes['silence'] += 1
            elif len(tok) >= 18 and all(ch in '0123456789ABCDEF' for ch in tok):
                fc, code = int(tok[14:16], 16), int(tok[16:18], 16)
                if fc & 0x7F in (5, 6, 15, 16) and not (fc & 0x80 and code == 3):
                    last_write = 'refused' if fc & 0x80 else 'ok'
                    if fc & 0x80 and txn_pending:
                        classes['transaction-then-refused-write'] += 1
                    if not fc & 0x80:
                        txn_pending = False
                    if null and fc & 0x80 and code == 1:
                        classes['unset-callback'] += 1
                if fc & 0x7F in (1, 2, 3, 4) and not (fc & 0x80 and code == 3):
                    if last_write == 'refused':
                        classes['read-after-refused-write'] += 1
                    if last_write == 'ok' and fc & 0x7F in (2, 4):
                        classes['read-of-read-only-type-after-accepted-write'] += 1
                if fc & 0x80:
                    if fc & 0x7F in (1, 2, 3, 4) and code == 2:
                        classes['read-exception-02'] += 1
                    elif fc & 0x7F in (5, 6, 15, 16) and code != 3:
                        classes['write-exception'] += 1
                    else:
                        classes['exception-01-03'] += 1
                elif fc in (1, 2, 3, 4):
                    classes['read-values'] += 1
                else:
                    classes['write-echo'] += 1
        model, ref = b.split('|') if b is not None else (None, None)
        if i != sp:
            bad += 1
            if bad == 1:
                def differs(cs):
                    im = split_inside(ctx.harness('ffi_wire', cs, timeout=600))[0]
                    return [x != y for x, y in zip(im, spec_eval(ctx, cs))]

                def cands(case):
                    gs = case.split()
                    for k in range(len(gs)):
                        if len(gs) > 1:
                            yield ' '.join(gs[:k] + gs[k + 1:])
                    for k, g in enumerate(gs):
                        if g[0] in 'IT':
                            os_ = [o for o in g[2:].split(';') if o]
                            for j in range(len(os_)):
                                rest = os_[:j] + os_[j + 1:]
                                if rest:
                                    yield ' '.join(gs[:k] + [g[:2] + ';'.join(rest)] + gs[k + 1:])
                try:
                    c = vlib.shrink_batch(c, differs, cands)
                    (i,), (ins,) = split_inside(ctx.harness('ffi_wire', [c], timeout=600))
                    sp = spec_eval(ctx, [c])[0]
                    model = None
                    if b is not None:
                        model = ctx.coq_eval(MODEL_REQ, FN, [to_coq(c)], case_type=CT, preamble='Local Open Scope string_scope.')[0].split('|')[0]
                except Exception:
                    pass
                ii, rr = i.split(';'), sp.split(';')
                pos = next((k for k in range(min(len(ii), len(rr))) if ii[k] != rr[k]), min(len(ii), len(rr)))
                got = ii[pos] if pos < len(ii) else '(missing)'
                want = rr[pos] if pos < len(rr) else '(missing)'
                note = ''
                if ins:
                    note = (' (the write request sent from inside the update_database callback was ANSWERED while the transaction was still running: '
                            'the handler was not locked during the transaction)')
                ctx.violation(f'c-abi-server-wire-reply.{tag}', f'C-ABI TCP server, scenario `{c}`: output #{pos + 1} on the wire is {got}, the reference Modbus server over the C-ABI database and the application\'s callbacks gives {want}{note}',
                              {'cases': [['wire', c]], 'impl': i, 'spec': sp, 'model': model, 'answered_inside_transaction': ins})
        elif ins:
            bad += 1
            if bad <= 2:
                ctx.violation(f'write-served-inside-transaction.{tag}', f'C-ABI TCP server, scenario `{c}`: {ins} write request(s) sent from inside the rodbus_server_update_database callback were answered '
                              'while the transaction was still running (a transaction is one critical section of the unit: the request must wait for it)',
                              {'cases': [['wire', c]], 'impl': i + f' inside={ins}', 'spec': sp + ' inside=0', 'model': model})
        elif b is not None and (i != model or i != ref):
            bad += 1
            if bad <= 3:
                ctx.violation(f'composed-model-differs-from-impl.{tag}', f'{c}: composed model {model}, reference server over the regenerated C-ABI handler {ref}, implementation and Spec {sp}',
                              {'cases': [['wire', c]], 'impl': i, 'spec': sp, 'model': model}, no_failing_input=True)
    ctx.oblige(f'correspondence:c-abi-server-wire-level({tag})', bad == 0, f'{bad} disagreements on {len(cases)} scenarios')
    if not ctx.replay:
        missing = [k for k, v in classes.items() if v < 5]
        if missing:
            ctx.oblige(f'system-generator-reaches-expected-classes({tag})', False, f'{missing} {classes}')
    return len(cases), classes, [[c, i] for c, i in list(zip(cases, impl))[:2]]
