"""Shared by c18.py and c19.py: correspondence for the COMPOSED model (C-ABI RequestHandlerWrapper as an
instance of the server core, Model/FfiServer.v + Model/Server.v) against a live C-ABI TCP server driven
with raw request frames (harness ffi_wire), and against the reference server (Spec/Modbus.v) over the same
handler. Properties/C18_System.v and C19_System.v hold the theorems."""
import vlib

TYPES = {'c': 'Coil', 'd': 'Discrete', 'h': 'Holding', 'i': 'Input'}
FC_READ = {'c': 1, 'd': 2, 'h': 3, 'i': 4}


def be(v):
    return [(v >> 8) & 0xFF, v & 0xFF]


def ops(r, k, idx, focus):
    out = []
    for _ in range(k):
        t = focus if r.random() < 0.6 else r.choice('cdhi')
        i = r.choice(idx)
        v = r.choice([0, 1]) if t in 'cd' else r.choice([0, 1, 255, 256, 65535, r.randrange(65536)])
        kind = r.choices('audg', weights=[6, 3, 2, 2])[0]
        out.append(f'{kind}{t}{i}' + (f'={v}' if kind in 'au' else ''))
    return ';'.join(out)


def gen_case(r, flavour):
    """flavour 'read' favours read requests, 'write' favours write requests"""
    idx = r.sample([0, 1, 2, 3, 5, 7, 8, 9], r.choice([2, 3, 5])) + r.sample([366, 400, 65534, 65535], 1)
    focus = r.choice('cdhi' if flavour == 'read' else 'ch')
    groups = []
    if r.random() < 0.9:
        init = ops(r, r.choice([2, 4, 8]), idx, focus)
        if r.random() < 0.7:
            base, ln = r.choice([0, 1, 5, 65530]), r.choice([2, 6, 17])
            block = [base + k for k in range(ln) if base + k < 65536]
            init = ';'.join(f'a{focus}{a}={(a * 7 + 1) % (2 if focus in "cd" else 65536)}' for a in block) + ';' + init
            idx = idx + block[:3] + [block[0]] * 3
        groups.append('I:' + init)
    for _ in range(r.choice([2, 4, 6, 9])):
        k = r.random()
        who = 'S' if r.random() < 0.9 else 'N'
        if k < 0.15:
            groups.append('T:' + ops(r, r.choice([1, 2, 4]), idx, focus))
        elif k < (0.65 if flavour == 'read' else 0.3):
            t = focus if r.random() < 0.7 else r.choice('cdhi')
            start = r.choice(idx + [0, 0, 1])
            count = r.choice([1, 1, 2, 3, 8, 9, 16, 17])
            if r.random() < 0.08:
                count = r.choice([0, 125, 126, 2000, 2001])           # limits: exception 03 beyond them
            if start + count > 65536 and r.random() < 0.8:
                count = 65536 - start
            pdu = [FC_READ[t]] + be(start) + be(count)
            if r.random() < 0.04:
                pdu = pdu[:r.randrange(1, 5)]                          # truncated
            groups.append(f'X:{who}:' + bytes(pdu).hex().upper())
        elif k < 0.93:
            wk = r.choice(['sc', 'sr', 'mc', 'mr'])
            a = r.choice(idx[:3] + [r.choice(idx), 100 + r.randrange(10), 110 + r.choice([0, 1, 2, 7, 40, 127, 200, 255]), 366, 400, 99])
            if wk == 'sc':
                pdu = [5] + be(a) + r.choice([[0xFF, 0], [0, 0], [0, 0], [0xFF, 0], [0x12, 0x34]])
            elif wk == 'sr':
                pdu = [6] + be(a) + be(r.choice([0, 1, 255, 65535, r.randrange(65536)]))
            elif wk == 'mc':
                n = r.choice([1, 2, 8, 9])
                data = [r.randrange(256) for _ in range((n + 7) // 8)]
                pdu = [15] + be(a) + be(n) + [len(data)] + data
            else:
                n = r.choice([1, 2, 3])
                data = [x for _ in range(n) for x in be(r.choice([0, 1, 65535, r.randrange(65536)]))]
                pdu = [16] + be(a) + be(n) + [len(data)] + data
            if r.random() < 0.04:
                pdu = pdu[:-1]
            groups.append(f'X:{who}:' + bytes(pdu).hex().upper())
        else:
            pdu = r.choice([[0x2B, 0x0E, 1, 0], [0x07], [0x99], [0x83, 2], [0x11], [0x00, 1, 2]])
            groups.append(f'X:{who}:' + bytes(pdu).hex().upper())
    return ' '.join(groups)


CORPUS = [
    'I:ah0=5;ah1=6;ac0=1 X:S:0300000002 X:S:0300000003 X:S:06000000FF X:S:0300000001 X:S:0600650001 X:S:0600960001 X:S:060170000A X:S:0301700001 '
    'X:N:0300000001 X:N:99 X:S:99 X:S:0500000000 X:S:0100000001 T:gh0;gc0 X:S:10000000020400010002 X:S:0300000002 X:S:0F00000002010300',
    'I:ah65534=8;ah65535=9 X:S:03FFFE0002 X:S:03FFFF0001 X:S:03FFFF0002',
    'I:ac0=0;ac1=0;ac2=0 X:S:0F0000000301FF X:S:0100000003 X:S:0F0000000401FF X:S:0100000003',
    'I:ah1=1 X:S:10000100020400070008 X:S:0300010001 X:S:100064000102000A X:S:10006E000102000A',
]


def op_to_coq(o):
    k, t, rest = o[0], o[1], o[2:]
    if k in 'au':
        i, v = rest.split('=')
        val = f'(VBit {vlib.coq_bool(int(v) != 0)})' if t in 'cd' else f'(VReg {v})'
        return f'{"Add" if k == "a" else "Update"} {TYPES[t]} {i} {val}'
    if k == 'd':
        return f'Delete {TYPES[t]} {rest}'
    return f'Get {TYPES[t]} {rest}'


def to_coq(case):
    items = []
    for g in case.split():
        if g[0] in 'IT':
            items.append('IOps [' + '; '.join(op_to_coq(o) for o in g[2:].split(';') if o) + ']')
        else:
            _, who, hx = g.split(':')
            items.append(f'IFrame {1 if who == "S" else 9} {vlib.coq_N_list(bytes.fromhex(hx))}')
    return '[' + '; '.join(items) + ']'


FN = 'fun items : list item => run_wire true items ++ "|" ++ run_wire false items'


def check_system(ctx, flavour, n, tag):
    """returns (n cases, classes); records obligations / violations under ctx"""
    if ctx.replay and 'cases' in ctx.replay:
        cases = [c[1] for c in ctx.replay['cases'] if c[0] == 'wire']
    else:
        cases = list(CORPUS)
        while len(cases) < n:
            cases.append(gen_case(ctx.rng, flavour))
    if not cases:
        return 0, {}, []
    impl = ctx.harness('ffi_wire', cases, timeout=1200)
    if getattr(ctx, 'models_ok', True):
        try:
            both = ctx.coq_eval(['Base.Show', 'Model.DbTypes', 'Model.FfiWire'], FN, [to_coq(c) for c in cases], case_type='list item',
                                preamble='Local Open Scope string_scope.', per_shard=150)
        except vlib.ModelEvalError as e:
            ctx.oblige('system-model-evaluates', False, str(e)[:300])
            both = [None] * len(cases)
    else:
        both = [None] * len(cases)
    bad = 0
    classes = {'read-values': 0, 'read-exception-02': 0, 'write-echo': 0, 'write-exception': 0, 'exception-01-03': 0, 'silence': 0}
    for c, i, b in zip(cases, impl, both):
        toks = i.split(';')
        pos = 0
        for g in c.split():
            if g[0] in 'IT':
                pos += len([o for o in g[2:].split(';') if o])
                continue
            tok = toks[pos] if pos < len(toks) else ''
            pos += 1
            if tok == '-':
                classes['silence'] += 1
            elif len(tok) >= 18 and all(ch in '0123456789ABCDEF' for ch in tok):
                fc, code = int(tok[14:16], 16), int(tok[16:18], 16)
                if fc & 0x80:
                    if fc & 0x7F in (1, 2, 3, 4) and code == 2:
                        classes['read-exception-02'] += 1
                    elif fc & 0x7F in (5, 6, 15, 16) and code != 3:
                        classes['write-exception'] += 1
                    else:
                        classes['exception-01-03'] += 1
                elif fc in (1, 2, 3, 4):
                    classes['read-values'] += 1
                else:
                    classes['write-echo'] += 1
        if b is None:
            continue
        model, ref = b.split('|')
        if i != ref:
            bad += 1
            if bad == 1:
                def differs(cs):
                    im = ctx.harness('ffi_wire', cs, timeout=600)
                    bo = ctx.coq_eval(['Base.Show', 'Model.DbTypes', 'Model.FfiWire'], FN, [to_coq(x) for x in cs], case_type='list item',
                                      preamble='Local Open Scope string_scope.', per_shard=150)
                    return [x != y.split('|')[1] for x, y in zip(im, bo)]

                def cands(case):
                    gs = case.split()
                    for k in range(len(gs)):
                        if len(gs) > 1:
                            yield ' '.join(gs[:k] + gs[k + 1:])
                    for k, g in enumerate(gs):
                        if g[0] in 'IT':
                            os_ = [o for o in g[2:].split(';') if o]
                            for j in range(len(os_)):
                                rest = os_[:j] + os_[j + 1:]
                                if rest:
                                    yield ' '.join(gs[:k] + [g[:2] + ';'.join(rest)] + gs[k + 1:])
                try:
                    c = vlib.shrink_batch(c, differs, cands)
                    i = ctx.harness('ffi_wire', [c], timeout=600)[0]
                    model, ref = ctx.coq_eval(['Base.Show', 'Model.DbTypes', 'Model.FfiWire'], FN, [to_coq(c)], case_type='list item',
                                              preamble='Local Open Scope string_scope.')[0].split('|')
                except Exception:
                    pass
            if bad <= 1:
                ii, rr = i.split(';'), ref.split(';')
                pos = next((k for k in range(min(len(ii), len(rr))) if ii[k] != rr[k]), min(len(ii), len(rr)))
                got = ii[pos] if pos < len(ii) else '(missing)'
                want = rr[pos] if pos < len(rr) else '(missing)'
                ctx.violation(f'c-abi-server-wire-reply.{tag}', f'C-ABI TCP server, scenario `{c}`: output #{pos + 1} on the wire is {got}, the reference Modbus server over the C-ABI handler gives {want}',
                              {'cases': [['wire', c]], 'impl': i, 'spec': ref, 'model': model})
        elif i != model:
            bad += 1
            if bad <= 3:
                ctx.violation(f'composed-model-differs-from-impl.{tag}', f'{c}: composed model {model}, implementation and reference {ref}',
                              {'cases': [['wire', c]], 'impl': i, 'spec': ref, 'model': model}, no_failing_input=True)
    ctx.oblige(f'correspondence:c-abi-server-wire-level({tag})', bad == 0, f'{bad} disagreements on {len(cases)} scenarios')
    if not ctx.replay:
        missing = [k for k, v in classes.items() if v < 5]
        if missing:
            ctx.oblige(f'system-generator-reaches-expected-classes({tag})', False, f'{missing} {classes}')
    return len(cases), classes, [[c, i] for c, i in list(zip(cases, impl))[:2]]
