"""C13 for TLS channels (called from c13.py; a separate file so that C13's own check stays p4's).

The real `spawn_tls_client_task` on loopback (harness `tlscycle`), a recording Listener that holds the task at every
Connecting, against scripted peers: refused / accepts and closes / a real rodbus TLS server of another authority / a
real rodbus TLS server the client accepts (then stopped) / a peer that accepts, reads the ClientHello and stays silent
while a request, a disable or a shutdown arrives.  Judged:
 * the whole listener path by Spec/TlsLifecycleSpec.v `judge`, evaluated in Coq: a legal path of C13's automaton
   (Spec/Lifecycle.v `legal`, `shutdown_last`) whose kinds are the expected ones - Connected only for attempts whose
   handshake was completed, the failed-connect wait after a failed handshake, Disabled / Shutdown directly after the
   Connecting of a pending handshake (theorems about the expected paths: Properties/C13_Tls.v);
 * requests: while the handshake is pending a request fails with NoConnection BEFORE the peer closes; through an
   established connection it is answered;
 * termination: after shutdown the listener was told Shutdown and the handle reports Shutdown;
 * the same scenario through the composed client front-end model (Model/ClientFront.v = p4's client task model with
   the TLS handshake in front, theorems in Properties/C09_ClientFront.v): identical listener path, delays included.
Orders and lower bounds only: nothing depends on how long anything takes (the silent peer waits 600 ms before closing).
"""
import os
import vlib

MS = 10**6
SPEC_REQ = ['Base.Show', 'Spec.Lifecycle', 'Spec.TlsLifecycleSpec']
MODEL_REQ = SPEC_REQ + ['Gen.SessionErrors', 'Model.ClientTask', 'Spec.TlsSpec', 'Gen.TlsVersions', 'Gen.TlsModes', 'Model.ClientFront']
SHOW_KINDS = ('(fun k => match k with KDisabled => "lD" | KConnecting => "lC" | KConnected => "lN" | KWaitFailed => "lF" | KWaitDisc => "lW" | KShutdown => "lS" end)')
SPEC_T = 'list attempt * list cstate'
SPEC_FN = ('fun c : list attempt * list cstate => let \'(l, p) := c in show_bool (judge l p) ++ "|" ++ show_list ' + SHOW_KINDS + ' " " (expected_path l) ++ "|" ++ '
           'show_list (fun q => match q with QFailsFastNoConnection => "NoConnection@parked" | QAnswered => "ok" end) " " (expected_requests l)')
MODEL_T = 'N * N * list cevent'
MODEL_FN = ('fun c : N * N * list cevent => let \'(mn, mx, evs) := c in '
            'show_list (fun l => match l with LDisabled => "lD" | LConnecting => "lC" | LConnected => "lN" | LWaitFailed d => "lF" ++ show_N d | LWaitDisc d => "lW" ++ show_N d | LShutdown => "lS" end) " " '
            '(LDisabled :: listens_of (snd (crun {| cfg_cap := 8%nat; cfg_res := 1 |} (CTls V1_2 AuthorityBased true) (cinit 1 None mn mx) evs)))')
SRV_GOOD = ('(SrvTls {| offers12 := true; offers13 := true; presented := {| chains_to_authority := true; identical_to_configured := false; '
            'within_validity := true; name_matches := true; cert_exts := None |} |})')
SRV_BAD = SRV_GOOD.replace('chains_to_authority := true', 'chains_to_authority := false')

ITEMS = ['r', 'c', 'w', 'h', 'a', 'tN', 'tQ', 'tD', 'tS']
ATTEMPT = {'r': 'ARefused', 'c': 'AHandshakeFails', 'w': 'AHandshakeFails', 'h': 'AEstablished false', 'a': 'AEstablished true',
           'tN': 'AHandshakePending MNothing', 'tQ': 'AHandshakePending MRequest', 'tD': 'AHandshakePending MDisable', 'tS': 'AHandshakePending MShutdown'}
FIXED = [['r'], ['c'], ['w'], ['h'], ['a'], ['tN'], ['tQ'], ['tD'], ['tS'], ['r', 'c', 'w', 'h'], ['a', 'tN'], ['tQ', 'r'], ['tD', 'h'], ['r', 'tS'],
         ['h', 'a', 'tD', 'tQ', 'tN', 'w'], ['tD', 'tD', 'tS'], ['w', 'tQ', 'a', 'tS'], ['c', 'c', 'tD', 'c'], ['h', 'tS'], ['tQ', 'tQ', 'h']]
LEGEND = ('r=refused c=accepted+closed w=TLS server of another authority h=accepted TLS server, then stopped a=like h with a request served '
          'tN/tQ/tD/tS=peer accepts, reads the ClientHello and stays silent 600 ms while nothing / a request / disable+enable / shutdown happens')


def certs():
    return os.path.join(vlib.REPO, 'certs', 'ca_chain') + ':' + os.path.join(vlib.ROOT, 'certs', 'ca2')


def cstate_coq(t):
    return {'lD': 'LDisabled', 'lC': 'LConnecting', 'lN': 'LConnected', 'lS': 'LShutdown'}.get(t[:2]) or (('LWaitFailed ' if t[:2] == 'lF' else 'LWaitDisc ') + t[2:])


def events(items, mx):
    """the scenario as events of the composed client front-end model"""
    wait_end = [f'CE (EvTick {mx * MS + MS})', 'CE EvTimer']
    evs = ['CE (EvSubmit CEnable SFuture)', 'CE EvRecv']
    rid = 0
    for it in items:
        if it == 'r':
            evs += ['CTcp false SrvCloses'] + wait_end
        elif it == 'c':
            evs += ['CTcp true SrvCloses', 'CHandshake'] + wait_end
        elif it == 'w':
            evs += [f'CTcp true {SRV_BAD}', 'CHandshake'] + wait_end
        elif it in ('h', 'a'):
            evs += [f'CTcp true {SRV_GOOD}', 'CHandshake']
            if it == 'a':
                rid += 1
                evs += [f'CE (EvSubmit (CReq {{| rq_id := {rid}%nat; rq_kind := KRead; rq_timeout := {3000 * MS} |}}) SFuture)', 'CE EvRecv', 'CE (EvFrame 0 RpGenuine)']
            evs += ['CE EvEof'] + wait_end
        elif it == 'tN':
            evs += ['CTcp true SrvCloses', f'CE (EvTick {600 * MS})', 'CHandshake'] + wait_end      # silent, then closes: the handshake fails
        elif it == 'tQ':
            rid += 1
            evs += ['CTcp true SrvCloses', f'CE (EvSubmit (CReq {{| rq_id := {rid}%nat; rq_kind := KRead; rq_timeout := {5000 * MS} |}}) SFuture)', 'CE EvRecv',
                    f'CE (EvTick {600 * MS})', 'CHandshake'] + wait_end
        elif it == 'tD':
            evs += ['CTcp true SrvStalls', 'CE (EvSubmit CDisable SFuture)', 'CE EvRecv', 'CE (EvSubmit CEnable SFuture)', 'CE EvRecv']
        elif it == 'tS':
            evs += ['CTcp true SrvStalls', 'CE (EvSubmit CShutdown SFuture)', 'CE EvRecv']
            return evs
    # a script without tS ends with one: the attempt after the last wait meets a silent peer, then shutdown
    return evs + ['CTcp true SrvStalls', 'CE (EvSubmit CShutdown SFuture)', 'CE EvRecv']


def gen(r, n):
    cases = [(20, 40, list(x)) for x in FIXED]
    while len(cases) < n:
        mn, mx = r.choice([(20, 40), (10, 10), (15, 100), (5, 40)])
        k = r.choice([1, 2, 3, 4, 5])
        items = [r.choice(ITEMS[:-1]) for _ in range(k)]
        if r.random() < 0.3:
            items.append('tS')
        cases.append((mn, mx, items))
    return cases


def evaluate(ctx, cases, model_ok):
    impl = ctx.harness('tlscycle', [f'{certs()} {mn} {mx} {"".join(items)}' for mn, mx, items in cases], shards=4, timeout=900)
    spec_in = []
    for (mn, mx, items), i in zip(cases, impl):
        path = i.split('|')[0].split() if i.count('|') == 2 else []
        ok = all(t[:2] in ('lD', 'lC', 'lN', 'lS', 'lF', 'lW') and (t[:2] not in ('lF', 'lW') or t[2:].isdigit()) for t in path)
        spec_in.append(f'([{"; ".join(ATTEMPT[x] for x in items)}], [{"; ".join(cstate_coq(t) for t in path) if ok else ""}])')
    spec = ctx.coq_eval(SPEC_REQ, SPEC_FN, spec_in, case_type=SPEC_T, preamble='Local Open Scope string_scope.', per_shard=60)
    model = [None] * len(cases)
    if model_ok:
        model = ctx.coq_eval(MODEL_REQ, MODEL_FN, [f'({mn * MS}, {mx * MS}, [{"; ".join(events(items, mx))}])' for mn, mx, items in cases], case_type=MODEL_T,
                             preamble='Local Open Scope string_scope.', per_shard=40)
    return impl, spec, model


def judge(case, i, s, m):
    """None, or (key, description, concrete)"""
    if i.count('|') != 2:
        return ('C13.tls.unusable-result', f'harness result {i}', True)
    path, reqs, end = i.split('|')
    verdict, want_kinds, want_reqs = s.split('|')
    kinds = ' '.join(t[:2] for t in path.split())
    if verdict != '1':
        got, want = kinds.split(), want_kinds.split()
        k = next((j for j, (a, b) in enumerate(zip(got, want)) if a != b), min(len(got), len(want)))
        g = got[k] if k < len(got) else 'end'
        w = want[k] if k < len(want) else 'end'
        if g == 'lN':
            key = 'C13.tls.connected-announced-before-the-handshake-completed'
        elif w == 'lS':
            key = 'C13.tls.shutdown-not-honoured-while-the-handshake-is-pending'
        elif w == 'lD':
            key = 'C13.tls.disable-not-honoured-while-the-handshake-is-pending'
        elif w == 'lF':
            key = 'C13.tls.no-failed-connect-wait-after-a-failed-handshake'
        else:
            key = 'C13.tls.illegal-listener-path'
        return (key, f'the listener was told {kinds} but the Spec (C13 automaton + TLS clauses) requires {want_kinds}', True)
    if reqs != want_reqs:
        return ('C13.tls.request-during-pending-handshake-does-not-fail-fast' if 'late' in reqs or 'pending' in reqs else 'C13.tls.request-results-differ',
                f'request results {reqs or "-"} but the Spec requires {want_reqs or "-"}', True)
    if end != 'done':
        return ('C13.tls.task-did-not-end-after-shutdown', f'after Channel::shutdown(): {end}', True)
    if m is not None and m != path:
        return ('C13.tls.client-front-model-differs-from-impl', f'the listener was told {path} but the composed client front-end model gives {m}', False)
    return None


def shrink_candidates(c):
    mn, mx, items = c
    for k in range(len(items) - 1, -1, -1):
        yield (mn, mx, items[:k] + items[k + 1:])


def run_tls(ctx):
    """the TLS part of C13's check; replay key: tls_cases"""
    ok_spec = ctx.build_models(['Spec.TlsLifecycleSpec'])
    model_ok = bool(ctx.translate(['SessionErrors.v', 'TlsVersions.v', 'TlsModes.v'])) and ctx.build_models(['Model.ClientFront'])
    if not ok_spec:
        return
    if ctx.replay and 'tls_cases' in ctx.replay:
        cases = [(c[0], c[1], list(c[2])) for c in ctx.replay['tls_cases']]
    elif ctx.replay:
        return
    else:
        cases = gen(ctx.rng, 40 if ctx.quick() else 200)
    impl, spec, model = evaluate(ctx, cases, model_ok)
    bad = 0
    for c, i, s, m in zip(cases, impl, spec, model):
        j = judge(c, i, s, m)
        if not j:
            continue
        bad += 1
        if bad > 2:
            continue
        key = j[0]

        def fails(xs, key=key):
            im, sp, mo = evaluate(ctx, xs, model_ok)
            return [(judge(x, a, b, d) or ('',))[0] == key for x, a, b, d in zip(xs, im, sp, mo)]
        small = vlib.shrink_batch(c, fails, shrink_candidates, rounds=6, width=8)
        im, sp, mo = evaluate(ctx, [small], model_ok)
        js = judge(small, im[0], sp[0], mo[0])
        if not js or js[0] != key:
            small, im, sp, mo, js = c, [i], [s], [m], j
        ctx.violation(key, f'TLS client channel (spawn_tls_client_task), retry {small[0]}..{small[1]} ms, connect attempts "{" ".join(small[2])}" ({LEGEND}): {js[1]}',
                      {'tls_cases': [[small[0], small[1], small[2]]], 'impl': im[0], 'spec': sp[0], 'model': mo[0], 'original_case': [c[0], c[1], c[2]]},
                      no_failing_input=not js[2])
    ctx.oblige('loopback:real-tls-client-task-scenarios', bad == 0, f'{bad} of {len(cases)} scenarios')
    cls = {k: sum(k in c[2] for c in cases) for k in ITEMS}
    cls['with_connected'] = sum('lN' in i for i in impl)
    cls['model_compared'] = sum(m is not None for m in model)
    if not ctx.replay:
        ctx.oblige('tls-lifecycle-generator-reaches-expected-classes', all(cls[k] >= 3 for k in ITEMS) and cls['with_connected'] >= 5, str(cls))
    ctx.coverage['tls_channel_lifecycle'] = {
        'scenarios': len(cases), 'input_classes': cls,
        'rule': 'scenario = (retry min/max ms, one item per connect attempt: ' + LEGEND + '); fixed list, then seeded PRNG; compared: the whole listener path with '
                'Spec/TlsLifecycleSpec.v judge (C13 automaton legal + expected kinds) in Coq, request outcomes, termination, and the composed client front-end model path',
        'samples': [[c[0], c[1], ''.join(c[2]), i] for c, i in list(zip(cases, impl))[:3]],
    }
