"""C20 - Protocol decoding (logging) is purely observational.

Theorems (Properties/C20.v): in the log language (level-independent steps, level-guarded
log-only blocks, level changes) observables are independent of the level and of level changes at
arbitrary positions; the generated inventory Gen/DecodeUses.v shows every control-flow use of a
decode level in rodbus/src is such a construct.
Correspondence: the real server session and client loop are run on the same scripted streams at
level `nothing` (the reference), at the highest level, at random levels, and with level-change
commands injected between read chunks (mid-frame included); wire bytes, handler invocations,
request results, session end and shutdown behaviour must be identical.
"""
import vlib
import fuzzgen as fg

ALL_LEVELS = [f'{a}{f}{p}' for a in range(4) for f in range(3) for p in range(3)]


def observable(line):
    """the fields of a fuzz output line that the property calls observable (everything but counters of reads)"""
    if not line.startswith('ok'):
        return line
    kv = dict(x.split('=', 1) for x in line.split()[1:])
    return ' '.join(f'{k}={kv.get(k)}' for k in ('end', 'alive_after', 'shutdown_ok', 'request_completed', 'out', 'calls', 'res'))


def variants(r, role, framing, chunks, quick):
    toks = [fg.hexs(c) for c in chunks]
    base = f'{role} {framing} 000 ' + ' '.join(toks)
    vs = [(f'{role} {framing} 322 ' + ' '.join(toks), 'max')]
    vs.append((f'{role} {framing} {r.choice(ALL_LEVELS)} ' + ' '.join(toks), 'random-level'))
    positions = list(range(len(toks) + 1))
    if quick and len(positions) > 3:
        positions = sorted(r.sample(positions, 3))
    for p in positions:
        lv = r.choice(['322', '000', '311', r.choice(ALL_LEVELS)])
        start = r.choice(['000', '322'])
        vs.append((f'{role} {framing} {start} ' + ' '.join(toks[:p] + ['@L' + lv] + toks[p:]), f'change@{p}/{len(toks)}'))
    return base, vs


def run(ctx):
    ctx.translate(['DecodeUses.v'])
    ctx.build_models(['Model.LogLang'])
    ctx.prove()
    if ctx.tier == 'thorough':
        ctx.coqchk()
    if not ctx.build_harness():
        return
    r = ctx.rng
    groups = []
    if ctx.replay and 'cases' in ctx.replay:
        for base, var in ctx.replay['cases']:
            groups.append((base, [(var, 'replay')]))
    else:
        n = 2500 if ctx.quick() else 30000
        while len(groups) < n:
            role = r.choice(['server', 'client'])
            framing = r.choice(['tcp', 'rtu'])
            data, desc = fg.stream(r, role, framing)
            chunks = fg.chunk(r, data, style=r.choice(['rand', 'rand', 'header', 'all', 'edge', 'bytes'] if len(data) < 40 else ['rand', 'rand', 'header', 'all', 'edge']))
            if not chunks:
                continue
            groups.append(variants(r, role, framing, chunks, ctx.quick()))
    lines = []
    for base, vs in groups:
        lines.append(base)
        lines.extend(v for v, _ in vs)
    out = ctx.harness('fuzz', lines, shards=vlib.NPROC, timeout=1500)
    i = 0
    diffs = 0
    kinds = {}
    nontrivial = set()
    for base, vs in groups:
        ref = observable(out[i])
        if 'out=-' not in ref or 'calls=-' not in ref:
            nontrivial.add(base)
        i += 1
        for v, kind in vs:
            got = observable(out[i])
            i += 1
            k = kind.split('@')[0]
            kinds[k] = kinds.get(k, 0) + 1
            if got != ref:
                diffs += 1
                if diffs <= 3:
                    role, framing = base.split()[:2]
                    ctx.violation(f'{role}.{framing}.{k}.observable-differs',
                                  f'{kind}: observable behaviour differs from the run at level nothing',
                                  {'cases': [[base, v]], 'reference(level nothing)': ref, 'got': got})
    ctx.oblige('correspondence:levels-and-level-changes-unobservable', diffs == 0, f'{diffs} differing runs')
    ctx.coverage.update({
        'evaluations': len(lines),
        'distinct_nontrivial': len(nontrivial),
        'rule': 'groups = one scripted stream (valid / mutated / badly framed frames or raw bytes, chunked) run at level nothing plus variants: highest level, a random level, and a level-change command injected at chunk positions (quick: 3 random positions; thorough: every position); non-trivial = the reference run produced wire output or handler calls; distinct by stream',
        'samples': [[groups[0][0][:160], groups[0][1][-1][0][:160], out[0][:200]]],
        'input_classes': kinds,
        'groups': len(groups),
        'exhaustive': False,
    })
