"""C20 - Protocol decoding (logging) is purely observational.

Theorems (Properties/C20.v): in the log language (level-independent steps, level-guarded
log-only blocks, level changes) observables are independent of the level and of level changes at
arbitrary positions; the generated inventory Gen/DecodeUses.v shows every control-flow use of a
decode level in rodbus/src is such a construct.
Correspondence: the real server session and client loop are run on the same scripted streams at
level `nothing` (the reference), at the highest level, at random levels, and with level-change
commands injected between read chunks (mid-frame included); wire bytes, handler invocations,
request results, session end and shutdown behaviour must be identical.
"""
import re

import vlib
import fuzzgen as fg

ALL_LEVELS = [f'{a}{f}{p}' for a in range(4) for f in range(3) for p in range(3)]
TLS_DIR = __import__('os').path.join(vlib.REPO, 'certs', 'ca_chain')


def observable(line):
    """the fields of a fuzz output line that the property calls observable (everything but counters of reads)"""
    if not line.startswith('ok'):
        return line
    kv = dict(x.split('=', 1) for x in line.split()[1:])
    return ' '.join(f'{k}={kv.get(k)}' for k in ('end', 'alive_after', 'shutdown_ok', 'request_completed', 'out', 'calls', 'res'))


def variants(r, role, framing, chunks, quick, lead=()):
    toks = fg.tokens(r, role, chunks)
    if role == 'client':
        toks = list(lead) + fg.with_drop(r, toks)
    base = f'{role} {framing} 000 ' + ' '.join(toks)
    vs = [(f'{role} {framing} 322 ' + ' '.join(toks), 'max')]
    vs.append((f'{role} {framing} {r.choice(ALL_LEVELS)} ' + ' '.join(toks), 'random-level'))
    positions = list(range(len(toks) + 1))
    if quick and len(positions) > 3:
        positions = sorted(r.sample(positions, 3))
    for p in positions:
        lv = r.choice(['322', '000', '311', r.choice(ALL_LEVELS)])
        start = r.choice(['000', '322'])
        vs.append((f'{role} {framing} {start} ' + ' '.join(toks[:p] + ['@L' + lv] + toks[p:]), f'change@{p}/{len(toks)}'))
    return base, vs


def run(ctx):
    ctx.translate(['DecodeUses.v'])
    ctx.build_models(['Model.LogLang'])
    ctx.prove()
    if ctx.tier == 'thorough':
        ctx.coqchk()
    if not ctx.build_harness():
        return
    r = ctx.rng
    groups = []
    if ctx.replay and 'cases' in ctx.replay:
        for base, var in ctx.replay['cases']:
            groups.append((base, [(var, 'replay')]))
    else:
        n = 2500 if ctx.quick() else 30000
        while len(groups) < n:
            role = r.choice(['server', 'client'])
            framing = r.choice(['tcp', 'rtu'])
            fc, lead = fg.client_request(r) if role == 'client' else (3, [])
            data, desc = fg.stream(r, role, framing, reply_fc=fc)
            chunks = fg.chunk(r, data, style=r.choice(['rand', 'rand', 'header', 'all', 'edge', 'bytes'] if len(data) < 40 else ['rand', 'rand', 'header', 'all', 'edge']))
            if not chunks:
                continue
            groups.append(variants(r, role, framing, chunks, ctx.quick(), lead))
    lines = []
    for base, vs in groups:
        lines.append(base)
        lines.extend(v for v, _ in vs)
    out = ctx.harness('fuzz', lines, shards=vlib.NPROC, timeout=1500)
    i = 0
    diffs = 0
    kinds = {}
    nontrivial = set()
    for base, vs in groups:
        ref = observable(out[i])
        if 'out=-' not in ref or 'calls=-' not in ref:
            nontrivial.add(base)
        i += 1
        for v, kind in vs:
            got = observable(out[i])
            i += 1
            k = kind.split('@')[0]
            kinds[k] = kinds.get(k, 0) + 1
            if got != ref:
                diffs += 1
                if diffs <= 3:
                    role, framing = base.split()[:2]
                    ctx.violation(f'{role}.{framing}.{k}.observable-differs',
                                  f'{kind}: observable behaviour differs from the run at level nothing',
                                  {'cases': [[base, v]], 'reference(level nothing)': ref, 'got': got})
    ctx.oblige('correspondence:levels-and-level-changes-unobservable', diffs == 0, f'{diffs} differing runs')
    task_stats = client_task_family(ctx)
    server_stats = server_task_family(ctx)
    rtu_stats = rtu_server_task_family(ctx)
    filter_stats = filtered_server_family(ctx)
    ctx.coverage.update({
        'evaluations': len(lines) + task_stats.get('runs', 0) + server_stats.get('runs', 0) + rtu_stats.get('runs', 0) + filter_stats.get('runs', 0),
        'distinct_nontrivial': len(nontrivial),
        'rule': 'groups = one scripted stream (valid / mutated / badly framed frames or raw bytes, chunked) run at level nothing plus variants: highest level, a random level, and a level-change command injected at chunk positions (quick: 3 random positions; thorough: every position); non-trivial = the reference run produced wire output or handler calls; distinct by stream',
        'samples': [[groups[0][0][:160], groups[0][1][-1][0][:160], out[0][:200]]],
        'input_classes': kinds,
        'groups': len(groups),
        'client_task_family': task_stats,
        'server_task_family': server_stats,
        'rtu_server_task_family': rtu_stats,
        'filtered_server_family': filter_stats,
        'exhaustive': False,
    })


def client_task_family(ctx):
    """the whole client channel task (wait-for-enable, connect, retry waits, in-flight, shutdown) driven by
    event scripts (harness `client`, the C10-C13 interpreter over the real ClientLoop under paused time):
    the same script at decode level min vs max, and with set_decode_level commands (through the real
    Channel) injected at script positions, must give the same listener trace, wire log, completions
    and end state. Queue capacity 16 so that an extra queued setting never changes what is accepted."""
    from checks import clientlib as cl
    r = ctx.rng
    n = 2000 if ctx.quick() else 20000
    groups = []
    if ctx.replay and 'client_cases' in ctx.replay:
        for base, var, dec in ctx.replay['client_cases']:
            groups.append((base, [(var, dec, 'replay')]))
    elif ctx.replay:
        return {}
    else:
        for _ in range(n):
            cfg = cl.default_cfg(r, cap=16)
            script = cl.gen_random(r, cfg, r.choice([6, 10, 14]), weights={'L': 0})
            base = cl.to_line((cfg, script))
            vs = [(base, 'max', 'max')]
            pos = list(range(len(script) + 1))
            if ctx.quick() and len(pos) > 3:
                pos = sorted(r.sample(pos, 3))
            for p in pos:
                v = script[:p] + [('L', r.choice(['min', 'max']), 'f')] + script[p:]
                vs.append((cl.to_line((cfg, v)), r.choice(['min', 'max']), f'change@{p}'))
            groups.append((base, vs))
    strip = lambda line: re.sub(r'#\d+', '', cl.canon(line))
    by_dec = {'min': [], 'max': []}
    for base, vs in groups:
        by_dec['min'].append(base)
        for v, dec, _ in vs:
            by_dec[dec].append(v)
    res = {}
    for dec, lines in by_dec.items():
        uniq = sorted(set(lines))
        out = ctx.harness('client', uniq, args=['--decode', dec], shards=8, timeout=1500)
        res[dec] = dict(zip(uniq, out))
    diffs = 0
    kinds = {}
    for base, vs in groups:
        ref = strip(res['min'][base])
        for v, dec, kind in vs:
            got = strip(res[dec][v])
            kinds[kind.split('@')[0]] = kinds.get(kind.split('@')[0], 0) + 1
            if got != ref:
                diffs += 1
                if diffs <= 2:
                    ctx.violation(f'client-task.{kind.split("@")[0]}.observable-differs',
                                  f'{kind} (decode {dec}): listener trace / wire / completions differ from the run at level nothing without level changes',
                                  {'client_cases': [[base, v, dec]], 'reference': ref, 'got': got})
    ctx.oblige('correspondence:client-task-levels-and-level-changes-unobservable', diffs == 0, f'{diffs} differing runs')
    return {'scripts': len(groups), 'runs': sum(len(v) for v in by_dec.values()), 'kinds': kinds}


def server_task_family(ctx):
    """the REAL TCP server task (spawn_tcp_server_task on loopback, harness `sessions` of C15) with raw TCP
    peers: the same script of connects / writes / closes / garbage / a session parked inside a slow handler,
    without and with ServerHandle::set_decode_level calls - single ones at any position and bursts of 9..12
    (more than a session's command queue holds) while a session is busy. Which connections are served after
    every step, the replies to the probes and the handler's value must be identical."""
    r = ctx.rng
    if ctx.replay and 'server_cases' in ctx.replay:
        groups = [(b, [(v, 'replay')]) for b, v in ctx.replay['server_cases']]
    elif ctx.replay:
        return {}
    else:
        groups = []
        n = 24 if ctx.quick() else 300
        n = n + n // 3
        fixed = [('2', ['C', 'C', 'B0', 'U', 'R1:5', 'R0:6']), ('2', ['C', 'B0', 'C', 'R1:3', 'U', 'R0:4']), ('3', ['C', 'C', 'C', 'B1', 'X0', 'U', 'R2:9', 'R1:2'])]
        while len(groups) < n:
            if fixed:
                m, ops = fixed.pop(0)
            else:
                m = r.choice(['2', '3'])
                ops, alive, nxt, parked = ['C'], [0], 1, None
                for _ in range(r.choice([3, 5, 7])):
                    free = [k for k in alive if k != parked]
                    c = r.random()
                    if c < 0.2 and len(alive) < int(m):
                        ops.append('C'); alive.append(nxt); nxt += 1
                    elif c < 0.45 and free:
                        ops.append(f'R{r.choice(free)}:{r.randrange(1, 60000)}')
                    elif c < 0.65 and parked is None and alive:
                        parked = r.choice(alive); ops.append(f'B{parked}')
                    elif c < 0.8 and parked is not None:
                        ops.append('U'); parked = None
                    elif c < 0.9 and len(free) > 1:
                        k = r.choice(free); alive.remove(k); ops.append(f'X{k}')
                    elif free:
                        k = r.choice(free); alive.remove(k); ops.append(f'G{k}')
                if parked is not None:
                    ops.append('U')
                    free = [k for k in alive]
                    if free:
                        ops.append(f'R{r.choice(free)}:{r.randrange(1, 60000)}')
            if not fixed and len(groups) % 4 == 3:
                # the TLS server: T = a peer whose TLS handshake is pending (it never starts it), C = a rodbus TLS
                # client channel; a level change must neither drop a pending handshake nor disturb the sessions
                m = 'tls:' + TLS_DIR + ':' + r.choice(['2', '3'])
                ops = r.choice([['T', 'C', 'R1:5'], ['C', 'T', 'T', 'R0:3'], ['T', 'T', 'C', 'R2:4', 'X2'], ['C', 'T', 'R0:9', 'T'], ['T', 'C', 'C', 'R1:2', 'R2:3']])
            vs = []
            p = r.randrange(0, len(ops) + 1)
            if m.startswith('tls:'):
                p = r.randrange(1, len(ops) + 1)
            vs.append((ops[:p] + ['D'] + ops[p:], 'tls-single' if m.startswith('tls:') else 'single'))
            b = [i for i, o in enumerate(ops) if o.startswith('B')]
            p = (b[0] + 1) if b else r.randrange(1, len(ops) + 1)
            vs.append((ops[:p] + ['D'] * r.choice([9, 10, 12]) + ops[p:], 'tls-burst' if m.startswith('tls:') else 'burst-while-busy' if b else 'burst'))
            groups.append((f'{m} ' + ' '.join(ops), [(f'{m} ' + ' '.join(v), k) for v, k in vs]))
    lines = []
    for b, vs in groups:
        lines.append(b)
        lines.extend(v for v, _ in vs)

    def strip(line, out):
        ops = line.split()[1:]
        fields = out.split('|')
        if len(fields) != len(ops):
            return out
        return '|'.join(f for o, f in zip(ops, fields) if o != 'D')

    def run(ls, settle=None):
        return ctx.harness('sessions', ls, args=([str(settle)] if settle else []), shards=8, timeout=900)
    out = dict(zip(lines, run(lines)))
    diffs, kinds = 0, {}
    for b, vs in groups:
        for v, kind in vs:
            kinds[kind] = kinds.get(kind, 0) + 1
            if strip(v, out[v]) != strip(b, out[b]):
                # must reproduce with a much longer settle pause (an outcome, not timing)
                o2 = run([b, v], settle=400)
                if strip(v, o2[1]) == strip(b, o2[0]):
                    continue
                diffs += 1
                if diffs <= 2:
                    ctx.violation(f'server-task.{kind}.observable-differs',
                                  f'real TCP server, {kind}: served connections / replies / handler value differ from the same script without decode-level changes',
                                  {'server_cases': [[b, v]], 'reference': strip(b, o2[0]), 'got': strip(v, o2[1])})
    ctx.oblige('correspondence:server-task-level-changes-unobservable', diffs == 0, f'{diffs} differing scripts')
    return {'scripts': len(groups), 'runs': len(lines), 'kinds': kinds}


def rtu_server_task_family(ctx):
    """the REAL RTU server task on a pty (harness `rtu_task`): the first open fails, the task waits its retry
    delay (1 s) and re-opens the port. The same timed script without and with ServerHandle::set_decode_level
    calls DURING that wait: a request sent 400 ms after the delay is over is answered in both runs, so are
    later requests, the handler log is the same and shutdown ends the task (a level change must neither
    shorten nor prolong the wait)."""
    from checks import srv
    r = ctx.rng
    if ctx.replay and 'rtu_wait_cases' in ctx.replay:
        pairs = [tuple(x) for x in ctx.replay['rtu_wait_cases']]
    elif ctx.replay:
        return {}
    else:
        pairs = []
        n = 6 if ctx.quick() else 40
        for _ in range(n):
            units = (srv.simple_unit(1, r.choice([1, 3, 7]), r.randrange(1000)),)
            head = srv.to_line(('rtu', units, None, ())).split('|')[1]
            read = 'tx:' + srv.adu('rtu', (None, 1, bytes([3, 0, 0, 0, 1]))).hex().upper()
            probe = 'txq:' + srv.adu('rtu', (None, 1, bytes([3, 0, 0, 0, 2]))).hex().upper()
            # level changes at 2..4 instants in (250, 950) ms of the 1000 ms wait, the last one after 600 ms
            ts = sorted(set([r.randrange(600, 950)] + [r.randrange(250, 950) for _ in range(r.choice([1, 2, 3]))]))

            def steps(with_levels):
                out = ['unlink', 'sleep:100', 'link']
                t = 100
                for x in ts:
                    out.append(f'sleep:{x - t}')
                    t = x
                    if with_levels:
                        out.append(r.choice(['max', 'min']))
                out += [f'sleep:{1400 - t}', probe, 'sleep:400', read, 'shutdown', 'sleep:200']
                return f'1000:4000|{head}|' + ','.join(out)
            with_l = steps(True)
            pairs.append((steps(False), with_l))
    lines = [x for p in pairs for x in p]

    def run(ls):
        return ctx.harness('rtu_task', ls, shards=min(8, len(ls)), timeout=600)
    out = run(lines)
    diffs = 0
    for i, (b, v) in enumerate(pairs):
        ob, ov = out[2 * i], out[2 * i + 1]
        if ob != ov:
            # once more, alone (a timing accident on a loaded machine does not repeat)
            ob, ov = run([b, v])
            if ob == ov:
                continue
            diffs += 1
            if diffs <= 2:
                ctx.violation('rtu-server-task.level-change-during-the-wait.observable-differs',
                              'real RTU server task: replies / handler calls / end differ from the same timed script without decode-level changes during the wait before the re-open',
                              {'rtu_wait_cases': [[b, v]], 'reference': ob, 'got': ov})
    ctx.oblige('correspondence:rtu-server-task-level-changes-unobservable', diffs == 0, f'{diffs} differing scripts')
    return {'scripts': len(pairs), 'runs': len(lines)}


def filtered_server_family(ctx):
    """servers with a restrictive address filter (harness `filter_live` of C16: Rust API and C ABI, tcp / tls /
    tls+authz): the same sequence of connections from matching and non-matching loopback sources without and
    with set_decode_level calls between them (token @D): which connections are served must be identical."""
    r = ctx.rng
    if ctx.replay and 'filter_cases' in ctx.replay:
        pairs = [tuple(x) for x in ctx.replay['filter_cases']]
    elif ctx.replay:
        return {}
    else:
        pairs = []
        variants = [('rust', 'tcp', 'spawn'), ('rust', 'tcp', 'create'), ('rust', 'tls', 'spawn'), ('rust', 'tlsauthz', 'create'),
                    ('ffi', 'tcp', '-'), ('ffi', 'tls', '-'), ('ffi', 'tlsauthz', '-')]
        for api, variant, ctor in (variants if not ctx.quick() else r.sample(variants, 4)):
            flt = r.choice(['exact=127.0.0.1', 'wild=127.0.0.*' if False else 'exact=127.0.0.3'])
            ok = flt.split('=')[1]
            other = '127.0.0.2'
            peers = [r.choice([ok, other]) for _ in range(r.choice([3, 4]))]
            if other not in peers:
                peers[-1] = other
            k = r.randrange(1, len(peers))
            withd = peers[:k] + ['@D'] + peers[k:]
            if r.random() < 0.5:
                withd = withd[:1] + ['@D'] + withd[1:]
            head = f'{api} {variant} {ctor} 127.0.0.1 {flt} '
            pairs.append((head + ','.join(peers), head + ','.join(withd)))
    lines = [x for p in pairs for x in p]
    out = ctx.harness('filter_live', lines, args=[vlib.REPO], shards=4, timeout=900)
    diffs = 0
    for i, (b, v) in enumerate(pairs):
        ob = out[2 * i]
        ov = ','.join(x for x in out[2 * i + 1].split(',') if x != 'D')
        if ob != ov:
            diffs += 1
            if diffs <= 2:
                ctx.violation('filtered-server.level-change.observable-differs',
                              f'which connections a filtered server serves differs once the decode level was changed: {v}',
                              {'filter_cases': [[b, v]], 'reference': ob, 'got': out[2 * i + 1]})
    ctx.oblige('correspondence:filtered-server-level-changes-unobservable', diffs == 0, f'{diffs} differing sequences')
    return {'sequences': len(pairs), 'runs': len(lines)}
