"""C19 - The C-ABI point database is a per-type map with atomic transactions.

Theorems (coq/theories/Properties/C19.v): the model of ffi/rodbus-ffi/src/database.rs refines four
partial functions for ALL operation sequences (add iff absent, update/delete iff present, get fails iff
absent, a read touching an absent point gives exception 02 and only then); in the lock-granular
interleaving model every request observes the database after a prefix of complete transactions for
ALL schedules, and with per-point locking that statement is refuted.
Correspondence: random operation sequences through rodbus_database_* inside the configure callback of
rodbus_device_map_add_endpoint and inside rodbus_server_update_database transactions, interleaved with
client reads over loopback, vs the model and the Spec evaluated in Coq; thread stress: a writer sets N
registers/coils to one common value per transaction while clients read all N in one request.
"""
import re

import vlib
from checks import p5_system

TYPES = {'c': 'Coil', 'd': 'Discrete', 'h': 'Holding', 'i': 'Input'}
IDX = [0, 1, 2, 3, 7, 65534, 65535]
CORPUS = [
    # the demo sequence of the proofs
    'I:ac1=1;ac1=0;gc1;uc2=1;ac2=0 R:c1,2 R:c1,3 T:ah7=65535;gh7;gi7;gd1;dc1;dc1 R:c1,2 T:uh7=12 R:h7,1 T:ai0=3;ad9=1 R:i0,1 R:d9,1',
    # first absent address decides
    'I:ah10=1;ah12=3 R:h10,3 T:ah11=2 R:h10,3',
    # a range that ends at address 65535 (F7: server AddressIterator overflow, fixed in /repo as 95a9a3e; kept as a corpus case)
    'I:ah65535=9;ah65534=8 R:h65534,1 R:h65535,1 R:h65534,2 T:gh65535',
    'I:ac65535=1 R:c65535,1 R:c65534,2 T:ac65534=0 R:c65534,2',
    # same index in the four types is independent
    'I:ac4=1 T:gd4;gh4;gi4;ah4=9;dc4;gh4 R:h4,1 R:c4,1',
]


def gen_case(r):
    groups = []
    n_groups = r.choice([1, 2, 3, 4, 6, 9])
    idx = r.sample(IDX, r.choice([2, 3, 4]))
    focus = r.choice('cdhi')

    def ops(k):
        out = []
        for _ in range(k):
            t = focus if r.random() < 0.6 else r.choice('cdhi')
            i = r.choice(idx)
            v = r.choice([0, 1]) if t in 'cd' else r.choice([0, 1, 2, 255, 256, 65535, r.randrange(65536)])
            kind = r.choices('audg', weights=[5, 3, 3, 3])[0]
            out.append(f'{kind}{t}{i}' + (f'={v}' if kind in 'au' else ''))
        return ';'.join(out)
    if r.random() < 0.8:
        groups.append('I:' + ops(r.choice([1, 2, 4, 8])))
    for _ in range(n_groups):
        if r.random() < 0.5:
            groups.append('T:' + ops(r.choice([1, 2, 3, 6])))
        else:
            t = focus if r.random() < 0.7 else r.choice('cdhi')
            start = r.choice(idx)
            count = r.choice([1, 1, 2, 3, 8])
            if start + count > 65536:
                count = 65536 - start
            groups.append(f'R:{t}{start},{count}')
    return ' '.join(groups)


def to_coq(case):
    ops = []
    for g in case.split():
        kind, body = g[0], g[2:]
        if kind == 'R':
            t = body[0]
            s, c = body[1:].split(',')
            ops.append(f'Read {TYPES[t]} {s} {c}%nat')
            continue
        for o in body.split(';'):
            if not o:
                continue
            k, t, rest = o[0], o[1], o[2:]
            if k in 'au':
                i, v = rest.split('=')
                val = f'(VBit {vlib.coq_bool(int(v) != 0)})' if t in 'cd' else f'(VReg {v})'
                ops.append(f'{"Add" if k == "a" else "Update"} {TYPES[t]} {i} {val}')
            elif k == 'd':
                ops.append(f'Delete {TYPES[t]} {rest}')
            else:
                ops.append(f'Get {TYPES[t]} {rest}')
    return '[' + '; '.join(ops) + ']'


FN = ('fun ops : list op => show_results (snd (Database.run db_empty ops)) ++ "|" ++ '
      'show_results (snd (spec_run spec_empty ops))')


def classify(case, result):
    cls = set()
    for g, in [(x,) for x in case.split()]:
        cls.add({'I': 'configure-callback', 'T': 'transaction', 'R': 'client-read'}[g[0]])
    for tok in result.split(';'):
        if tok == 'E2':
            cls.add('read-absent-exception-02')
        elif tok.startswith('['):
            cls.add('read-values')
        elif tok == '-':
            cls.add('get-absent')
        elif tok in ('T', 'F'):
            cls.add('bool-' + tok)
    return cls


def shrink_candidates(case):
    groups = case.split()
    for k in range(len(groups)):
        if len(groups) > 1:
            yield ' '.join(groups[:k] + groups[k + 1:])
    for k, g in enumerate(groups):
        if g[0] in 'IT':
            ops = g[2:].split(';')
            for j in range(len(ops)):
                rest = ops[:j] + ops[j + 1:]
                if rest:
                    yield ' '.join(groups[:k] + [g[:2] + ';'.join(rest)] + groups[k + 1:])


def run(ctx):
    ctx.translate(['Consts.v', 'LockScope.v'])
    models_ok = ctx.build_models(['Base.Show', 'Model.DbTypes', 'Model.Database', 'Spec.MapSpec', 'Model.Atomic', 'Spec.AtomicSpec', 'Model.FfiWire'])
    ctx.models_ok = models_ok
    # the database model itself does not depend on the C-ABI tables: keep judging the op sequences when only the
    # composed model (Model.FfiWire over Gen/FfiTables.v) is lost
    core_ok = models_ok or vlib.coq_make([vlib.vo(m) for m in ['Base.Show', 'Model.DbTypes', 'Model.Database', 'Spec.MapSpec']])[0] == 0
    ctx.prove()
    if ctx.tier == 'thorough':
        ctx.coqchk()
    if not ctx.build_harness():
        return
    stress = []
    if ctx.replay and 'cases' in ctx.replay:
        cases = [c[1] for c in ctx.replay['cases'] if c[0] == 'ops']
        stress = [c[1] for c in ctx.replay['cases'] if c[0] == 'stress']
    else:
        cases = list(CORPUS)
        n = 6000 if ctx.quick() else 40000
        while len(cases) < n:
            cases.append(gen_case(ctx.rng))
        stress = ['100 6 2500', '8 4 1500'] if ctx.quick() else ['100 8 30000', '125 4 8000', '8 8 8000']

    def evaluate(cs):
        impl = ctx.harness('db_ops', cs, timeout=1200)
        if core_ok:
            both = ctx.coq_eval(['Base.Show', 'Model.DbTypes', 'Model.Database', 'Spec.MapSpec'], FN, [to_coq(c) for c in cs],
                                case_type='list op', preamble='Local Open Scope string_scope.', per_shard=250)
        else:
            both = [None] * len(cs)
        return impl, both
    bad = 0
    classes = {}
    impl = []
    if cases:
        impl, both = evaluate(cases)
        for c, i, b in zip(cases, impl, both):
            if b is None:
                continue
            model, spec = b.split('|')
            for k in classify(c, i):
                classes[k] = classes.get(k, 0) + 1
            if i != spec:
                bad += 1
                if bad == 1:
                    def differs(cs):
                        im, bo = evaluate(cs)
                        return [x != y.split('|')[1] for x, y in zip(im, bo)]
                    small = vlib.shrink_batch(c, differs, shrink_candidates)
                    si, sb = evaluate([small])
                    ii, ss = si[0].split(';'), sb[0].split('|')[1].split(';')
                    pos = next((k for k in range(min(len(ii), len(ss))) if ii[k] != ss[k]), min(len(ii), len(ss)))
                    got = ii[pos] if pos < len(ii) else '(missing)'
                    want = ss[pos] if pos < len(ss) else '(missing)'
                    kind = 'read' if want.startswith('[') or want.startswith('E') else ('get' if want == '-' or want[0] in 'br' else 'add-update-delete')
                    ctx.violation(f'database-is-not-a-map.{kind}', f'op sequence `{small}`: result #{pos + 1} through the C ABI is {got}, a per-type map gives {want}',
                                  {'cases': [['ops', small]], 'impl': si[0], 'spec': sb[0].split('|')[1], 'model': sb[0].split('|')[0], 'original_case': c})
            elif i != model:
                bad += 1
                if bad == 1:
                    ctx.violation('database-model-differs-from-impl', f'{c}: model {model}, implementation and Spec {spec}',
                                  {'cases': [['ops', c]], 'impl': i, 'spec': spec, 'model': model}, no_failing_input=True)
    ctx.oblige('correspondence:database-op-sequences', bad == 0, f'{bad} disagreements on {len(cases)} sequences')

    # ---------------------------------------------------------------- system level: raw frames against the composed model
    n_sys, sys_classes, sys_samples = p5_system.check_system(ctx, 'read', 1500 if ctx.quick() else 12000, 'reads')

    # ---------------------------------------------------------------- thread stress (atomicity)
    stress_out = []
    total_reads = 0
    for line in stress:
        out = ctx.harness('db_stress', [line], timeout=600)[0]
        stress_out.append([line, out])
        m = re.match(r'reads=(\d+) mixed=(\d+) backwards=(\d+) txns=(\d+) distinct=(\d+) errors=(\d+) client_writes=(\d+)', out)
        if not m:
            ctx.oblige('stress-ran', False, f'{line}: {out}')
            continue
        reads, mixed, backwards, txns, distinct, errors, client_writes = map(int, m.groups())
        total_reads += reads
        if mixed or backwards:
            ctx.violation('transaction-partially-visible', f'stress `{line}` (points clients ms): {mixed} of {reads} multi-point replies mix values of different transactions, {backwards} went backwards: {out}',
                          {'cases': [['stress', line]], 'impl': out, 'spec': 'mixed=0 backwards=0'})
        ctx.oblige(f'stress:{line.replace(" ", "/")}', mixed == 0 and backwards == 0 and errors == 0, out)
        if not ctx.replay and (reads < 200 or txns < 50 or distinct < 20 or client_writes < 20):
            ctx.oblige('stress-interleaves', False, f'{line}: too little interleaving to mean anything: {out}')
    if not ctx.replay:
        need = ['configure-callback', 'transaction', 'client-read', 'read-absent-exception-02', 'read-values', 'get-absent', 'bool-T', 'bool-F']
        missing = [k for k in need if classes.get(k, 0) < 20]
        if missing:
            ctx.oblige('generator-reaches-expected-classes', False, f'{missing} {classes}')
    n_ops = sum(len(i.split(';')) for i in impl)
    ctx.coverage.update({
        'evaluations': len(cases) + total_reads + n_sys,
        'distinct_nontrivial': len(set(c for c in cases if len(c.split()) >= 2)),
        'rule': 'op sequences: groups I: (configure callback), T: (update_database transaction), R: (client read over TCP) with ops add/update/delete/get over the four point types and the index set {0,1,2,3,7,65534,65535}, corpus first, then seeded random; non-trivial = at least two groups; distinct by sequence text. stress reads are counted in evaluations (each is one multi-point reply checked for mixing) but not in distinct_nontrivial',
        'samples': [[c, i] for c, i in list(zip(cases, impl))[:3]] + [[c, i] for c, i in list(zip(cases, impl))[len(CORPUS):len(CORPUS) + 3]] + stress_out + sys_samples,
        'input_classes': dict(classes, system_wire_replies=sys_classes),
        'exhaustive': False,
        'system_wire_scenarios': n_sys,
        'database_operations_and_reads': n_ops,
        'stress_replies_checked': total_reads,
    })
