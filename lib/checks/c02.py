"""C02 - Application handlers see only valid, correctly decoded requests, exactly once.

Theorems (coq/theories/Properties/C02.v) about the server model: the handler calls of a frame are
exactly Spec.spec_calls (one write call with the decoded arguments / the ascending read prefix /
nothing), the items handed to write-multiple handlers, and "no call => no state change".
Correspondence: the ordered log of the instrumented RequestHandler of the production session task
vs. the model's and the Spec's call log (authorization entries are C08's), with and without an
authorization handler, TCP and RTU.
"""
from checks import srv


def gen_cases(ctx):
    r = ctx.rng
    cases = srv.load_corpus(ctx, 'C01') + srv.load_corpus(ctx, 'C02')
    cases += srv.boundary_cases('tcp') + srv.boundary_cases('rtu')
    n = 2200 if ctx.quick() else 12000
    for _ in range(n):
        link = 'tcp' if r.random() < 0.55 else 'rtu'
        auth = srv.gen_auth(r) if r.random() < 0.4 else None
        cases.append(srv.gen_session(r, link, auth=auth, big_ok=(r.random() < 0.5), raw=0.1))
    return cases


def run(ctx):
    if not srv.prepare(ctx, ['FfiTables.v', 'TlsAuthz.v', 'ReaderLoop.v']):
        return
    if ctx.replay and 'authz_sequences' in ctx.replay:
        srv.replay_authz_sequences(ctx, True)
        return
    if ctx.replay and 'stream_cases' in ctx.replay:
        srv.replay_streams(ctx)
        return
    if ctx.replay and 'cases' in ctx.replay:
        cases = [srv.case_from_json(c) for c in ctx.replay['cases']]
    else:
        cases = gen_cases(ctx)
    impl, both, n_spec, n_model = srv.compare(ctx, cases, 'calls', 'handler-calls', 'handler call log')
    for name, sel in (('without-authorization', lambda c: c[2] is None), ('with-authorization', lambda c: c[2] is not None)):
        idx = [k for k, c in enumerate(cases) if sel(c)]
        bad = [k for k in idx if srv.differs(impl[k], both[k], 'calls')]
        ctx.oblige(f'correspondence:handler-call-log:{name}', not bad, f'{len(bad)} of {len(idx)} sessions differ')
    # the iterator handed to a write-multiple handler yields consecutive addresses from `start`, `count` of them
    bad_items = []
    n_wm = 0
    for c, i in zip(cases, impl):
        for e in srv.split3(i)[1]:
            if e.startswith('wmc.') or e.startswith('wmr.'):
                n_wm += 1
                _, _, start, count, items = e.split('.', 4)
                if items.startswith('!') or ':' not in items:
                    bad_items.append(e[:80])
                    continue
                a0, vals = items.split(':')
                nvals = len(vals) if e.startswith('wmc.') else len(vals) // 4
                if a0 != start or nvals != int(count):
                    bad_items.append(e[:80])
    ctx.oblige('write-multiple-iterator-yields-count-items-from-start', not bad_items, f'{len(bad_items)} of {n_wm}: {bad_items[:2]}')
    calls = {'sessions-with-calls': 0, 'handler-calls:read-runs': 0, 'handler-calls:write-single': 0, 'handler-calls:write-multiple': n_wm,
             'reads-stopped-by-exception': 0}
    for c, i in zip(cases, impl):
        log = srv.handler_calls(srv.split3(i)[1])
        calls['sessions-with-calls'] += bool(log)
        calls['handler-calls:read-runs'] += sum(1 for e in log if e[:2] in ('rc', 'rd', 'rh', 'ri'))
        calls['handler-calls:write-single'] += sum(1 for e in log if e[:3] in ('wsc', 'wsr'))
    if not ctx.replay:
        # C-ABI / Rust TLS servers with authorization: a request the policy denies must not reach a write handler
        # (client=OK for a write means the write handler ran), a permitted one must; a session whose certificate has
        # no usable role gets nothing served
        seqs = srv.gen_authz_sequences(ctx.rng, ctx.quick())
        out, res = srv.run_authz_sequences(ctx, seqs)
        badq = [(sq, o, p) for sq, o, per in zip(seqs, out, res) for p in per if not p['ok_effect']]
        ctx.oblige('tls-authorization:handlers-run-only-for-permitted-requests', not badq, f'{len(badq)} sessions; first: {badq[0][2] if badq else ""}'[:300])
        for sq, o, p in badq[:2]:
            ctx.violation(f'handler-calls.tls-authorization.{sq[0]}-server',
                          f'TLS + authorization, {sq[0]} server, policy {sq[1]}: session #{p["session"]} (role certificate {p["role"]}, {p["op"]}) got `{p["got"]}`: a handler ran for a request that is not permitted (or did not run for a permitted one); required {p["want"]}',
                          {'authz_sequences': [list(sq[:3]) + [[list(x) for x in sq[3]]]], 'harness_line': 'ffi_authz: ' + srv.authz_line(sq), 'impl': o, 'required': p['want']})
        calls['tls-authorization-sessions'] = sum(len(s[3]) for s in seqs)
    if not ctx.replay:
        r = ctx.rng
        n = 240 if ctx.quick() else 2400
        sc = [srv.gen_stream_case(r, 'tcp' if r.random() < 0.65 else 'rtu', auth=(srv.gen_auth(r) if r.random() < 0.2 else None)) for _ in range(n)]
        srv.stream_pass(ctx, sc, 'calls', 'correspondence:byte-stream-delivery:handler-calls', 'handler-calls.byte-stream')
        ro = [srv.gen_reopen_case(r) for _ in range(n)]
        srv.stream_pass(ctx, ro, 'calls', 'correspondence:rtu-port-reopen:handler-calls', 'handler-calls.rtu-reopen', reopen=True)
        calls['byte-streams'] = n
        calls['byte-streams:above-260-bytes'] = sum(1 for _, s in sc if sum(len(x) // 2 for x in s if not x.startswith('@')) > 260)
        calls['rtu-reopen-runs'] = n
        calls['rtu-reopen-runs:with-crc-error'] = sum(1 for c, s in ro if len([x for x in s if not x.startswith('@')]) > len(c[3]))
    cl = srv.coverage(ctx, cases, impl,
                      'sessions as in C01 (corpus, boundary quantities, mixed structured/malformed sessions), 40% with an authorization handler; '
                      'observable = ordered handler call log; non-trivial = contains at least one valid request; distinct by value', calls)
    if not ctx.replay:
        need = ['invalid:length', 'invalid:limit', 'invalid:overflow', 'invalid:coil-value', 'unsupported', 'valid:fc15', 'valid:fc16', 'valid:fc5', 'valid:fc6',
                'handler-calls:read-runs', 'handler-calls:write-single', 'handler-calls:write-multiple', 'sessions:with-authorization', 'sessions:with-shared-handler-object']
        missing = [k for k in need if cl.get(k, 0) < 3]
        ctx.oblige('generator-reaches-expected-classes', not missing, 'missing: ' + ','.join(missing))
