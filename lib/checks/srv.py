"""Shared machinery of the server-side checks C01, C02, C08, C17: case representation, request
generators, conversion to the harness line format (`verif-harness server`) and to Coq terms
(`Model.ServerExec.case`), evaluation of implementation / model / Spec, comparison and shrinking.

A case is a tuple (link, units, auth, frames):
  link   'tcp' | 'rtu'
  units  tuple of (uid, m, c, rex, wex, coils, discrete, holding, input)   (tuples of tuples); a 10th field
         `owner` makes unit id uid hold the SAME handler object as unit id owner (its other fields are unused)
  auth   None | ('ro', role) | ('deny', role) | ('hash', role, seed, pct)     role = bytes (utf-8)
  frames tuple of (tx, dest, pdu)   tx = int (tcp) / None (rtu), dest = unit id byte, pdu = bytes
On RTU destination byte 0 is the broadcast address.
"""
import vlib

QTY = [0, 1, 7, 8, 9, 123, 124, 125, 126, 1968, 1969, 1976, 1977, 2000, 2001, 2008]
KNOWN_FC = [1, 2, 3, 4, 5, 6, 15, 16]
SPEC_MODULES = ['Base.Show', 'Base.ServerTypes', 'Base.ServerRun', 'Model.Retry', 'Model.RtuServerLoop', 'Spec.Modbus', 'Model.ServerRender']
MODULES = SPEC_MODULES + ['Model.Server', 'Model.ServerRun', 'Model.ServerExec']
STATE = {'model_ok': True}


def prepare(ctx, extra_gen=()):
    """translate, build the Spec evaluator and the model, prove, build the harness. Returns False when
    nothing can be run. When only the model (or a generated table it imports) no longer compiles,
    the implementation is still compared with the Spec."""
    ctx.translate(['Consts.v', 'AuthzTable.v', 'ServerFlow.v'] + list(extra_gen))
    spec_ok = ctx.build_models(SPEC_MODULES)
    STATE['model_ok'] = ctx.build_models(MODULES) if spec_ok else False
    ctx.prove()
    if ctx.tier == 'thorough':
        ctx.coqchk()
    return bool(ctx.build_harness() and spec_ok)


def crc16(data):
    crc = 0xFFFF
    for b in data:
        crc ^= b
        for _ in range(8):
            crc = (crc >> 1) ^ 0xA001 if crc & 1 else crc >> 1
    return crc


def adu(link, fr):
    tx, dest, pdu = fr
    if link == 'tcp':
        n = len(pdu) + 1
        return bytes([tx >> 8, tx & 255, 0, 0, n >> 8, n & 255, dest]) + bytes(pdu)
    body = bytes([dest]) + bytes(pdu)
    c = crc16(body)
    return body + bytes([c & 255, c >> 8])


def _tl(ts):
    return ','.join('.'.join(str(int(x)) for x in t) for t in ts) if ts else '-'


def auth_str(auth):
    if auth is None:
        return 'none'
    s = f'{auth[0]}:{bytes(auth[1]).hex().upper() or "-"}'
    if auth[0] == 'hash':
        s += f':{auth[2]}:{auth[3]}'
    return s


def to_line(case):
    link, units, auth, frames = case
    us = ';'.join(f'{u[0]}:={u[9]}' if len(u) > 9 else
                  f'{u[0]}:{u[1]}:{u[2]}:{_tl(u[3])}:{_tl(u[4])}:{_tl(u[5])}:{_tl(u[6])}:{_tl(u[7])}:{_tl(u[8])}' for u in units) or '-'
    fs = ','.join(adu(link, f).hex().upper() for f in frames) or '-'
    return f'{link}|{us}|{auth_str(auth)}|{fs}'


def _nl(xs):
    return '[' + ';'.join(str(int(x)) for x in xs) + ']'


def _t3(ts):
    return '[' + ';'.join(f'({a},{b},{c})' for a, b, c in ts) + ']'


def _tb(ts):
    return '[' + ';'.join(f'({a},{"true" if b else "false"})' for a, b in ts) + ']'


def _tr(ts):
    return '[' + ';'.join(f'({a},{b})' for a, b in ts) + ']'


def to_coq(case):
    link, units, auth, frames = case
    um = '[' + ';'.join(f'({u[0]},{u[9] if len(u) > 9 else u[0]})' for u in units) + ']'
    us = '[' + ';'.join(f'mku {u[0]} {u[1]} {u[2]} {_t3(u[3])} {_t3(u[4])} {_tb(u[5])} {_tb(u[6])} {_tr(u[7])} {_tr(u[8])}'
                        for u in units if len(u) <= 9) + ']'
    if auth is None:
        a = 'CNone'
    elif auth[0] == 'ro':
        a = f'CRo {_nl(auth[1])}'
    elif auth[0] == 'deny':
        a = f'CDeny {_nl(auth[1])}'
    else:
        a = f'CHash {_nl(auth[1])} {auth[2]} {auth[3]}'
    fl = []
    for tx, dest, pdu in frames:
        d = 'DBroadcast' if (link == 'rtu' and dest == 0) else f'(DUnit {dest})'
        t = 'None' if tx is None else f'(Some {tx})'
        fl.append(f'mkf {t} {d} {_nl(pdu)}')
    return f'({"LTcp" if link == "tcp" else "LRtu"}, {um}, {us}, {a}, [{";".join(fl)}])'


# ------------------------------------------------------------------------------------------ classification (statistics only)
def classify(pdu):
    """input class of a PDU, for the measured distribution (not an oracle)"""
    if len(pdu) == 0:
        return 'empty'
    fc = pdu[0]
    if fc not in KNOWN_FC:
        return 'unsupported'
    b = pdu[1:]
    if fc <= 4:
        if len(b) != 4:
            return 'invalid:length'
        s, n = b[0] * 256 + b[1], b[2] * 256 + b[3]
        if n == 0:
            return 'invalid:zero'
        if n > (2000 if fc <= 2 else 125):
            return 'invalid:limit'
        if s + n > 65536:
            return 'invalid:overflow'
        return f'valid:fc{fc}'
    if fc in (5, 6):
        if len(b) != 4:
            return 'invalid:length'
        if fc == 5 and b[2] * 256 + b[3] not in (0xFF00, 0):
            return 'invalid:coil-value'
        return f'valid:fc{fc}'
    if len(b) < 5:
        return 'invalid:length'
    s, n = b[0] * 256 + b[1], b[2] * 256 + b[3]
    if n == 0:
        return 'invalid:zero'
    if n > (1968 if fc == 15 else 123):
        return 'invalid:limit'
    if s + n > 65536:
        return 'invalid:overflow'
    need = (n + 7) // 8 if fc == 15 else 2 * n
    if len(b) - 5 != need:
        return 'invalid:length'
    if b[4] != need:
        return f'valid:fc{fc}:bytecount-lie'
    return f'valid:fc{fc}'


def pdu_range(pdu):
    """(start, count) of a syntactically complete request, else None"""
    if len(pdu) >= 5 and pdu[0] in (1, 2, 3, 4, 15, 16):
        return pdu[1] * 256 + pdu[2], pdu[3] * 256 + pdu[4]
    if len(pdu) >= 3 and pdu[0] in (5, 6):
        return pdu[1] * 256 + pdu[2], 1
    return None


# ------------------------------------------------------------------------------------------ PDU generators
def be(v):
    return [(v >> 8) & 255, v & 255]


def rnd_bytes(r, n):
    return [r.randrange(256) for _ in range(n)]


def gen_start(r, n):
    n = max(n, 1)
    return r.choice([0, 1, 7, 100, r.randrange(0, 2000), max(0, 65536 - n), max(0, 65535 - n), min(65535, 65536 - n + 1), 65535,
                     r.randrange(0, 65536)])


def gen_qty(r, fc, big_ok=True):
    lim = {1: 2000, 2: 2000, 3: 125, 4: 125, 15: 1968, 16: 123}[fc]
    k = r.random()
    if k < 0.35:
        q = r.choice(QTY)
    elif k < 0.45:
        q = r.choice([lim - 1, lim, lim + 1, 65535, 0x0100, 0x8000])
    elif k < 0.85:
        q = r.randrange(1, min(lim, 40) + 1)
    else:
        q = r.randrange(1, lim + 1)
    if not big_ok and q > 130:
        q = r.choice([1, 2, 8, 9, 16, 17, 123, 124, 125, 126])
    return q


def gen_pdu(r, link, fc=None, big_ok=True):
    """a structured request PDU: mostly valid, with boundary quantities and the malformations that
    the link can deliver (RTU frames have the length their function code dictates)"""
    if fc is None:
        fc = r.choice(KNOWN_FC)
    if fc <= 4:
        n = gen_qty(r, fc, big_ok)
        p = [fc] + be(gen_start(r, n)) + be(n)
    elif fc == 5:
        p = [fc] + be(gen_start(r, 1)) + be(r.choice([0xFF00, 0, 0xFF00, 0, 0x00FF, 0xFF01, 1, 0xFFFF, r.randrange(65536)]))
    elif fc == 6:
        p = [fc] + be(gen_start(r, 1)) + be(r.choice([0, 1, 0xFF00, 0xFFFF, r.randrange(65536)]))
    else:
        n = gen_qty(r, fc, big_ok)
        need = (n + 7) // 8 if fc == 15 else 2 * n
        k = r.random()
        if k < 0.75:
            ln = need
        elif k < 0.85:
            ln = need + r.choice([1, 2, -1])
        else:
            ln = r.choice([0, 1, need // 2, 246, 247])
        ln = max(0, min(ln, 247))
        data = rnd_bytes(r, ln) if r.random() < 0.8 else [r.choice([0, 255, 0xAA])] * ln
        if link == 'rtu':
            bc = ln                       # the reader delimits the frame by this byte
        else:
            bc = ln if r.random() < 0.8 else r.choice([0, 255, (ln + 1) & 255, r.randrange(256)])
        p = [fc] + be(gen_start(r, n)) + be(n) + [bc] + data
    if link == 'tcp' and fc <= 6 and r.random() < 0.08:
        # wrong length for a fixed-size request
        p = p[:r.choice([1, 2, 3, 4])] if r.random() < 0.5 else p + rnd_bytes(r, r.choice([1, 2, 248]))
    return bytes(p[:253])


def gen_unknown_fc(r):
    return r.choice([0, 7, 8, 11, 12, 14, 17, 20, 21, 22, 23, 24, 43, 0x41, 0x64, 0x7F, 0x80, 0x81, 0x83, 0x8F, 0x90, 0xFF,
                     r.randrange(256), r.randrange(128, 256)])


def gen_raw_pdu(r, ln=None):
    """TCP only: any function code, any length 0..253"""
    if ln is None:
        ln = r.choice([0, 1, 2, 3, 4, 5, 6, 7, 251, 252, 253, r.randrange(0, 254), r.randrange(0, 20)])
    if ln == 0:
        return b''
    fc = r.choice(KNOWN_FC) if r.random() < 0.6 else gen_unknown_fc(r)
    while fc in KNOWN_FC and r.random() >= 0.6:
        fc = gen_unknown_fc(r)
    fill = r.choice(['rand', 'zero', 'ff', 'small'])
    if fill == 'rand':
        body = rnd_bytes(r, ln - 1)
    elif fill == 'zero':
        body = [0] * (ln - 1)
    elif fill == 'ff':
        body = [255] * (ln - 1)
    else:
        body = [r.choice([0, 0, 1, 2, 8]) for _ in range(ln - 1)]
    return bytes([fc] + body)


UNIT_POOL = [1, 2, 3, 17, 100, 247, 248, 255, 0]


def gen_units(r, k=None, frames_hint=()):
    """0..3 units with distinct ids, ascending; exception maps seeded from addresses the frames touch"""
    if k is None:
        k = r.choice([0, 1, 1, 1, 2, 2, 3])
    ids = sorted(r.sample(UNIT_POOL + [r.randrange(256)], k)) if k else []
    ids = sorted(set(ids))
    units = []
    ranges = [pdu_range(p) for p in frames_hint]
    ranges = [x for x in ranges if x and x[1] >= 1]
    for uid in ids:
        rex, wex, pts = [], [], [[], [], [], []]
        for _ in range(r.choice([0, 0, 1, 1, 2, 4])):
            if ranges and r.random() < 0.8:
                s, n = r.choice(ranges)
                a = min(65535, s + r.choice([0, 0, n - 1, r.randrange(0, min(n, 3000)), n, 7, 8]))
            else:
                a = r.randrange(65536)
            rex.append((r.randrange(4), a, r.choice([1, 2, 3, 4, 4, 6, 0, 11, 0x80, 255, r.randrange(256)])))
        for _ in range(r.choice([0, 0, 0, 1, 2])):
            if ranges and r.random() < 0.8:
                s, n = r.choice(ranges)
                a = min(65535, s + r.choice([0, n - 1, r.randrange(0, min(n, 3000)), n]))
            else:
                a = r.randrange(65536)
            wex.append((r.randrange(4), a, r.choice([1, 2, 3, 4, 6, 0, 200, r.randrange(256)])))
        for kk in range(4):
            for _ in range(r.choice([0, 0, 1, 3])):
                if ranges and r.random() < 0.8:
                    s, n = r.choice(ranges)
                    a = min(65535, s + r.randrange(0, min(n, 3000)))
                else:
                    a = r.randrange(65536)
                pts[kk].append((a, r.randrange(2) if kk < 2 else r.randrange(65536)))
        units.append((uid, r.choice([1, 3, 5, 7, 251, 4099, r.randrange(1, 65536)]), r.randrange(65536), tuple(rex), tuple(wex),
                      tuple(pts[0]), tuple(pts[1]), tuple(pts[2]), tuple(pts[3])))
    return share_some(r, tuple(units))


def share_some(r, units, p=0.25):
    """with probability p (and at least two units) let one unit id hold another unit's handler object"""
    if len(units) >= 2 and r.random() < p:
        i, j = r.sample(range(len(units)), 2)
        units = list(units)
        units[i] = shared_unit(units[i][0], units[j][0])
        if len(units) == 3 and r.random() < 0.3:
            k = 3 - i - j
            units[k] = shared_unit(units[k][0], units[j][0])
        units = tuple(units)
    return units


def shared_unit(uid, owner):
    return (uid, 0, 0, (), (), (), (), (), (), owner)


def units_valid(units):
    owners = [u[0] for u in units if len(u) <= 9]
    return all(u[9] in owners for u in units if len(u) > 9)


def pick_dest(r, link, units, p_conf=0.8):
    ids = [u[0] for u in units]
    if ids and r.random() < p_conf:
        return r.choice(ids)
    return r.choice([0, 1, 2, 3, 255, 247, r.randrange(256)])


def gen_role(r):
    return r.choice([b'operator', b'', b'admin', b'viewer', 'rôle'.encode(), b'a b.c:d', bytes(r.choice(b'abcxyz019_-') for _ in range(r.randrange(1, 12))),
                     '中文'.encode(), b'x' * 40])


def gen_auth(r):
    k = r.random()
    if k < 0.2:
        return ('ro', gen_role(r))
    if k < 0.3:
        return ('deny', gen_role(r))
    return ('hash', gen_role(r), r.randrange(1 << 16), r.choice([0, 100, 50, 50, 50, 30, 70, 90, 10]))


def gen_session(r, link, nframes=None, auth=None, big_ok=True, raw=0.15, units_k=None, p_conf=0.8):
    if nframes is None:
        nframes = r.choice([1, 1, 2, 3, 4, 6, 8, 12])
    pdus = []
    while len(pdus) < nframes:
        k = r.random()
        if link == 'tcp' and k < raw:
            pdus.append(gen_raw_pdu(r))
        elif link == 'tcp' and k < raw + 0.05:
            pdus.append(bytes([gen_unknown_fc(r)] + rnd_bytes(r, r.choice([0, 0, 4, 5, 10]))))
        elif k < 0.5 and pdus and pdu_range(pdus[-1]) and pdus[-1][0] in (5, 6, 15, 16):
            # read back what the previous write touched (interference between requests)
            s, n = pdu_range(pdus[-1])
            fc = r.choice([1, 2]) if pdus[-1][0] in (5, 15) else r.choice([3, 4])
            if pdus[-1][0] in (5, 15):
                fc = 1 if r.random() < 0.8 else 2
            else:
                fc = 3 if r.random() < 0.8 else 4
            lo = max(0, s - r.choice([0, 0, 1, 3]))
            cnt = max(1, min(n + r.choice([0, 1, 2, 5]), 2000 if fc <= 2 else 125, 65536 - lo))
            pdus.append(bytes([fc] + be(lo) + be(cnt)))
        else:
            pdus.append(gen_pdu(r, link, big_ok=big_ok))
    units = gen_units(r, units_k, pdus)
    frames = []
    tx = r.randrange(65536)
    for p in pdus:
        frames.append((tx if link == 'tcp' else None, pick_dest(r, link, units, p_conf), bytes(p)))
        tx = (tx + r.choice([1, 1, 1, 0, 7, 65535])) % 65536
    return (link, units, auth, tuple(frames))


# ------------------------------------------------------------------------------------------ running
def run_impl(ctx, cases, shards=16, args=()):
    """the production session task on every case. Logging must not influence behaviour (C20): every 7th
    case has a ChangeDecoding(max) command inserted between two of its frames, which makes the session
    format every PDU / frame / byte dump from then on; the expected output is unchanged."""
    lines = []
    for k, c in enumerate(cases):
        line = to_line(c)
        if k % 7 == 3 and c[3]:
            head, fs = line.rsplit('|', 1)
            fl = fs.split(',')
            fl.insert(k % (len(fl) + 1), '@max')
            line = head + '|' + ','.join(fl)
        lines.append(line)
    return ctx.harness('server', lines, shards=shards, args=list(args))


def run_coq(ctx, cases, per_shard=None):
    if per_shard is None:
        per_shard = max(20, min(200, len(cases) // 16 + 1))
    if STATE['model_ok']:
        res = ctx.coq_eval(MODULES, 'run_both', [to_coq(c) for c in cases], case_type='case', per_shard=per_shard)
        return [tuple(x.split('#')) for x in res]
    res = ctx.coq_eval(SPEC_MODULES, 'run_spec', [to_coq(c) for c in cases], case_type='case', per_shard=per_shard)
    return [(None, x) for x in res]


def split3(line):
    """'replies|log|end' -> (list of replies, list of log entries, end)"""
    if line in ('PANIC', 'WEDGED'):
        return ([line], [line], line)
    a, b, c = line.split('|')
    return (a.split(',') if a != '-' else [], b.split(';') if b != '-' else [], c)


def handler_calls(log):
    return [e for e in log if not e.startswith('au.')]


def expand_runs(log):
    """undo the run merging of read entries: rc.1.5-7 -> rc.1.5, rc.1.6, rc.1.7 (runs are merged across
    requests, so two logs of the same calls can be split differently when other entries intervene)"""
    out = []
    for e in log:
        if e[:3] in ('rc.', 'rd.', 'rh.', 'ri.'):
            pre, rng = e.rsplit('.', 1)
            a, b = rng.split('-')
            out.extend(f'{pre}.{k}' for k in range(int(a), int(b) + 1))
        else:
            out.append(e)
    return out


def auth_calls(log):
    return [e for e in log if e.startswith('au.')]


def observe(line, what):
    rep, log, end = split3(line)
    if what == 'replies':
        return (rep, end)
    if what == 'calls':
        return (handler_calls(log), end)
    if what == 'all':
        return (rep, log, end)
    raise ValueError(what)


def differs(i, b, what):
    """implementation line i differs from the Spec (or from the model, when it could be evaluated)"""
    oi = observe(i, what)
    return oi != observe(b[1], what) or (b[0] is not None and oi != observe(b[0], what))


def shrink_candidates(case):
    link, units, auth, frames = case
    for i in range(len(frames)):
        yield (link, units, auth, frames[:i] + frames[i + 1:])
    for i in range(len(units)):
        if units_valid(units[:i] + units[i + 1:]):
            yield (link, units[:i] + units[i + 1:], auth, frames)
    for i, u in enumerate(units):
        if len(u) > 9:
            continue
        for j in (3, 4, 5, 6, 7, 8):
            if u[j]:
                yield (link, units[:i] + (u[:j] + ((),) + u[j + 1:],) + units[i + 1:], auth, frames)
        if (u[1], u[2]) != (1, 0):
            yield (link, units[:i] + ((u[0], 1, 0) + u[3:],) + units[i + 1:], auth, frames)
    if auth is not None:
        yield (link, units, None, frames)
    for i, (tx, d, p) in enumerate(frames):
        if tx not in (None, 1):
            yield (link, units, auth, frames[:i] + ((1, d, p),) + frames[i + 1:])


def fails(ctx, cases, what):
    """for shrinking: does the implementation still differ from the Spec on each case?"""
    impl = run_impl(ctx, cases, shards=12, args=['--watchdog', '1'])     # shrinking: small cases, short watchdog
    both = run_coq(ctx, cases)
    return [observe(i, what) != observe(b[1], what) for i, b in zip(impl, both)]


def describe(case):
    link, units, auth, frames = case
    fs = ' '.join(f'[{"tx=%d " % f[0] if f[0] is not None else ""}dest={f[1]} pdu={bytes(f[2]).hex().upper() or "(empty)"}]' for f in frames[:4])
    return f'{link} units={[u[0] for u in units]} auth={auth_str(auth)} frames={fs}{" ..." if len(frames) > 4 else ""}'


def violation_key(case, prefix):
    link, units, auth, frames = case
    last = frames[-1][2] if frames else b''
    cls = classify(last)
    extra = ''
    rg = pdu_range(last)
    if rg and len(last) and last[0] in (15, 16) and rg[1] > (1968 if last[0] == 15 else 123):
        extra = '.count>limit'
    return f'{prefix}.{cls}{extra}.{link}'


def case_from_json(c):
    link, units, auth, frames = c
    units = tuple(tuple(tuple(tuple(t) for t in f) if isinstance(f, list) else f for f in u) for u in units)
    if auth is not None:
        auth = tuple([auth[0], bytes(auth[1])] + list(auth[2:]))
    frames = tuple((f[0], f[1], bytes(f[2])) for f in frames)
    return (link, units, auth, frames)


def case_to_json(c):
    link, units, auth, frames = c
    return [link, [list(list(list(t) for t in f) if isinstance(f, tuple) else f for f in u) for u in units],
            None if auth is None else [auth[0], list(auth[1])] + list(auth[2:]),
            [[f[0], f[1], list(f[2])] for f in frames]]


def compare(ctx, cases, what, prefix, label):
    """run implementation, model and Spec on the cases; record violations; returns (impl, both, n_spec, n_model)"""
    impl = run_impl(ctx, cases)
    both = run_coq(ctx, cases)
    n_spec = n_model = 0
    for c, i, (m, s) in zip(cases, impl, both):
        oi, os_ = observe(i, what), observe(s, what)
        om = observe(m, what) if m is not None else oi
        if oi != os_:
            n_spec += 1
            if n_spec <= 2:
                small = vlib.shrink_batch(c, lambda xs: fails(ctx, xs, what), shrink_candidates)
                si = run_impl(ctx, [small], shards=1)[0]
                sb = run_coq(ctx, [small])[0]
                ctx.violation(violation_key(small, prefix), f'{label}: implementation differs from the reference server on {describe(small)}',
                              {'cases': [case_to_json(small)], 'harness_line': to_line(small), 'impl': si, 'spec': sb[1], 'model': sb[0],
                               'observed': what, 'original_case': case_to_json(c)})
        elif oi != om:
            n_model += 1
            if n_model <= 2:
                ctx.violation(prefix + '.model-differs-from-impl', f'{label}: model differs from implementation (Spec agrees with implementation) on {describe(c)}',
                              {'cases': [case_to_json(c)], 'harness_line': to_line(c), 'impl': i, 'spec': s, 'model': m, 'observed': what},
                              no_failing_input=True)
    return impl, both, n_spec, n_model


def frame_classes(cases):
    cl = {}
    for c in cases:
        for f in c[3]:
            k = classify(f[2])
            cl[k] = cl.get(k, 0) + 1
    return cl


# ------------------------------------------------------------------------------------------ systematic case families
def simple_unit(uid=1, m=3, c=5):
    return (uid, m, c, (), (), (), (), (), ())


def boundary_cases(link):
    """every boundary quantity for every function code that carries one, one request per session,
    start chosen so that only the quantity decides"""
    out = []
    for fc in (1, 2, 3, 4, 15, 16):
        for q in QTY:
            if fc <= 4:
                pdu = bytes([fc] + be(16) + be(q))
            else:
                need = (q + 7) // 8 if fc == 15 else 2 * q
                ln = min(need, 247)
                pdu = bytes([fc] + be(16) + be(q) + [ln] + [(7 * i + q) & 255 for i in range(ln)])
            out.append((link, (simple_unit(),), None, ((7 if link == 'tcp' else None, 1, pdu),)))
    return out


def length_cases(r):
    """TCP: every PDU length 0..253, once with a known and once with an unknown function code"""
    out = []
    for ln in range(0, 254):
        frames = []
        for known in (True, False):
            if ln == 0:
                p = b''
            else:
                fc = r.choice(KNOWN_FC) if known else gen_unknown_fc(r)
                while not known and fc in KNOWN_FC:
                    fc = gen_unknown_fc(r)
                body = rnd_bytes(r, ln - 1)
                if known and fc in (15, 16) and ln >= 7 and r.random() < 0.7:
                    # make the length the right one for some quantity
                    data = ln - 6
                    q = data * 8 - r.randrange(0, 8) if fc == 15 else data // 2
                    body = be(r.randrange(0, 100)) + be(max(q, 0)) + [data] + body[5:]
                p = bytes([fc] + body)
            frames.append((ln, 1, p))
        out.append(('tcp', (simple_unit(),), None, tuple(frames)))
    return out


def all_fc_cases():
    """TCP: all 256 function code values with a well-formed 4-byte body, 8 per session"""
    out = []
    for base in range(0, 256, 8):
        frames = tuple((base + i, 1, bytes([base + i, 0, 1, 0, 1])) for i in range(8))
        out.append(('tcp', (simple_unit(),), None, frames))
    return out


def fc_length_sweep(r):
    """thorough tier, TCP: the eight known function codes x every PDU length 1..253 x 4 payload fillings,
    and every other function code x 12 lengths, 12 frames per session"""
    pdus = []
    for fc in KNOWN_FC:
        for ln in range(1, 254):
            for fill in range(4):
                if fill == 0:
                    body = rnd_bytes(r, ln - 1)
                elif fill == 1:
                    body = [0] * (ln - 1)
                elif fill == 2:
                    body = [255] * (ln - 1)
                else:
                    # plausible header: small start, quantity matching the length where one exists
                    data = max(0, ln - 6)
                    q = data * 8 if fc == 15 else data // 2 if fc == 16 else r.choice(QTY)
                    body = (be(r.randrange(0, 64)) + be(q) + [data & 255] + rnd_bytes(r, 260))[:ln - 1]
                pdus.append(bytes([fc] + body))
    for fc in range(256):
        if fc in KNOWN_FC:
            continue
        for ln in (1, 2, 3, 5, 6, 7, 10, 100, 250, 251, 252, 253):
            pdus.append(bytes([fc] + rnd_bytes(r, ln - 1)))
    out = []
    for i in range(0, len(pdus), 12):
        frames = tuple(((i + k) & 0xFFFF, 1, p) for k, p in enumerate(pdus[i:i + 12]))
        out.append(('tcp', (simple_unit(),), None, frames))
    return out


def load_corpus(ctx, prop):
    import glob
    import json
    import os
    res = []
    for p in sorted(glob.glob(os.path.join(vlib.ROOT, 'corpus', prop, '*.json'))):
        for c in json.load(open(p))['cases']:
            res.append(case_from_json(c))
    return res


def coverage(ctx, cases, impl, rule, extra_classes=None):
    classes = frame_classes(cases)
    classes['sessions:tcp'] = sum(1 for c in cases if c[0] == 'tcp')
    classes['sessions:rtu'] = sum(1 for c in cases if c[0] == 'rtu')
    classes['sessions:with-authorization'] = sum(1 for c in cases if c[2] is not None)
    classes['sessions:with-shared-handler-object'] = sum(1 for c in cases if any(len(u) > 9 for u in c[1]))
    for k in range(4):
        classes[f'sessions:units={k}'] = sum(1 for c in cases if len(c[1]) == k)
    classes['frames'] = sum(len(c[3]) for c in cases)
    classes['replies:exception'] = 0
    classes['replies:silent'] = 0
    classes['replies:normal'] = 0
    for c, i in zip(cases, impl):
        rep, _, _ = split3(i)
        for x in rep:
            if x == '-':
                classes['replies:silent'] += 1
            elif x in ('PANIC', 'WEDGED'):
                classes['sessions:' + x] = classes.get('sessions:' + x, 0) + 1
            else:
                b = bytes.fromhex(x)
                fcb = b[7] if c[0] == 'tcp' else b[1]
                classes['replies:exception' if fcb & 0x80 else 'replies:normal'] += 1
    if extra_classes:
        classes.update(extra_classes)
    nontrivial = set(c for c in cases if any(classify(f[2]).startswith('valid') for f in c[3]))
    ctx.coverage.update({
        'evaluations': len(cases),
        'distinct_nontrivial': len(nontrivial),
        'rule': rule,
        'samples': [{'case': to_line(c)[:400], 'impl': i[:400]} for c, i in list(zip(cases, impl))[:5]],
        'input_classes': classes,
        'exhaustive': False,
    })
    return classes


# ------------------------------------------------------------------------------------------ sessions with commands
# a script case is (link, units, auth, script): script entries are frames (tx, dest, pdu) or one of
# '@min' '@max' (ChangeDecoding), '@shutdown', '@close' (command channel closed), '@block' (writes pend),
# '@unblock', '@failwrite' (the reply write of the next frame fails). While blocked, a frame is followed only
# by commands until it is resolved.
def gen_script(r, link):
    base = gen_session(r, link, nframes=r.choice([1, 2, 3, 4, 6]), big_ok=False, raw=0.05)
    script = []
    frames = list(base[3])
    for i, f in enumerate(frames):
        for _ in range(r.choice([0, 0, 0, 1, 2])):
            script.append(r.choice(['@min', '@max']))
        if r.random() < 0.04:
            script.append(r.choice(['@shutdown', '@close']))
        if r.random() < 0.06:
            script.append('@failwrite')
            script.append(f)
        elif r.random() < 0.25:
            # scripted transmit side: the reply is taken in pieces, the rest is parked; decode level changes arrive
            # while it is parked; then there is room again (every byte of the reply must go out exactly once)
            for _ in range(r.choice([1, 1, 2])):
                script.append(f'@Wa{r.choice([1, 2, 3, 5, 7, 8, 9])}')
            script.append('@Wb')
            script.append(f)
            for _ in range(r.choice([1, 1, 2, 3])):
                script.append(r.choice(['@min', '@max']))
            script.append('@R')
        elif r.random() < 0.35:
            script.append('@block')
            script.append(f)
            for _ in range(r.choice([0, 0, 1, 2, 3])):
                script.append(r.choice(['@min', '@max']))
            k = r.random()
            if k < 0.6:
                script.append('@unblock')
            elif k < 0.75:
                script.append('@shutdown')
            elif k < 0.9:
                script.append('@close')
            elif i + 1 < len(frames):
                script.append('@unblock')
            # else: left pending at the end of the script
        else:
            script.append(f)
    if r.random() < 0.3:
        script.append(r.choice(['@min', '@max', '@shutdown', '@close']))
    return (base[0], base[1], base[2], tuple(script))


def script_line(case):
    link, units, auth, script = case
    head = to_line((link, units, auth, ())).rsplit('|', 1)[0]
    toks = [x if isinstance(x, str) else adu(link, x).hex().upper() for x in script]
    return head + '|' + (','.join(toks) or '-')


def script_coq(case):
    link, units, auth, script = case
    base = to_coq((link, units, auth, ()))
    assert base.endswith(', [])')
    evs = []
    blocked = False
    failing = False
    for x in script:
        if isinstance(x, str):
            if x in ('@min', '@max'):
                evs.append(f'ECommand (ChangeDecoding {1 if x == "@max" else 0})')
            elif x == '@shutdown':
                evs.append('ECommand Shutdown')
            elif x == '@close':
                evs.append('EClosed')
            elif x == '@failwrite':
                failing = True
            elif x == '@block' or x == '@Wb':
                blocked = True
            elif x.startswith('@Wa'):
                pass
            elif x == '@R':
                blocked = False
                evs.append('EWriteDone')
            elif x == '@unblock':
                blocked = False
                evs.append('EWriteDone')
        else:
            tx, dest, pdu = x
            d = 'DBroadcast' if (link == 'rtu' and dest == 0) else f'(DUnit {dest})'
            t = 'None' if tx is None else f'(Some {tx})'
            evs.append(f'EFrame (mkf {t} {d} {_nl(pdu)})')
            if failing:
                evs.append('EWriteFailed')
                failing = False
            elif not blocked:
                evs.append('EWriteDone')
    return base[:-len('[])')] + '[' + ';'.join(evs) + '])'


def run_scripts(ctx, cases):
    """implementation, model and Spec on script cases; replies are compared as the sequence of replies delivered"""
    impl = ctx.harness('server', [script_line(c) for c in cases], shards=16, timeout=300)
    norm = []
    for i in impl:
        rep, log, end = split3(i)
        norm.append((''.join(x for x in rep if x != '-'), log, end))      # the bytes the transport accepted, in order
    if STATE['model_ok']:
        res = ctx.coq_eval(MODULES, 'run_both_ev', [script_coq(c) for c in cases], case_type='ecase', per_shard=100)
        both = [tuple(x.split('#')) for x in res]
    else:
        res = ctx.coq_eval(SPEC_MODULES, 'run_spec_ev', [script_coq(c) for c in cases], case_type='ecase', per_shard=100)
        both = [(None, x) for x in res]
    return impl, norm, both


# ------------------------------------------------------------------------------------------ the RTU server task loop (pty, real time)
# a scenario is (rmin_ms, rmax_ms, units, phases); phases alternate between the port being served and waits:
#   ('open', probe_pdu_or_None, [pdu, ...], end)    end: 'hup' | 'bad' | 'shutdown' | 'drop' | 'none'
#   ('wait', [level, ...], probe_pdu_or_None, end)   end: 'elapse' | 'shutdown' | 'drop'   (after a session error)
#   ('openfail', [level, ...], end)                  the open attempt fails, then the same kind of wait
# a frame that ends the session with BadFrame and leaves NOTHING in the reader's buffer: right length, wrong CRC.
# (An unknown function code would leave its tail in the ReadBuffer, which the SAME reader then parses as the
# start of the next frame after the re-open: that is the reader's business, C05/C06.)
BAD_RTU_ADU = bytes([1, 3, 0, 0, 0, 1, 0x00, 0x00])


def gen_rtu_scenario(r):
    rmin = 500
    units = (simple_unit(1, r.choice([1, 3, 7]), r.randrange(1000)),)
    if r.random() < 0.4:
        units = units + (shared_unit(2, 1),) if r.random() < 0.5 else units + (simple_unit(2, 5, 9),)

    def pdu():
        k = r.random()
        if k < 0.4:
            return bytes([6] + be(r.randrange(0, 4)) + be(r.randrange(65536)))
        if k < 0.6:
            return bytes([5] + be(r.randrange(0, 4)) + be(r.choice([0xFF00, 0])))
        if k < 0.85:
            return bytes([3] + be(0) + be(r.choice([1, 4])))
        return bytes([1] + be(0) + be(r.choice([1, 4, 9])))
    phases = []
    if r.random() < 0.25:
        phases.append(('openfail', [r.choice(['max', 'min']) for _ in range(r.choice([0, 1, 2]))], 'elapse'))
    n_open = r.choice([1, 2, 2, 3])
    probe = None
    for i in range(n_open):
        last = i == n_open - 1
        end = r.choice(['none', 'shutdown', 'drop']) if last else r.choice(['hup', 'bad'])
        phases.append(('open', probe, [(r.choice([u[0] for u in units]), pdu()) for _ in range(r.choice([1, 2, 3]))], end))
        probe = None
        if not last or (last and end in ('hup', 'bad')):
            wend = 'elapse'
            if i == n_open - 2 and r.random() < 0.3:
                wend = r.choice(['shutdown', 'drop'])
            levels = [r.choice(['max', 'min']) for _ in range(r.choice([0, 1, 1, 2, 3]))]
            if wend == 'elapse' and r.random() < 0.6:
                probe = (1, bytes([3, 0, 0, 0, 2]))
            phases.append(('wait', levels, probe, wend))
            if wend != 'elapse':
                break
    return (rmin, 4 * rmin, units, tuple(phases))


def rtu_scenario_line(sc, silent=None):
    """harness line; if `silent` is a list it receives the indexes of recorded entries that must be `-`
    (a bad frame; a request sent before the wait has elapsed: answering it would mean the wait was cut short)"""
    rmin, rmax, units, phases = sc
    if silent is None:
        silent = []
    head = to_line(('rtu', units, None, ())).split('|')[1]
    steps = []
    fails = 0           # consecutive failed opens (doubling)

    def tx(u, p):
        return 'tx:' + adu('rtu', (None, u, p)).hex().upper()
    first = phases[0][0]
    if first == 'open':
        steps += ['link', 'sleep:300']
    else:
        steps += ['unlink', 'sleep:100']
    for k, ph in enumerate(phases):
        nxt = phases[k + 1][0] if k + 1 < len(phases) else None
        if ph[0] == 'open':
            _, probe, txs, end = ph
            if probe is not None:
                steps.append('rx')
            steps += [tx(u, p) for u, p in txs]
            if end == 'bad':
                silent.append(sum(1 for x in steps if x[:2] in ('tx', 'rx')))
            steps += {'hup': ['hup'], 'bad': ['txq:' + BAD_RTU_ADU.hex().upper()], 'shutdown': ['shutdown', 'sleep:150'], 'drop': ['drop', 'sleep:150'], 'none': []}[end]
            fails = 0
        else:
            if ph[0] == 'openfail':
                _, levels, end = ph
                probe = None
                delay = rmin * (2 ** fails)
                fails += 1
            else:
                _, levels, probe, end = ph
                delay = rmin
            steps += levels
            if end == 'elapse':
                if nxt == 'open':
                    steps.append('link')
                if probe is not None:
                    silent.append(sum(1 for x in steps if x[:2] in ('tx', 'rx')))
                    steps.append('txq:' + tx(*probe)[3:])   # the port is not open yet: nothing may come back
                steps.append(f'sleep:{delay + 450}')
            else:
                steps += [end, 'sleep:150']
    return f'{rmin}:{rmax}|{head}|' + ','.join(steps)


def rtu_scenario_coq(sc):
    rmin, rmax, units, phases = sc
    base = to_coq(('rtu', units, None, ()))            # (LRtu, um, us, CNone, [])
    inner = base[len('(LRtu, '):-len(', CNone, [])')]
    ns = 1000000

    def ef(u, p):
        d = 'DBroadcast' if u == 0 else f'(DUnit {u})'
        return f'EFrame (mkf None {d} {_nl(p)}); EWriteDone'
    eps = []
    k = 0
    fails = 0
    while k < len(phases):
        ph = phases[k]
        if ph[0] == 'openfail':
            _, levels, end = ph
            delay = rmin * (2 ** fails) * ns
            fails += 1
            w = [f'WCommand (ChangeDecoding {1 if x == "max" else 0})' for x in levels]
            w.append({'elapse': f'WAdvance {delay}', 'shutdown': 'WCommand Shutdown', 'drop': 'WClosed'}[end])
            eps.append(f'EpOpenFails [{";".join(w)}]')
            k += 1
        else:
            _, probe, txs, end = ph
            fails = 0
            evs = []
            if probe is not None:
                evs.append(ef(*probe))
            evs += [ef(u, p) for u, p in txs]
            evs += {'hup': ['EReadFailed'], 'bad': ['EReadFailed'], 'shutdown': ['ECommand Shutdown'], 'drop': ['EClosed'], 'none': []}[end]
            w = []
            if k + 1 < len(phases) and phases[k + 1][0] == 'wait':
                _, levels, _, wend = phases[k + 1]
                w = [f'WCommand (ChangeDecoding {1 if x == "max" else 0})' for x in levels]
                w.append({'elapse': f'WAdvance {rmin * ns}', 'shutdown': 'WCommand Shutdown', 'drop': 'WClosed'}[wend])
                k += 1
            eps.append(f'EpOpen [{";".join(evs)}] [{";".join(w)}]')
            k += 1
    return f'({inner}, ({rmin * ns}, {rmax * ns}), [{";".join(eps)}])'


def run_rtu_scenarios(ctx, scs):
    silents = [[] for _ in scs]
    impl = ctx.harness('rtu_task', [rtu_scenario_line(s, sl) for s, sl in zip(scs, silents)], shards=4, timeout=900)
    norm = []
    for i, sl in zip(impl, silents):
        rep, log, end = split3(i)
        early = [k for k in sl if k < len(rep) and rep[k] != '-']
        norm.append(([x for k, x in enumerate(rep) if k not in sl], log, end, early))
    if STATE['model_ok']:
        res = ctx.coq_eval(MODULES, 'run_both_task', [rtu_scenario_coq(s) for s in scs], case_type='tcase', per_shard=50)
        both = [tuple(x.split('#')) for x in res]
    else:
        res = ctx.coq_eval(SPEC_MODULES, 'run_spec_task', [rtu_scenario_coq(s) for s in scs], case_type='tcase', per_shard=50)
        both = [(None, x) for x in res]
    return impl, norm, both


# ------------------------------------------------------------------------------------------ byte-level delivery and re-opened ports
# A stream case is (case, script): `case` as everywhere (its frames are what the framing rule cuts out of the
# stream), `script` the way the concatenated ADUs reach the server: hex chunks that ignore frame boundaries
# (many pipelined frames per chunk, totals above 260 and 520 bytes so that the 260-byte receive buffer fills
# with a partial frame at its end and is compacted, chunk edges at 259/260/261, cuts inside a frame) with
# ChangeDecoding commands between chunks (the waiting next_frame is dropped and re-entered).
def gen_stream_case(r, link, auth=None, p_conf=0.8):
    fam = r.choice(['pipeline', 'pipeline', 'edges', 'halves', 'halves', 'random'])
    if fam in ('pipeline', 'edges'):
        n = r.choice([24, 30, 45, 60])
        base = gen_session(r, link, nframes=n, auth=auth, big_ok=False, raw=0.03, p_conf=p_conf)
        # mostly short requests so that many fit into one buffer fill; a few long ones shift the alignment
        frames = []
        for f in base[3]:
            if len(f[2]) > 40 and r.random() < 0.8:
                f = (f[0], f[1], bytes([6] + be(r.randrange(0, 8)) + be(r.randrange(65536))))
            frames.append(f)
        case = (base[0], base[1], base[2], tuple(frames))
    else:
        case = gen_session(r, link, nframes=r.choice([1, 2, 3, 5, 8]), auth=auth, big_ok=False, raw=0.05, p_conf=p_conf)
    stream = b''.join(adu(link, f) for f in case[3])
    cuts = []
    if fam == 'pipeline':
        k = r.choice([0, 1, 2])
        cuts = sorted(set(r.randrange(1, max(2, len(stream))) for _ in range(k)))
    elif fam == 'edges':
        e = r.choice([259, 260, 261, 519, 520, 521])
        cuts = [c for c in (e, e + r.choice([1, 7, 260, 261])) if c < len(stream)]
    elif fam == 'halves':
        # a cut strictly inside every other frame or so
        pos = 0
        for f in case[3]:
            ln = len(adu(link, f))
            if ln >= 2 and r.random() < 0.7:
                cuts.append(pos + r.randrange(1, ln))
            pos += ln
    else:
        cuts = sorted(set(r.randrange(1, max(2, len(stream))) for _ in range(r.choice([1, 3, 6, 12]))))
    cuts = [c for c in sorted(set(cuts)) if 0 < c < len(stream)]
    chunks = [stream[a:b] for a, b in zip([0] + cuts, cuts + [len(stream)])] if stream else []
    script = []
    for i, c in enumerate(chunks):
        if i > 0 and (fam == 'halves' and r.random() < 0.7 or r.random() < 0.15):
            script.append(r.choice(['@max', '@min']))
        script.append(c.hex().upper())
    return (case, tuple(script))


# A re-open case: ONE RTU server session run over consecutive ports (RtuServerTask): groups of frames, a group
# may end with a frame whose CRC is wrong (the port session ends with BadFrame); then the port is re-opened.
# Frames go to served AND unserved unit ids; what the framing rule delivers are the frames with a good CRC.
def gen_reopen_case(r):
    units = gen_units(r, r.choice([1, 2, 2, 3]))
    ids = [u[0] for u in units if u[0] != 0] or [1]
    others = [x for x in (1, 2, 3, 9, 17, 100, 247) if x not in [u[0] for u in units]]

    def frame():
        dest = r.choice(ids) if r.random() < 0.55 else r.choice(others + [0])
        k = r.random()
        if k < 0.45:
            pdu = bytes([r.choice([1, 2, 3, 4])] + be(r.randrange(0, 50)) + be(r.choice([1, 2, 5, 9])))
        elif k < 0.75:
            pdu = bytes([6] + be(r.randrange(0, 50)) + be(r.randrange(65536)))
        elif k < 0.85:
            pdu = bytes([5] + be(r.randrange(0, 50)) + be(r.choice([0xFF00, 0])))
        else:
            q = r.choice([1, 2, 3])
            pdu = bytes([16] + be(r.randrange(0, 50)) + be(q) + [2 * q] + rnd_bytes(r, 2 * q))
        return (None, dest, pdu)
    frames, script = [], []
    ngroups = r.choice([2, 2, 3, 4])
    for g in range(ngroups):
        for _ in range(r.choice([0, 1, 2, 3])):
            f = frame()
            frames.append(f)
            script.append(adu('rtu', f).hex().upper())
        if g + 1 < ngroups:
            if r.random() < 0.8:
                f = frame()
                a = bytearray(adu('rtu', f))
                a[-1] ^= r.choice([1, 0x80, 0xFF])
                if r.random() < 0.5:
                    a[-2] ^= r.choice([1, 0x55])
                script.append(bytes(a).hex().upper())        # wrong CRC: ends this port session, delivers nothing
            script.append('@reopen')
    return (('rtu', units, None, tuple(frames)), tuple(script))


def run_streams(ctx, scases):
    """implementation on the scripts; model and Spec on the frames. Returns per case
    (impl line, flat impl reply bytes, impl log, impl end, flat spec reply bytes, spec log, flat model reply bytes, model log)"""
    lines = [to_line((c[0], c[1], c[2], ())).rsplit('|', 1)[0] + '|' + (','.join(s) or '-') for c, s in scases]
    impl = ctx.harness('server', lines, shards=16, timeout=600)
    both = run_coq(ctx, [c for c, _ in scases])
    out = []
    for ln, i, b in zip(lines, impl, both):
        rep, log, end = split3(i)
        flat = ''.join(x for x in rep if x != '-')
        srep, slog, _ = split3(b[1])
        sflat = ''.join(x for x in srep if x != '-')
        if b[0] is not None:
            mrep, mlog, _ = split3(b[0])
            mflat = ''.join(x for x in mrep if x != '-')
        else:
            mflat, mlog = sflat, slog
        out.append({'line': ln, 'impl': i, 'flat': flat, 'log': log, 'end': end, 'sflat': sflat, 'slog': slog, 'mflat': mflat, 'mlog': mlog, 'spec': b[1], 'model': b[0]})
    return out


def stream_pass(ctx, scases, what, name, key, reopen=False):
    """what: 'replies' (reply byte stream + how the session ended), 'calls' (handler call log), 'all'"""
    res = run_streams(ctx, scases)
    bad = []
    for k, x in enumerate(res):
        ok_end = True if reopen else x['end'] == 'open'
        calls_i, calls_s, calls_m = handler_calls(x['log']), handler_calls(x['slog']), handler_calls(x['mlog'])
        if what == 'replies':
            d_spec = x['flat'] != x['sflat'] or not ok_end
            d_model = x['flat'] != x['mflat']
        elif what == 'calls':
            d_spec = calls_i != calls_s or not ok_end
            d_model = calls_i != calls_m
        else:
            d_spec = x['flat'] != x['sflat'] or x['log'] != x['slog'] or not ok_end
            d_model = x['flat'] != x['mflat'] or x['log'] != x['mlog']
        if d_spec or d_model:
            bad.append((k, d_spec))
    ctx.oblige(name, not bad, f'{len(bad)} of {len(scases)} differ')
    for k, d_spec in bad[:2]:
        x = res[k]
        ctx.violation(key, f'{name}: the server, fed the byte stream in these chunks, differs from the reference server applied to the frames of the stream: {x["line"][:260]}',
                      {'stream_cases': [[case_to_json(scases[k][0]), list(scases[k][1])]], 'reopen': reopen, 'name': name, 'stream_key': key,
                       'harness_line': x['line'], 'impl': x['impl'], 'spec': x['spec'], 'model': x['model'], 'observed': what}, no_failing_input=not d_spec)
    return res


def replay_streams(ctx):
    """bin/check <prop> --replay <file> for a byte-stream / re-open violation"""
    rp = ctx.replay
    scases = [(case_from_json(c), tuple(s)) for c, s in rp['stream_cases']]
    stream_pass(ctx, scases, rp.get('observed', 'all'), rp.get('name', 'correspondence:byte-stream'), rp.get('stream_key', 'server.byte-stream'), reopen=bool(rp.get('reopen')))
    ctx.coverage.update({'evaluations': len(scases), 'distinct_nontrivial': len(scases), 'rule': 'replay of a byte-stream case', 'samples': [], 'input_classes': {}})


# ------------------------------------------------------------------------------------------ TLS + authorization through the C ABI and the Rust API
# `verif-harness ffi_authz seq <server> <policy> <unit> <role>:<op>:<start>:<n>,...`: ONE TLS server with an authorization handler
# (created through the C ABI or the Rust API), one client session per entry, each with the certificate of its role
# (/verif/certs/ca2: operator, viewer, roleless = no role extension, tworoles = two role extensions).
FFI_LABEL = {'rc': 'read_coils', 'rd': 'read_discrete_inputs', 'rh': 'read_holding_registers', 'ri': 'read_input_registers',
             'wc': 'write_single_coil', 'wr': 'write_single_register', 'wmc': 'write_multiple_coils', 'wmr': 'write_multiple_registers'}


# role certificate -> the role the authorization handler must be asked about (None: no usable role, no session).
#   chained: the client presents [own certificate (viewer), issuing CA certificate (engineer)], the server trusts only the root:
#            the role is the LEAF's;  viaint: [own certificate (operator), intermediate without role];
#   nulrole: self-signed pair whose role string is "oper\0ator": a C callback sees the C string `oper` (C-ABI server only)
SEEN_ROLE = {'operator': 'operator', 'viewer': 'viewer', 'chained': 'viewer', 'viaint': 'operator', 'nulrole': 'oper', 'roleless': None, 'tworoles': None}


def authz_policy(policy, label, role):
    if policy == 'allow':
        return True
    if policy == 'deny':
        return False
    if policy == 'coils':
        return 'coil' in label
    return role == 'operator' or (role == 'viewer' and label.startswith('read_'))     # byrole


def gen_authz_sequences(r, quick=True):
    seqs = []
    ops = list(FFI_LABEL)
    for server in ('ffi', 'rust'):
        # every request kind under a policy that separates kinds, and under one that separates roles
        seqs.append((server, 'coils', 1, tuple(('operator', op, 1, 2) for op in ops)))
        seqs.append((server, 'byrole', 1, tuple((role, op, 1, 2) for op in ('wmr', 'rh', 'wc') for role in ('operator', 'viewer'))))
        # an earlier allowed session with another role must not carry over
        seqs.append((server, 'byrole', 1, (('operator', 'wc', 1, 1), ('viewer', 'wmr', 1, 2), ('viewer', 'rh', 1, 2), ('operator', 'wr', 2, 9))))
        seqs.append((server, 'byrole', 1, (('viewer', 'rc', 0, 3), ('operator', 'wmc', 1, 2), ('viewer', 'wc', 1, 1))))
        # a certificate without a usable role gets no session at all, whatever the policy
        seqs.append((server, 'deny', 1, (('roleless', 'wr', 1, 7), ('operator', 'wr', 1, 7))))
        seqs.append((server, 'allow', 1, (('tworoles', 'wmr', 1, 2), ('roleless', 'rh', 1, 1), ('viewer', 'rh', 1, 1))))
        # a client that presents a chain: the role is the one of its OWN certificate, not of the CA that issued it
        seqs.append((server, 'byrole', 1, (('chained', 'rh', 1, 2), ('chained', 'wr', 1, 7), ('chained', 'wc', 2, 1), ('chained', 'wmr', 1, 2), ('chained', 'rc', 0, 3))))
        seqs.append((server, 'byrole', 1, (('viaint', 'wr', 1, 7), ('viewer', 'wr', 1, 7), ('viaint', 'wmc', 1, 2))))
        for _ in range(2 if quick else 12):
            pol = r.choice(['coils', 'byrole', 'byrole', 'deny', 'allow'])
            k = r.choice([2, 3, 5])
            seqs.append((server, pol, r.choice([1, 7, 200]), tuple((r.choice(['operator', 'viewer', 'viewer', 'roleless', 'viaint']), r.choice(ops), r.randrange(0, 8), r.choice([1, 2])) for _ in range(k))))
    # a hostile role string (U+0000 inside): the request is authorized against what the C callback sees and answered,
    # the session must not die
    seqs.append(('ffi', 'allow', 1, (('nulrole', 'wr', 1, 7), ('nulrole', 'rh', 1, 1))))
    seqs.append(('ffi', 'byrole', 1, (('nulrole', 'rh', 1, 1), ('nulrole', 'wmr', 1, 2))))
    seqs.append(('ffi', 'coils', 1, (('nulrole', 'wc', 1, 1), ('nulrole', 'wr', 1, 1))))
    return seqs


def authz_line(sq):
    server, pol, unit, sess = sq
    return f'seq {server} {pol} {unit} ' + ','.join(f'{ro}:{op}:{st}:{n}' for ro, op, st, n in sess)


def run_authz_sequences(ctx, seqs):
    import os
    out = ctx.harness('ffi_authz', [authz_line(s) for s in seqs], args=[vlib.REPO, os.path.join(vlib.ROOT, 'certs')], shards=4, timeout=900)
    res = []
    for sq, line in zip(seqs, out):
        server, pol, unit, sess = sq
        got = line.split(';')
        per = []
        for k, (role, op, st, n) in enumerate(sess):
            g = got[k] if k < len(got) else line
            label = FFI_LABEL[op]
            seen = SEEN_ROLE[role]
            usable = seen is not None
            client = g.split(' ')[0][len('client='):] if g.startswith('client=') else g
            count = g.rsplit(' x', 1)[1] if ' x' in g else '?'
            auth = g.split(' auth=', 1)[1].rsplit(' x', 1)[0] if ' auth=' in g else '?'
            if not usable:
                want = {'served': False, 'queries': '0'}
                ok_effect = not client.startswith('OK')
                ok_full = ok_effect and count == '0'
            else:
                allowed = authz_policy(pol, label, seen)
                arg = f'{st}' if op in ('wc', 'wr') else f'{st},{max(n, 1)}'
                want_auth = f'{label}:{unit}:{arg}:{seen}'
                want = {'served': True, 'allowed': allowed, 'query': want_auth}
                ok_effect = client.startswith('OK') if allowed else client == 'EX:IllegalFunction'
                ok_full = ok_effect and auth == want_auth and count == '1'
            per.append({'session': k + 1, 'role': role, 'op': op, 'got': g, 'want': want, 'ok_effect': ok_effect, 'ok_full': ok_full})
        res.append(per)
    return out, res


def replay_authz_sequences(ctx, effect_only):
    """bin/check C02|C08 --replay <file> for an authorization-sequence violation"""
    seqs = [(a, b, c, tuple(tuple(x) for x in d)) for a, b, c, d in ctx.replay['authz_sequences']]
    out, res = run_authz_sequences(ctx, seqs)
    bad = [(sq, o, p) for sq, o, per in zip(seqs, out, res) for p in per if not (p['ok_effect'] if effect_only else p['ok_full'])]
    ctx.oblige('tls-authorization-sequences:replay', not bad, str([x[2] for x in bad[:1]])[:300])
    for sq, o, p in bad[:1]:
        ctx.violation(ctx.replay.get('key', 'authorization.tls.replay'), f'session #{p["session"]} got `{p["got"]}`, required {p["want"]}',
                      {'authz_sequences': ctx.replay['authz_sequences'], 'harness_line': 'ffi_authz: ' + authz_line(sq), 'impl': o})
    ctx.coverage.update({'evaluations': len(seqs), 'distinct_nontrivial': len(seqs), 'rule': 'replay of an authorization sequence', 'samples': [], 'input_classes': {}})


# ------------------------------------------------------------------------------------------ a handler lock held by another thread
# `@hold<k>:<ms>`: an application thread holds the mutex of unit k's handler object for a while. The session that needs
# it waits (std Mutex::lock); nothing may be skipped or answered with an error because of it.
def gen_hold_case(r, broadcast):
    link = 'rtu' if broadcast else r.choice(['tcp', 'rtu'])
    ids = sorted(r.sample([1, 2, 3, 5, 17, 100, 247], r.choice([2, 3])))
    units = [simple_unit(u, r.choice([1, 3, 7]), r.randrange(500)) for u in ids]
    if r.random() < 0.25:
        units[-1] = shared_unit(ids[-1], ids[0])
    units = tuple(units)
    held = r.choice(ids)
    addr = r.randrange(0, 20)
    k = r.random()
    if k < 0.4:
        w = bytes([6] + be(addr) + be(r.randrange(1, 65536)))
        rd = bytes([3] + be(addr) + be(1))
    elif k < 0.6:
        w = bytes([5] + be(addr) + be(0xFF00))
        rd = bytes([1] + be(addr) + be(1))
    elif k < 0.8:
        w = bytes([16] + be(addr) + be(2) + [4] + rnd_bytes(r, 4))
        rd = bytes([3] + be(addr) + be(2))
    else:
        w = bytes([15] + be(addr) + be(5) + [1, r.randrange(32)])
        rd = bytes([1] + be(addr) + be(5))
    tx = (lambda: r.randrange(65536)) if link == 'tcp' else (lambda: None)
    frames, script = [], []

    def add(f):
        frames.append(f)
        script.append(adu(link, f).hex().upper())
    script.append(f'@hold{held}:{r.choice([60, 120])}')
    if broadcast:
        add((tx(), 0, w))
    else:
        add((tx(), held, r.choice([w, rd])))
    for u in ids:
        add((tx(), u, rd))
    return ((link, units, None, tuple(frames)), tuple(script))


def broadcast_rejected_cases(r, n=24):
    """RTU: a broadcast write that the LOWEST-numbered unit rejects (per-address write failure), followed by unicast reads of
    the written points on every unit: the higher-numbered units must have executed the write (a broadcast is never answered,
    so only the later replies show whether it reached them)"""
    out = []
    for k in range(n):
        ids = sorted(r.sample([1, 2, 3, 5, 17, 100, 247], r.choice([2, 3])))
        addr = r.randrange(0, 50)
        kind = k % 4
        if kind == 0:
            w, rd = bytes([5] + be(addr) + be(0xFF00)), bytes([1] + be(addr) + be(1))
        elif kind == 1:
            w, rd = bytes([6] + be(addr) + be(r.randrange(1, 65536))), bytes([3] + be(addr) + be(1))
        elif kind == 2:
            w, rd = bytes([15] + be(addr) + be(6) + [1, 0x2D]), bytes([1] + be(addr) + be(6))
        else:
            w, rd = bytes([16] + be(addr) + be(2) + [4] + rnd_bytes(r, 4)), bytes([3] + be(addr) + be(2))
        rejecting = r.choice([0, 0, 1]) if len(ids) == 3 else 0
        units = []
        for j, u in enumerate(ids):
            wex = ((kind, addr, r.choice([1, 2, 4, 6])),) if j == rejecting else ()
            units.append((u, r.choice([1, 3, 7]), r.randrange(500), (), wex, (), (), (), ()))
        frames = [(None, 0, w)] + [(None, u, rd) for u in ids]
        out.append(('rtu', tuple(units), None, tuple(frames)))
    return out
