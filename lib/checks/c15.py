"""C15 - Server sessions: bounded, oldest evicted, isolated, all closed on shutdown.

Theorems (coq/theories/Properties/C15.v) about the SessionTracker / accept-loop model for all event
lists and all max_sessions. Correspondence: the REAL spawn_tcp_server_task on loopback against up to
6 raw TCP clients, scripts over {connect, client close, request, garbage, set decode level,
shutdown, drop handle}; after every operation every connection is probed with a sentinel request
and the set of answering connections, the state of the listening port and the handler's value are
compared with the model and the Spec evaluated inside Coq. Outcomes only, no wall-clock values; a
disagreement has to reproduce with a ten times longer settle pause before it is reported.
"""
import os
import vlib

REQ = ['Base.Show', 'Model.Tracker', 'Spec.TrackerSpec']
FRONT_MODELS = ['Model.Filter', 'Model.ServerFrontEval']
FRONT_GEN = ['ServerCtors.v', 'TlsVersions.v', 'TlsModes.v', 'AuthzTable.v', 'Consts.v']
CASE_T = 'nat * list sop'
FN = ('fun c : nat * list sop => let \'(m, ops) := c in '
      'let sh := fun v : list N * bool * N => let \'(l, r, x) := v in show_list show_N "," l ++ "/" ++ show_bool r ++ "/" ++ show_N x in '
      '(match trace (init m) ops with None => "PANIC" | Some t => show_list sh "|" t end) ++ "#" ++ show_list sh "|" (strace m sinit ops)')

# scenarios with W<k> (a session blocked in a reply write) need the repo fix "a server session blocked in a reply
# write ignored eviction and server shutdown"; set to False to leave them out
WRITE_STALL_OPS = True

FIXED = [
    (2, 'C C C G1 R2:7 C S C'), (0, 'C C X0 C H'), (1, 'C R0:5 D C R0:9 R1:11'), (0, 'C C C C'), (1, 'C C C C'),
    (2, 'C C C C'), (3, 'C C C C C C'), (3, 'C C C X1 C C R0:3 R2:4 R4:5'), (2, 'C C G0 C C'), (2, 'C C X1 C C'),
    (3, 'C C C D G1 D C C S'), (2, 'C C H C'), (2, 'C C S R0:9 C'), (1, 'C G0 C X1 C'), (3, 'C C C C R0:1 R1:2 C R1:3 R2:4'),
    (2, 'S C'), (2, 'H C'), (3, 'C X0 C X1 C X2 C'), (2, 'C C C R0:8 G0 X0 R1:9'),
    # W<k>: client k pipelines requests without ever reading, so that its session blocks in a reply write
    (1, 'C W0 C'), (2, 'C W0 S'), (1, 'C W0 H'), (2, 'C C W0 R1:3 C R2:4'), (2, 'C W0 X0 C C'),
    # before the fix the blocked session never drained its 8-slot command queue: the 9th decode-level command
    # blocked ServerTask::apply_command, i.e. the accept loop - no further connection served, no shutdown possible
    (2, 'C W0 D D D D D D D D D D C R1:5 S'),
    # B<k>: a request whose application handler is parked on a gate, U: release. Level changes while a session
    # is inside a transaction must neither drop that session nor lose its outstanding or later requests
    (2, 'C B0 D D D D D D D D D D U R0:5'), (2, 'C C B0 R1:3 D D U R0:4 C'), (1, 'C B0 D D D D D D D D D D D D U R0:7 C'),
]


TLS_DIR = os.path.join(vlib.REPO, 'certs', 'ca_chain')
TLS_FIXED = [
    (1, 'T T T T S'), (2, 'C C C R2:7 T T S C'), (2, 'C T G1 C X0 R2:9 H'), (1, 'T C'), (1, 'C T'), (2, 'T T T'), (3, 'T C T C T H T'),
    (0, 'T T'), (2, 'T T S'), (2, 'T T H'), (2, 'C C D T R1:4 T'),
]


def gen_tls_script(r):
    """TLS server: C = a rodbus TLS client channel, T = a peer that never starts the handshake; requests only on
    C clients, garbage only on T peers"""
    mx = r.choice([0, 1, 1, 2, 2, 3])
    n = r.choice([3, 4, 5, 6, 7, 8])
    ops, kinds, stopped = [], [], False
    for _ in range(n):
        w = r.random()
        if not kinds or (w < 0.5 and len(kinds) < 6):
            k = r.choice('CTT')
            ops.append(k)
            if not stopped:
                kinds.append(k)
            continue
        i = r.randrange(len(kinds))
        if w < 0.62:
            cs = [j for j, k in enumerate(kinds) if k == 'C']
            if cs:
                ops.append(f'R{r.choice(cs)}:{r.randrange(1, 65536)}')
            else:
                ops.append('D')
        elif w < 0.72:
            ops.append(f'X{i}')
        elif w < 0.80:
            ts = [j for j, k in enumerate(kinds) if k == 'T']
            ops.append(f'G{r.choice(ts)}' if ts else 'D')
        elif w < 0.86:
            ops.append('D')
        elif w < 0.94:
            ops.append('S')
            stopped = True
        else:
            ops.append('H')
            stopped = True
    return (mx, ' '.join(ops))


def gen_script(r):
    mx = r.choice([0, 1, 1, 2, 2, 2, 3, 3])
    n = r.choice([3, 5, 7, 9, 11, 13])
    ops, conns, stopped = [], 0, False
    flooded = set()
    for _ in range(n):
        w = r.random()
        if conns and not stopped and r.random() < 0.02:
            k = r.randrange(conns)
            if k not in flooded:
                ops.append(f'W{k}')
                flooded.add(k)
                continue
        if conns == 0 or (w < 0.42 and conns < 6):
            if conns < 6:
                ops.append('C')
                conns += 0 if stopped else 1
                continue
        k = r.randrange(conns) if conns else 0
        if r.random() < 0.5 and conns:
            k = max(0, conns - 1 - r.randrange(min(conns, 3)))   # bias towards recent (still open) connections
        if k in flooded and w < 0.81 and not (0.55 <= w < 0.68):
            ops.append('D')           # a flooded connection can only be closed by its client
        elif w < 0.55:
            ops.append(f'R{k}:{r.randrange(1, 65536)}')
        elif w < 0.68:
            ops.append(f'X{k}')
        elif w < 0.81:
            ops.append(f'G{k}')
        elif w < 0.90:
            ops.append('D')
        elif w < 0.95:
            ops.append('S')
            stopped = True
        else:
            ops.append('H')
            stopped = True
    return (mx, ' '.join(ops))


# ---------------------------------------------------------------------------------------------
# the composed server front-end (Properties/C15_Front.v): filter + tracker + TLS admission + role on ONE server
FRONT_REQ = ['Base.Show', 'Model.Filter', 'Spec.FrontSpec', 'Model.ServerFrontEval']
FRONT_T = 'afilter * sfilter * tkind * nat * list fop'
FRONT_FN = ('fun c : afilter * sfilter * tkind * nat * list fop => let \'(flt, sflt, tk, m, ops) := c in '
            'model_trace flt tk m ops ++ "#" ++ spec_trace sflt tk m ops')
# the Spec alone (Spec/FrontSpec.v imports no generated table and no model): still evaluable when a translator
# fragment or a model of one of the layers is lost
FRONT_REQ_SPEC = ['Base.Show', 'Spec.FrontSpec']
FRONT_T_SPEC = 'sfilter * tkind * nat * list fop'
FRONT_FN_SPEC = 'fun c : sfilter * tkind * nat * list fop => let \'(sflt, tk, m, ops) := c in spec_trace sflt tk m ops'
FRONT_FILTERS = ['any', 'w:127.0.0.*', 'w:127.0.*.2', 'x:127.0.0.2', 's:127.0.0.1,127.0.0.3', 'w:*.*.*.1', 's:127.0.0.2']
FRONT_KINDS = {'p': 'KPlain', 's': 'KSilent', 'g': 'KGood', 'v': 'KViewer', 'b': 'KBad', 'l': 'KRoleless'}
FRONT_FIXED = [
    ('any', 3, 'tlsauthz', 'C1g C2v C1b C1l C1s C1p'), ('w:127.0.0.2', 3, 'tlsauthz', 'C1g C2g C2v C3g'),
    ('s:127.0.0.1,127.0.0.3', 2, 'tls', 'C1g C2g C3l C1s C3g S C1g'), ('x:127.0.0.2', 2, 'tcp', 'C1p C2p C2s C2p X1 C2p H'),
    ('any', 1, 'tlsauthz', 'C1s C1g C1s'), ('w:127.0.*.2', 2, 'tlsauthz', 'C2s C2s C2g C1g C2v X2 C2l'),
    ('any', 2, 'tls', 'C1l C1b C1g C1p C1g'), ('w:*.*.*.1', 1, 'tlsauthz', 'C2g C1v C3g C1g H C1g'),
]


def front_filter_coq(f):
    def ip(x):
        a = x.split('.')
        return f'(V4 {a[0]} {a[1]} {a[2]} {a[3]})'
    if f == 'any':
        return 'Any'
    kind, rest = f.split(':', 1)
    if kind == 'x':
        return f'(Exact {ip(rest)})'
    if kind == 's':
        return '(AnyOf [' + '; '.join(ip(x) for x in rest.split(',')) + '])'
    bs = ['None' if x == '*' else f'(Some {x})' for x in rest.split('.')]
    return f'(WildcardIpv4 {{| b3 := {bs[0]}; b2 := {bs[1]}; b1 := {bs[2]}; b0 := {bs[3]} |}})'


def front_sfilter_coq(f):
    def ip(x):
        a = x.split('.')
        return f'({a[0]}, {a[1]}, {a[2]}, {a[3]})'
    if f == 'any':
        return 'FAny'
    kind, rest = f.split(':', 1)
    if kind == 'x':
        return f'(FExact {ip(rest)})'
    if kind == 's':
        return '(FAnyOf [' + '; '.join(ip(x) for x in rest.split(',')) + '])'
    bs = ['None' if x == '*' else f'(Some {x})' for x in rest.split('.')]
    return f'(FWildcard ({bs[0]}, {bs[1]}, {bs[2]}, {bs[3]}))'


def front_to_coq(c, spec_only=False):
    f, m, tr, script = c
    ops = []
    for op in script.split():
        if op[0] == 'C':
            ops.append(f'OConnect {op[1]} {FRONT_KINDS[op[2]]}')
        elif op[0] == 'X':
            ops.append(f'OClose {op[1:]}%nat')
        elif op == 'S':
            ops.append('OShutdown')
        elif op == 'H':
            ops.append('ODrop')
        else:
            raise ValueError(op)
    tk = {'tcp': 'TTcp', 'tls': 'TTls', 'tlsauthz': 'TTlsAuthz'}[tr]
    if spec_only:
        return f'({front_sfilter_coq(f)}, {tk}, {m}%nat, [{"; ".join(ops)}])'
    return f'({front_filter_coq(f)}, {front_sfilter_coq(f)}, {tk}, {m}%nat, [{"; ".join(ops)}])'


def gen_front(r):
    f = r.choice(FRONT_FILTERS)
    tr = r.choice(['tcp', 'tls', 'tlsauthz', 'tlsauthz'])
    m = r.choice([1, 2, 2, 3])
    kinds = 'ps' if tr == 'tcp' else 'psgvblggv'
    n = r.choice([3, 4, 5, 6, 7])
    ops, conns = [], 0
    for _ in range(n):
        w = r.random()
        if conns == 0 or w < 0.72:
            ops.append(f'C{r.choice("123")}{r.choice(kinds)}')
            conns += 1
        elif w < 0.86:
            ops.append(f'X{r.randrange(conns)}')
        elif w < 0.94:
            ops.append('S')
        else:
            ops.append('H')
    return (f, m, tr, ' '.join(ops))


def front_eval(ctx, cases, shards=8):
    impl = ctx.harness('front', [f'{f} {m} {tr} {sc}' for f, m, tr, sc in cases], args=[os.path.join(vlib.ROOT, 'certs')], shards=shards, timeout=900)
    if FRONT_MODEL_OK[0]:
        both = ctx.coq_eval(FRONT_REQ, FRONT_FN, [front_to_coq(c) for c in cases], case_type=FRONT_T, preamble='Local Open Scope string_scope.', per_shard=40)
    else:
        so = ctx.coq_eval(FRONT_REQ_SPEC, FRONT_FN_SPEC, [front_to_coq(c, spec_only=True) for c in cases], case_type=FRONT_T_SPEC,
                          preamble='Local Open Scope string_scope.', per_shard=40)
        both = [f'{x}#{x}' for x in so]
    return impl, both


FRONT_MODEL_OK = [True]


def front_classify(c, impl, spec):
    kinds = [op[2] for op in c[3].split() if op[0] == 'C']
    for i, s in zip(impl.split('|'), spec.split('|')):
        for k, (a, b) in enumerate(zip(i.split(','), s.split(','))):
            if a == b:
                continue
            kind = kinds[k] if k < len(kinds) else '?'
            if a.startswith('S') and b == '-':
                if kind in 'bl' or (kind in 'ps' and c[2] != 'tcp'):
                    return 'front.served-without-valid-handshake'
                return 'front.served-but-not-admitted-or-evicted'
            if a == '-' and b.startswith('S'):
                return 'front.good-connection-not-served'
            return 'front.wrong-role'
        if i != s:
            return 'front.differs'
    return 'front.differs'


def front_shrink(c):
    f, m, tr, sc = c
    ops = sc.split()
    for k in range(len(ops) - 1, -1, -1):
        rest = ops[:k] + ops[k + 1:]
        if ops[k][0] == 'C':
            n = len([o for o in rest if o[0] == 'C'])
            if any(o[0] == 'X' and int(o[1:]) >= n for o in rest):
                continue
            # connection numbers after k shift down by one
            rest = [(f'X{int(o[1:]) - 1}' if o[0] == 'X' and int(o[1:]) > len([x for x in ops[:k] if x[0] == 'C']) else o) for o in rest]
        yield (f, m, tr, ' '.join(rest))
    if f != 'any':
        yield ('any', m, tr, sc)


def run_front(ctx):
    if ctx.replay and 'front_cases' in ctx.replay:
        cases = [tuple(c) for c in ctx.replay['front_cases']]
    elif ctx.replay:
        return
    else:
        cases = list(FRONT_FIXED)
        while len(cases) < (60 if ctx.quick() else 600):
            cases.append(gen_front(ctx.rng))
    impl, both = front_eval(ctx, cases)
    suspects = [k for k, (i, b) in enumerate(zip(impl, both)) if i != b.split('#')[0] or i != b.split('#')[1]]
    if suspects:
        again, _ = front_eval(ctx, [cases[k] for k in suspects], shards=1)
        for k, i2 in zip(suspects, again):
            impl[k] = i2
    bad = n_model = 0
    for c, i, b in zip(cases, impl, both):
        model, spec = b.split('#')
        if i != spec:
            bad += 1
            if bad <= 2:
                def fails(xs):
                    im, bo = front_eval(ctx, xs, shards=2)
                    return [a != d.split('#')[1] for a, d in zip(im, bo)]
                small = vlib.shrink_batch(c, fails, front_shrink, rounds=10, width=10)
                im, bo = front_eval(ctx, [small], shards=1)
                sspec = bo[0].split('#')[1]
                if im[0] == sspec:
                    small, im, sspec = c, [i], spec
                ctx.violation(front_classify(small, im[0], sspec),
                              f'front-end: filter {small[0]}, max_sessions {small[1]}, {small[2]} server, peers "{small[3]}" (C<source 127.0.0.x><p plain|s silent|g good|v other role|b wrong authority|l role-less>): '
                              f'served connections / roles after each op: implementation {im[0]} but Spec {sspec}',
                              {'front_cases': [list(small)], 'impl': im[0], 'spec': sspec, 'original_case': list(c)})
        elif i != model:
            n_model += 1
            if n_model == 1:
                ctx.violation('front.model-differs-from-impl', f'{c}', {'front_cases': [list(c)], 'impl': i, 'model': model, 'spec': spec}, no_failing_input=True)
    ctx.oblige('correspondence:server-front-end', bad == 0 and n_model == 0, f'{n_model} model / {bad} spec mismatches in {len(cases)} scenarios')
    fc = {'tcp': 0, 'tls': 0, 'tlsauthz': 0, 'filter_rejects_a_source': 0, 'silent_peer': 0, 'bad_certificate': 0, 'role_less': 0, 'two_roles_on_one_server': 0,
          'plain_on_tls': 0, 'eviction': 0, 'after_stop': 0}
    for c, b in zip(cases, both):
        spec = b.split('#')[1]
        ops = c[3].split()
        kinds = [o[2] for o in ops if o[0] == 'C']
        fc[c[2]] += 1
        fc['silent_peer'] += 's' in kinds
        fc['bad_certificate'] += 'b' in kinds
        fc['role_less'] += 'l' in kinds
        fc['plain_on_tls'] += c[2] != 'tcp' and 'p' in kinds
        fc['two_roles_on_one_server'] += 'S:operator' in spec and 'S:viewer' in spec
        fc['after_stop'] += any(o in 'SH' for o in ops[:-1])
        steps = spec.split('|')
        fc['eviction'] += any(sum(x.startswith('S') for x in a.split(',')) > sum(x.startswith('S') for x in b2.split(',')[:len(a.split(','))]) and o[0] == 'C'
                              for a, b2, o in zip(steps, steps[1:], ops[1:]))
        if c[0] != 'any':
            import fnmatch
            fc['filter_rejects_a_source'] += any(True for o in ops if o[0] == 'C') and '-' in steps[-1]
    if not ctx.replay:
        ctx.oblige('front-generator-reaches-expected-classes', all(fc[k] >= 3 for k in ('tcp', 'tls', 'tlsauthz', 'silent_peer', 'bad_certificate', 'role_less',
                                                                               'two_roles_on_one_server', 'plain_on_tls', 'eviction', 'after_stop')), str(fc))
    ctx.coverage['front_end'] = {
        'scenarios': len(cases), 'input_classes': fc, 'rechecked': len(suspects),
        'rule': 'scenario = (address filter, max_sessions, tcp|tls|tlsauthz server, ops C<source 127.0.0.x><peer kind> X<k> S H); after every op every connection is probed through its session; '
                'compared: per connection served / not served and the role its authorization query carried, against the composed model and the layer Specs evaluated in Coq',
        'samples': [list(c) + [i] for c, i in list(zip(cases, impl))[:3]],
    }


def enumerate_scripts(length):
    """ALL scripts of exactly `length` operations over {connect, close k, request on k, set decode level,
    shutdown, drop handle} (k ranges over the connections made so far; every shorter script is a prefix,
    and a scenario is judged after every operation)"""
    out = []

    def go(prefix, conns):
        if len(prefix) == length:
            out.append(' '.join(prefix))
            return
        go(prefix + ['C'], conns + 1)
        for k in range(conns):
            go(prefix + [f'X{k}'], conns)
            go(prefix + [f'R{k}:{len(prefix) + 1}'], conns)
        for o in ('D', 'S', 'H'):
            go(prefix + [o], conns)
    go([], 0)
    return out


def to_coq(c):
    mx, script = c[0], c[1]
    out = []
    for op in script.split():
        code, rest = op[0], op[1:]
        if code == 'C':
            out.append('Connect')
        elif code == 'T':
            out.append('ConnectSilent')
        elif code == 'X':
            out.append(f'ClientClose {rest}')
        elif code == 'G':
            out.append(f'Garbage {rest}')
        elif code == 'R':
            k, v = rest.split(':')
            out.append(f'Req {k} {v}')
        elif code == 'W':
            out.append(f'Flood {rest}')
        elif code == 'B':
            out.append(f'Park {rest}')
        elif code == 'U':
            out.append('Release')
        elif code == 'D':
            out.append('SetDecode')
        elif code == 'S':
            out.append('Stop')
        elif code == 'H':
            out.append('DropHandle')
        else:
            raise ValueError(op)
    return f'({mx}%nat, [{"; ".join(out)}])'


def classify(c, impl, spec):
    """stable class name of the first step on which the implementation differs from the Spec"""
    if is_create(c):
        return 'create.' + classify((c[0], c[1]) + (('tls',) if is_tls(c) else ()), impl, spec)
    if is_tls(c):
        return 'tls.' + classify(c[:2], impl, spec)
    mx, script = c
    ops = script.split()
    stopped = False
    for op, i, s in zip(ops, impl.split('|'), spec.split('|')):
        stopped = stopped or op in ('S', 'H')
        if i == s:
            continue
        if 'HUNG' in i or 'BADREPLY' in i:
            return 'probe-' + ('hung' if 'HUNG' in i else 'bad-reply')
        try:
            io, iu, iv = i.split('/')
            so, su, sv = s.split('/')
        except ValueError:
            return 'sessions-differ-from-spec'
        iset = [x for x in io.split(',') if x]
        sset = [x for x in so.split(',') if x]
        if stopped and iset:
            return 'session-open-after-shutdown' if 'S' in ops else 'session-open-after-handle-drop'
        if stopped and iu != su:
            return 'port-accepts-after-shutdown'
        if len(iset) > max(1, mx):
            return 'more-sessions-than-max'
        if op == 'C' and len(iset) == len(sset) and iset != sset:
            return 'wrong-session-evicted'
        if op == 'C' and len(iset) < len(sset):
            return 'session-closed-below-limit'
        if op[0] in 'DUB' and len(iset) < len(sset):
            return 'session-closed-by-level-change'
        if iset != sset and op[0] in 'XGRD':
            return 'session-disturbed-by-other' if len(iset) < len(sset) else 'ended-session-still-served'
        if iv != sv:
            return 'handler-value-differs'
        return 'sessions-differ-from-spec'
    return 'sessions-differ-from-spec'


def is_tls(c):
    return len(c) > 2 and 'tls' in c[2]


def is_create(c):
    """built with the create_* constructors (+ tokio::spawn(task.run())) instead of the spawn_* functions"""
    return len(c) > 2 and 'create' in c[2]


def evaluate(ctx, cases, settle=None, shards=16):
    lines = [('create:' if is_create(c) else '') + (f'tls:{TLS_DIR}:{c[0]} {c[1]}' if is_tls(c) else f'{c[0]} {c[1]}') for c in cases]
    impl = ctx.harness('sessions', lines, args=([str(settle)] if settle else []), shards=shards, timeout=900)
    both = ctx.coq_eval(REQ, FN, [to_coq(c) for c in cases], case_type=CASE_T, preamble='Local Open Scope string_scope.', per_shard=100)
    return impl, both


def differs_from_spec(ctx, cs):
    impl, both = evaluate(ctx, cs, settle=400, shards=8)
    return [i != b.split('#')[1] for i, b in zip(impl, both)]


def shrink_candidates(c):
    mx, script = c[0], c[1]
    tail = tuple(c[2:])
    ops = script.split()
    for k in range(len(ops) - 1, -1, -1):
        rest = ops[:k] + ops[k + 1:]
        if tail and ops[k] in ('C', 'T'):
            # connection numbers shift: keep requests on C clients and garbage on T peers only
            kinds = [o for o in rest if o in ('C', 'T')]
            ok = True
            for o in rest:
                if o[0] in 'RG':
                    j = int(o[1:].split(':')[0])
                    if j >= len(kinds) or kinds[j] != ('C' if o[0] == 'R' else 'T'):
                        ok = False
            if not ok:
                continue
        yield (mx, ' '.join(rest)) + tail
    for m2 in (1, 2):
        if m2 != mx:
            yield (m2, script) + tail


def run(ctx):
    models_ok = ctx.build_models(REQ + ['Spec.FrontSpec'])
    # the composed front-end rests on the generated tables of its layers: regenerate them, then build it; if that
    # fails the tie is reported as broken and the front-end family is judged against the Spec alone
    gen_ok = ctx.translate(FRONT_GEN)
    FRONT_MODEL_OK[0] = bool(gen_ok) and ctx.build_models(FRONT_MODELS)
    if not FRONT_MODEL_OK[0]:
        ctx.coverage['front_model_unavailable_judged_against_spec_only'] = True
    ctx.prove()
    if ctx.tier == 'thorough':
        ctx.coqchk()
    if not ctx.build_harness() or not models_ok:
        return
    if ctx.replay and 'front_cases' in ctx.replay and 'cases' not in ctx.replay:
        return run_front(ctx)
    if ctx.replay and 'cases' in ctx.replay:
        cases = [tuple(c) for c in ctx.replay['cases']]
    else:
        cases = list(FIXED)
        n = 320 if ctx.quick() else 2400
        while len(cases) < n:
            cases.append(gen_script(ctx.rng))
        # the same accept loop behind the TLS server: rodbus TLS clients and peers that never start the handshake
        tls_cases = [(m, sc, 'tls') for m, sc in TLS_FIXED]
        while len(tls_cases) < (60 if ctx.quick() else 400):
            tls_cases.append(gen_tls_script(ctx.rng) + ('tls',))
        cases += tls_cases
        # both constructor families: the same scenarios through create_tcp_server_task / create_tls_server_task
        # (pre-bound listener, the harness spawns task.run()), in particular max_sessions 0 and 1
        create_cases = [(m, sc, 'create') for m, sc in [(0, 'C C C C'), (0, 'C C X0 C H'), (1, 'C C C C'), (1, 'C G0 C X1 C'), (2, 'C C C G1 R2:7 C S C'),
                                                       (3, 'C C C X1 C C R0:3 R2:4 R4:5'), (0, 'C S C'), (1, 'C H C')]]
        create_cases += [(m, sc, 'create-tls') for m, sc in [(0, 'T T T'), (0, 'C T C'), (1, 'T C'), (1, 'C C T S'), (2, 'C C C R2:7 T T S C')]]
        k = 0
        while len(create_cases) < (40 if ctx.quick() else 300):
            k += 1
            if k % 3 == 0:
                m, sc = gen_tls_script(ctx.rng)
                create_cases.append((m, sc, 'create-tls'))
            else:
                m, sc = gen_script(ctx.rng)
                if 'W' not in sc:
                    create_cases.append((m, sc, 'create'))
        cases += create_cases
        exhaustive_part = 0
        if not ctx.quick():
            # thorough: additionally every script of length 5 for max_sessions 1 and 2 (3440 each)
            ex = [(m, sc) for m in (1, 2) for sc in enumerate_scripts(5)]
            exhaustive_part = len(ex)
            cases += ex
        ctx.coverage['exhaustive_scripts_of_length_5'] = exhaustive_part
    if not WRITE_STALL_OPS:
        cases = [c for c in cases if 'W' not in c[1]]
    classes_parked = len([c for c in cases if 'B' in c[1]])
    impl, both = evaluate(ctx, cases)
    # an op W that did not reach the blocked state makes its scenario inconclusive: one more try, then it is left out
    for _ in range(2):
        redo = [k for k, i in enumerate(impl) if i == 'NOFLOOD']
        if not redo:
            break
        again, _ = evaluate(ctx, [cases[k] for k in redo], shards=2)
        for k, i2 in zip(redo, again):
            impl[k] = i2
    inconclusive = [k for k, i in enumerate(impl) if i == 'NOFLOOD']
    if inconclusive:
        keep = [k for k in range(len(cases)) if k not in set(inconclusive)]
        cases, impl, both = [cases[k] for k in keep], [impl[k] for k in keep], [both[k] for k in keep]
    ctx.coverage['inconclusive_flood_scenarios'] = len(inconclusive)
    ctx.coverage['scenarios_with_parked_handler'] = classes_parked
    suspects = [k for k, (i, b) in enumerate(zip(impl, both)) if i != b.split('#')[0] or i != b.split('#')[1]]
    retried = len(suspects)
    rechecked_detail = [[list(cases[k][:3]), impl[k], both[k].split('#')[1]] for k in suspects[:6]]
    if suspects:
        # a disagreement must reproduce with a much longer settle pause (outcome, not timing)
        impl2, _ = evaluate(ctx, [cases[k] for k in suspects], settle=400, shards=8)
        for k, i2 in zip(suspects, impl2):
            impl[k] = i2
    n_spec = n_model = 0
    for c, i, b in zip(cases, impl, both):
        model, spec = b.split('#')
        if i != spec:
            n_spec += 1
            if n_spec <= 3:
                small = vlib.shrink_batch(c, lambda xs: differs_from_spec(ctx, xs), shrink_candidates, rounds=12, width=16)
                si, sb = evaluate(ctx, [small], settle=400, shards=1)
                sspec = sb[0].split('#')[1]
                if si[0] == sspec:        # shrinking lost it (should not happen): fall back to the original case
                    small, si, sspec = c, [i], spec
                key = classify(small, si[0], sspec)
                ctx.violation(key, f'{"server built with create_*_server_task + tokio::spawn(task.run()), " if is_create(small) else ""}{"TLS server (C = TLS client, T = peer that never starts the handshake), " if is_tls(small) else ""}max_sessions={small[0]} script "{small[1]}": open connections / port / handler value after each op: implementation {si[0]} but Spec {sspec}',
                              {'cases': [list(small)], 'impl': si[0], 'spec': sspec, 'original_case': list(c), 'original_impl': i, 'original_spec': spec})
        elif i != model:
            n_model += 1
            if n_model == 1:
                ctx.violation('model-differs-from-impl', f'max_sessions={c[0]} script "{c[1]}"', {'cases': [list(c)], 'impl': i, 'model': model, 'spec': spec},
                              no_failing_input=True)
    ctx.oblige('correspondence:server-sessions', n_spec == 0 and n_model == 0, f'{n_model} model / {n_spec} spec mismatches in {len(cases)} scenarios')
    classes = {'create_constructors': 0, 'create_constructors_max0': 0, 'with_blocked_reply_write': 0, 'tls_server': 0, 'tls_silent_peer_evicted': 0, 'tls_silent_peer_at_shutdown': 0, 'max0': 0, 'max1': 0, 'max2': 0, 'max3': 0, 'with_eviction': 0, 'with_garbage': 0, 'with_client_close': 0, 'with_request': 0,
               'with_decode': 0, 'with_shutdown': 0, 'with_handle_drop': 0, 'connect_after_stop': 0, 'three_open_at_once': 0}
    for c, b in zip(cases, both):
        spec = b.split('#')[1].split('|')
        ops = c[1].split()
        classes[f'max{c[0]}'] += 1
        classes['create_constructors'] += is_create(c)
        classes['create_constructors_max0'] += is_create(c) and c[0] == 0
        if is_tls(c):
            classes['tls_server'] += 1
            kinds = [o for o in ops if o in ('C', 'T')]
            silent = {str(j) for j, k in enumerate(kinds) if k == 'T'}
            seen_open, evicted, at_stop = set(), False, False
            was_up = True
            for op, sv in zip(ops, spec):
                now = {x for x in sv.split('/')[0].split(',') if x}
                if op in ('C', 'T') and (seen_open - now) & silent:
                    evicted = True
                if op in ('S', 'H') and was_up and seen_open & silent:
                    at_stop = True
                was_up = sv.split('/')[1] == '1'
                seen_open = now
            classes['tls_silent_peer_evicted'] += evicted
            classes['tls_silent_peer_at_shutdown'] += at_stop
        opens = [len([x for x in s.split('/')[0].split(',') if x]) for s in spec if s]
        evict = any(op == 'C' and k > 0 and opens[k] <= opens[k - 1] and spec[k].split('/')[1] == '1' for k, op in enumerate(ops))
        classes['with_eviction'] += evict
        classes['with_garbage'] += any(o[0] == 'G' for o in ops)
        classes['with_blocked_reply_write'] += any(o[0] == 'W' for o in ops)
        classes['with_client_close'] += any(o[0] == 'X' for o in ops)
        classes['with_request'] += any(o[0] == 'R' for o in ops)
        classes['with_decode'] += 'D' in ops
        classes['with_shutdown'] += 'S' in ops
        classes['with_handle_drop'] += 'H' in ops
        stop_at = min([k for k, o in enumerate(ops) if o in 'SH'] or [len(ops)])
        classes['connect_after_stop'] += 'C' in ops[stop_at:]
        classes['three_open_at_once'] += bool(opens) and max(opens) >= 3
    if not ctx.replay:
        need = (['with_blocked_reply_write'] if WRITE_STALL_OPS else []) + ['create_constructors', 'create_constructors_max0', 'tls_server', 'tls_silent_peer_evicted', 'tls_silent_peer_at_shutdown', 'with_eviction', 'with_garbage', 'with_client_close', 'with_shutdown', 'with_handle_drop', 'connect_after_stop', 'max0', 'three_open_at_once']
        ctx.oblige('generator-reaches-expected-classes', all(classes[k] >= 5 for k in need), str(classes))
    run_front(ctx)
    ctx.coverage.update({
        'evaluations': len(cases),
        'distinct_nontrivial': len(set(c for c, b in zip(cases, both) if c[1].count('C') + c[1].count('T') >= 2 and len(c[1].split()) >= 3)),
        'rule': 'scenario = (plain TCP server or TLS server [C = rodbus TLS client channel, T = peer that connects and never starts the handshake], max_sessions in 0..3, script over C=connect T=silent connect X<k>=client k closes G<k>=garbage on k R<k>:<v>=write v on k W<k>=client k pipelines requests and never reads (session blocked in a reply write) B<k>=request whose application handler parks on a gate U=release the gate D=set decode level S=shutdown H=drop handle), <= 6 connections, <= 13 ops, from a seeded PRNG after a fixed list; every op is followed by a probe of all connections; non-trivial = at least two connects and three ops; distinct by value',
        'samples': [list(c) + [i] for c, i in list(zip(cases, impl))[:5]],
        'input_classes': classes,
        'probes': sum(len(c[1].split()) for c in cases),
        'rechecked_with_long_settle': retried,
        'rechecked_detail': rechecked_detail,
        'exhaustive': False,
    })
