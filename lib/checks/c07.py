"""C07 - No peer input can panic, wedge or silently kill a task.

Theorems (Properties/C07.v): every modelled function on the receive path returns Ok/Err, never
Panic, for ALL inputs; the reader loop makes progress; shutdown stays enabled (task models).
Tie: (1) the panic-site inventory of the anchored files (translator/panic_sites.py) must be covered
by translator/panic_sites.json (each site mapped to the lemma / argument that discharges it);
(2) grammar-aware + raw random byte streams x {server, client} x {MBAP, RTU} x decode levels are
fed to the real tasks (built with overflow checks and debug assertions, a real tracing subscriber
installed): no panic, no wedge, command queue and shutdown still honoured, request completed.
"""
import json
import os
import re
import sys

import vlib
import fuzzgen as fg

sys.path.insert(0, os.path.join(vlib.ROOT, 'translator'))

LEVELS_QUICK = ['000', '322', '311', '102', '020', '221']
ALL_LEVELS = [f'{a}{f}{p}' for a in range(4) for f in range(3) for p in range(3)]


def gen_cases(ctx, n):
    r = ctx.rng
    cases = []
    levels = LEVELS_QUICK if ctx.quick() else ALL_LEVELS
    corpus = os.path.join(vlib.ROOT, 'corpus', 'C07')
    if os.path.isdir(corpus):
        for f in sorted(os.listdir(corpus)):
            for line in open(os.path.join(corpus, f)):
                if line.strip() and not line.startswith('#'):
                    cases.append(line.strip())
    while len(cases) < n:
        if r.random() < 0.03:
            # a peer that keeps sending well-formed frames with FOREIGN transaction ids, spaced by less than the
            # request's timeout (1000 ms): they must not keep the outstanding request alive beyond its deadline
            toks = []
            for _ in range(r.choice([3, 4, 5])):
                pdu = fg.response_pdu(r, fc=3)
                toks.append(fg.hexs(fg.mbap(r.randrange(1, 65536), 1, pdu, r)))
                toks.append(f'@T{r.choice([300, 400, 450])}')
            if r.random() < 0.5:
                toks.append(fg.hexs(fg.mbap(0, 1, [3, 10, 0, 1, 0, 2, 0, 3, 0, 4, 0, 5], r)))
            cases.append(f'client tcp {r.choice(levels)} ' + ' '.join(toks))
            continue
        role = r.choice(['server', 'client'])
        framing = r.choice(['tcp', 'rtu'])
        fc, lead = fg.client_request(r) if role == 'client' else (3, [])
        data, desc = fg.stream(r, role, framing, reply_fc=fc)
        chunks = fg.chunk(r, data)
        if not chunks:
            continue
        toks = fg.tokens(r, role, chunks)
        if role == 'client':
            toks = lead + fg.with_drop(r, toks)
        cases.append(f'{role} {framing} {r.choice(levels)} ' + ' '.join(toks))
    return cases


def check_sites(ctx):
    import panic_sites
    inv = panic_sites.inventory(vlib.REPO)
    cov_path = os.path.join(vlib.ROOT, 'translator', 'panic_sites.json')
    cov = json.load(open(cov_path)) if os.path.exists(cov_path) else {}
    keys = [panic_sites.key_of(s) for s in inv]
    uncovered = [k for k in keys if k not in cov]
    ctx.oblige('panic-site-inventory-covered', not uncovered,
               f'{len(uncovered)} uncovered of {len(keys)}: ' + ' || '.join(uncovered[:4]))
    if uncovered:
        ctx.proof_broken.append('panic-capable site(s) not covered by a lemma or reviewed argument: ' + ' || '.join(uncovered[:3]))
    # every lemma named in the map must exist in the compiled development
    lemmas = sorted(set(m for v in cov.values() for m in re.findall(r'lemma:([\w.\']+)', v.get('by', ''))))
    ctx.coverage['panic_sites'] = {'inventory': len(keys), 'covered': len(keys) - len(uncovered), 'lemmas_referenced': lemmas}
    return lemmas


LEMMA_MODULES = ['Proofs.BufferProofs', 'Proofs.MbapProofs', 'Proofs.RtuProofs', 'Proofs.C05Proofs', 'Proofs.ClientReplyProofs',
                 'Proofs.ClientCodecProofs', 'Proofs.ServerTheorems', 'Proofs.C11Proofs']


def check_lemmas_exist(ctx, lemmas):
    """every lemma the coverage map names must exist in the compiled development (Check name.)"""
    import os
    d = os.path.join(vlib.CACHE, 'eval')
    os.makedirs(d, exist_ok=True)
    path = os.path.join(d, f'c07_lemmas_{os.getpid()}.v')
    with open(path, 'w') as f:
        f.write('From Rodbus Require ' + ' '.join(LEMMA_MODULES) + '.\n')
        for m in LEMMA_MODULES:
            f.write(f'Import {m}.\n')
        for l in lemmas:
            f.write(f'Check {l}.\n')
    rc, out = vlib.sh(['coqc', '-noglob', '-Q', os.path.join(vlib.COQ, 'theories'), 'Rodbus', path], cwd=d, timeout=600)
    ctx.oblige('panic-site-lemmas-exist', rc == 0, out[-300:])
    if rc != 0:
        ctx.proof_broken.append('a lemma named in translator/panic_sites.json no longer exists: ' + out[-200:])
    for ext in ('.v', '.vo', '.vok', '.vos'):
        try:
            os.remove(path[:-2] + ext)
        except OSError:
            pass


def rtu_reopen_family(ctx):
    """The RTU server keeps ONE session (one parser, one receive buffer) across port re-opens
    (serial/server.rs): harness `rtu_reopen` runs the production SessionTask over consecutive
    transports. Whatever arrived, once nothing more arrives the server must get past it: every port
    session that ends with a framing error has consumed input, so after at most (buffered bytes)
    re-opens a session ends by the transport (EOF) and not by the same framing error again - a server
    that fails on the same stale state at every re-open never serves again (a livelock the watchdog
    of a single session cannot see). No panic in any port session."""
    r = ctx.rng
    if ctx.replay and 'reopen_cases' in ctx.replay:
        cases = ctx.replay['reopen_cases']
    elif ctx.replay:
        return {}
    else:
        cases = []
        n = 1500 if ctx.quick() else 20000
        while len(cases) < n:
            groups = []
            for _ in range(r.choice([1, 1, 2, 3, 4])):
                data, _ = fg.stream(r, 'server', 'rtu')
                chunks = fg.chunk(r, data)
                groups.append(r.choice(['eof', 'err']) + ''.join(' ' + fg.hexs(c) for c in chunks))
            # the harness opens at most 300 further port sessions and a framing error may consume as little as one byte per session (unknown function code:
            # two): keep every history drainable within that bound
            if sum(len(x) for g in groups for x in g.split()[1:]) // 2 > 280:
                continue
            cases.append(' / '.join(groups))
    out = ctx.harness('rtu_reopen', cases, args=['--decode', r.choice(['min', 'max'])], shards=8, timeout=1500)
    bad = 0
    stats = {'port_sessions': 0, 'framing_error_ends': 0, 'max_reopens_to_drain': 0}
    for c, o in zip(cases, out):
        problem = None
        if not o.startswith('calls='):
            problem = 'panic or crash in a port session: ' + o[:120]
        else:
            ends = o.split(' ends=')[1].split(';')
            stats['port_sessions'] += len(ends)
            stats['framing_error_ends'] += sum(e.startswith('BadFrame') for e in ends)
            stats['max_reopens_to_drain'] = max(stats['max_reopens_to_drain'], len(ends) - len(c.split('/')))
            if not ends[-1].startswith('Io'):
                problem = f'after the stream the RTU server never gets past a framing error: {len(ends) - len(c.split("/"))} re-opens with nothing arriving all end with {ends[-1]}'
        if problem:
            bad += 1
            if bad <= 2:
                def fails(cs):
                    res = []
                    for x in ctx.harness('rtu_reopen', cs, timeout=300):
                        res.append(not x.startswith('calls=') or not x.split(' ends=')[1].split(';')[-1].startswith('Io'))
                    return res

                def cands(x):
                    gs = x.split(' / ')
                    for i in range(len(gs)):
                        if len(gs) > 1:
                            yield ' / '.join(gs[:i] + gs[i + 1:])
                        parts = gs[i].split()
                        for j in range(1, len(parts)):
                            yield ' / '.join(gs[:i] + [' '.join(parts[:j] + parts[j + 1:])] + gs[i + 1:])
                            if len(parts[j]) > 4:
                                yield ' / '.join(gs[:i] + [' '.join(parts[:j] + [parts[j][:len(parts[j]) // 4 * 2]] + parts[j + 1:])] + gs[i + 1:])
                                yield ' / '.join(gs[:i] + [' '.join(parts[:j] + [parts[j][len(parts[j]) // 4 * 2:]] + parts[j + 1:])] + gs[i + 1:])
                small = vlib.shrink_batch(c, fails, cands, rounds=25, width=16)
                ctx.violation('server.rtu-across-reopens.' + ('panic' if not o.startswith('calls=') else 'stale-state-livelock'),
                              f'{problem} on port sessions: {small[:160]}', {'reopen_cases': [small], 'impl': o[:400], 'original_case': c})
    ctx.oblige('correspondence:rtu-server-across-reopens-gets-past-every-input', bad == 0, f'{bad} failing histories')
    stats['histories'] = len(cases)
    return stats


def rtu_task_family(ctx):
    """the REAL RTU server task (create_rtu_server_task on a pty; harness `rtu_task` and the scenario
    generator of the C01 check): sessions ended by a hang-up or by a bad frame from the peer, failed opens,
    waits before the re-open, decode-level changes in every phase - and then ServerHandle::shutdown() or the
    handle dropped, in a session as well as in a wait. Whatever the peer did before: no panic, and the task
    has ended shortly after the shutdown request."""
    from checks import srv
    r = ctx.rng
    if ctx.replay and 'rtu_task_cases' in ctx.replay:
        lines = ctx.replay['rtu_task_cases']
    elif ctx.replay:
        return {}
    else:
        lines = []
        n = 16 if ctx.quick() else 200
        tries = 0
        while len(lines) < n and tries < 100000:
            tries += 1
            sc = srv.gen_rtu_scenario(r)
            last = sc[3][-1]
            ends = last[-1] in ('shutdown', 'drop')
            in_wait = last[0] in ('wait', 'openfail')
            # at least half of the scenarios end with the request arriving during a wait before the re-open
            if not ends or (len(lines) % 2 == 0 and not in_wait):
                continue
            lines.append(srv.rtu_scenario_line(sc))
    out = ctx.harness('rtu_task', lines, shards=4, timeout=900)
    # real time: a verdict must reproduce when the scenario is run again on its own, with a longer pause after
    # the shutdown request (a loaded machine may need more than 150 ms to let the task end)
    suspects = [k for k, o in enumerate(out) if o.count('|') < 2 or o.rsplit('|', 1)[1] != 'done']
    if suspects and not ctx.replay:
        relaxed = [lines[k].replace('shutdown,sleep:150', 'shutdown,sleep:1500').replace('drop,sleep:150', 'drop,sleep:1500') for k in suspects]
        again = ctx.harness('rtu_task', relaxed, shards=1, timeout=900)
        for k, l2, o2 in zip(suspects, relaxed, again):
            lines[k], out[k] = l2, o2
    bad = 0
    kinds = {}
    for l, o in zip(lines, out):
        steps = l.split('|')[-1].split(',')
        where = 'wait' if any(x.startswith('txq:') or x == 'hup' or x == 'unlink' for x in steps[-6:]) else 'session'
        kinds[where] = kinds.get(where, 0) + 1
        problem = None
        if o.count('|') < 2:
            problem = 'panic or crash: ' + o[:160]
        elif o.rsplit('|', 1)[1] != 'done':
            problem = 'the RTU server task was still running after ServerHandle::shutdown() / the handle was dropped'
        if problem:
            bad += 1
            if bad <= 2:
                ctx.violation('server.rtu-task.' + ('panic' if o.count('|') < 2 else 'shutdown-not-honoured'),
                              f'{problem}; steps: {l.split("|")[-1][:200]}', {'rtu_task_cases': [l], 'impl': o[:300]})
    ctx.oblige('correspondence:rtu-server-task-honours-shutdown-in-every-phase', bad == 0, f'{bad} failing scenarios')
    return {'scenarios': len(lines), 'shutdown_requested_in': kinds}


def hostile_role_family(ctx):
    """peer input that reaches the C-ABI authorization wrapper: the Modbus role of the client's TLS certificate
    (harness `ffi_authz`, the certificate sets of the C08 check: a role string containing U+0000, a role taken
    from a chain [leaf, issuing CA], a leaf behind an intermediate without role, an ordinary role). A peer whose
    handshake is accepted must be answered (value or exception) on every request: a session that dies instead
    (the task panicked in the role conversion) is a C07 violation."""
    r = ctx.rng
    if ctx.replay and 'role_cases' in ctx.replay:
        lines = ctx.replay['role_cases']
    elif ctx.replay:
        return {}
    else:
        lines = []
        reqs = ['rh:1:1', 'rh:1:2', 'wr:1:7', 'wr:1:3']
        for role in ('nulrole', 'chained', 'viaint', 'operator'):
            for policy in ('allow', 'deny', 'byrole'):
                k = r.choice([1, 2, 3])
                lines.append(f'seq ffi {policy} 1 ' + ','.join(f'{role}:{r.choice(reqs)}' for _ in range(k)))
    certs = os.path.join(vlib.ROOT, 'certs')
    out = ctx.harness('ffi_authz', lines, args=[vlib.REPO, certs], shards=4, timeout=600)
    bad = 0
    for l, o in zip(lines, out):
        dead = [x for x in o.split(';') if not (x.startswith('client=OK') or x.startswith('client=EX:'))]
        if dead or not o.strip():
            bad += 1
            if bad <= 2:
                ctx.violation('server.c-abi.authorization.session-dies-on-certificate-role',
                              f'a peer with an accepted certificate was not answered: {l} -> {o[:200]}', {'role_cases': [l], 'impl': o[:400]})
    ctx.oblige('correspondence:accepted-certificate-roles-never-kill-the-session', bad == 0, f'{bad} of {len(lines)} sequences')
    return {'sequences': len(lines)}


def run(ctx):
    ctx.translate([])
    lemmas = check_sites(ctx)
    if ctx.prove():
        check_lemmas_exist(ctx, lemmas)
    if ctx.tier == 'thorough':
        ctx.coqchk()
    if not ctx.build_harness():
        return
    if ctx.replay and 'cases' in ctx.replay:
        cases = ctx.replay['cases']
    else:
        cases = gen_cases(ctx, 12000 if ctx.quick() else 150000)
    out = ctx.harness('fuzz', cases, shards=vlib.NPROC, timeout=1500)
    classes = {}
    bad = 0
    for c, o in zip(cases, out):
        role, framing, level = c.split()[:3]
        if o.startswith('ok'):
            kv = dict(x.split('=', 1) for x in o.split()[1:])
            cls = f'{role}/{framing}/end={kv["end"]}'
            if '@X' in c:
                classes['request-future-dropped'] = classes.get('request-future-dropped', 0) + 1
            if '@Qw' in c:
                classes['write-request-outstanding'] = classes.get('write-request-outstanding', 0) + 1
            if '@W' in c:
                classes['scripted-transmit-side'] = classes.get('scripted-transmit-side', 0) + 1
                if '@Wb' in c and '@R' not in c:
                    classes['write-parked-at-the-end'] = classes.get('write-parked-at-the-end', 0) + 1
            classes[cls] = classes.get(cls, 0) + 1
            problem = None
            if kv.get('shutdown_ok') != '1':
                problem = 'task did not honour shutdown after the stream'
            elif role == 'client' and kv.get('request_completed') != '1':
                problem = 'outstanding request never completed'
            elif role == 'client' and kv.get('pending_after_deadline') == '1' and '@Wb' not in c:
                problem = "frames from the peer kept the outstanding request pending beyond its own timeout"
            if '@T' in c:
                classes['foreign-frames-across-the-deadline'] = classes.get('foreign-frames-across-the-deadline', 0) + 1
        elif o == 'SKIPPED':
            continue
        else:
            problem = o.split()[0].lower() + ': ' + o[:200]
            classes[o.split()[0]] = classes.get(o.split()[0], 0) + 1
        if problem:
            bad += 1
            if bad <= 3:
                small = shrink_case(ctx, c)
                key = f'{role}.{framing}.' + ('panic' if o.startswith('PANIC') else 'wedged' if o.startswith('WEDGED') else 'stuck')
                ctx.violation(key, f'{problem} on input: {small[:160]}', {'cases': [small], 'impl': o, 'original_case': c})
    ctx.oblige('correspondence:no-panic-no-wedge-shutdown-honoured', bad == 0, f'{bad} failing streams')
    if not ctx.replay:
        need = ['server/tcp/end=Shutdown', 'server/tcp/end=BadFrame', 'server/rtu/end=Shutdown', 'client/tcp/end=Shutdown', 'client/rtu/end=Shutdown']
        missing = [k for k in need if classes.get(k, 0) < 5]
        if missing and bad == 0:
            ctx.oblige('generator-reaches-expected-classes', False, 'missing: ' + ','.join(missing))
    reopen = rtu_reopen_family(ctx)
    rtu_task = rtu_task_family(ctx)
    roles = hostile_role_family(ctx)
    ctx.coverage.update({
        'hostile_certificate_roles': roles,
        'rtu_server_across_reopens': reopen,
        'rtu_server_task': rtu_task,
        'evaluations': len(cases) + reopen.get('histories', 0) + rtu_task.get('scenarios', 0) + roles.get('sequences', 0),
        'distinct_nontrivial': len(set(c for c in cases if len(c.split()) >= 4 and len(''.join(c.split()[3:])) >= 16)),
        'rule': 'streams = concatenations of valid / mutated / badly framed Modbus frames or raw random bytes, cut into read chunks (all-at-once, byte-per-byte, random, header-edge, 260-byte-buffer-edge), a quarter with a scripted transmit side (writes taken in pieces / parked as by a peer that does not read, released or not), x role x framing x decode level; non-trivial = at least 8 stream bytes; distinct by full case text',
        'samples': [[c[:200], o] for c, o in list(zip(cases, out))[:5]],
        'input_classes': classes,
        'levels': LEVELS_QUICK if ctx.quick() else 'all 36',
        'exhaustive': False,
    })


def shrink_case(ctx, case):
    parts = case.split()
    head, chunks = parts[:3], parts[3:]

    def fails(cs):
        outs = ctx.harness('fuzz', cs, timeout=300)
        res = []
        for o in outs:
            if o.startswith('ok'):
                kv = dict(x.split('=', 1) for x in o.split()[1:])
                res.append(kv.get('shutdown_ok') != '1' or ('request_completed' in kv and kv['request_completed'] != '1') or kv.get('pending_after_deadline') == '1')
            else:
                res.append(o != 'SKIPPED')
        return res

    def cands(c):
        p = c.split()
        h, ch = p[:3], p[3:]
        for i in range(len(ch)):
            if len(ch) > 1:
                yield ' '.join(h + ch[:i] + ch[i + 1:])
        if len(ch) > 1 and not any(x.startswith('@') for x in ch):
            yield ' '.join(h + [''.join(ch)])
        for i in range(len(ch)):
            if len(ch[i]) > 4 and not ch[i].startswith('@'):
                yield ' '.join(h + ch[:i] + [ch[i][:len(ch[i]) // 4 * 2]] + ch[i + 1:])
                yield ' '.join(h + ch[:i] + [ch[i][len(ch[i]) // 4 * 2:]] + ch[i + 1:])
        if h[2] != '000':
            yield ' '.join(h[:2] + ['000'] + ch)
    return vlib.shrink_batch(case, fails, cands, rounds=25, width=16)
