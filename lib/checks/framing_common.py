"""Shared by c05.py / c06.py: frame and stream generators, chunk schedules, the Coq evaluation
function and the comparison of implementation vs. model vs. Spec for the framing layer."""
import vlib

CAP = 260
REQUIRES = ['Base.Show', 'Base.Frame', 'Model.Reader', 'Spec.Framing', 'Model.FramingEval']
KIND = {'tcp': 'KTcp', 'rtureq': 'KRtuRequest', 'rtursp': 'KRtuResponse'}
FIN = {'eof': 'FinEof', 'pending': 'FinPending', 'err': 'FinErr'}
CASE_TYPE = 'framing_kind * bool * fin * list (list N)'
# model | Spec  (Spec only defined for stop mode: "-" otherwise)
FN = 'eval_case_tr'
# set by the check's run(): can the model be evaluated (else the Spec alone is), can the write-path model
MODE = {'models': True, 'write': True}
SPEC_REQUIRES = ['Base.Show', 'Base.Frame', 'Spec.Framing', 'Spec.SpecEval']
KCODE = {'tcp': 0, 'rtureq': 1, 'rtursp': 2}



# ---------------------------------------------------------------- CRC-16/MODBUS (third, independent implementation)
def crc16(data):
    c = 0xFFFF
    for b in data:
        c ^= b
        for _ in range(8):
            c = (c >> 1) ^ 0xA001 if c & 1 else c >> 1
    return c


# ---------------------------------------------------------------- MBAP frames
def mbap(tx, unit, pdu, proto=0, length=None):
    ln = len(pdu) + 1 if length is None else length
    return bytes([tx >> 8, tx & 255, proto >> 8, proto & 255, ln >> 8, ln & 255, unit]) + bytes(pdu)


PDU_LENS = [0, 1, 2, 5, 6, 7, 8, 100, 245, 246, 251, 252, 253]


def gen_mbap_stream(r):
    """-> (bytes, boundaries, tags): a concatenation of valid and invalid frames"""
    parts, tags = [], set()
    n = r.choice([1, 1, 2, 3, 4, 6, 9])
    big = r.random() < 0.35
    for i in range(n):
        k = r.random()
        ln = r.choice(PDU_LENS) if (big or r.random() < 0.3) else r.choice([0, 1, 2, 5, 6, 7, 8, r.randrange(0, 40)])
        pdu = bytes(r.randrange(256) for _ in range(ln))
        tx, unit = r.choice([0, 1, 0xFFFF, r.randrange(65536)]), r.choice([0, 1, 255, r.randrange(256)])
        if k < 0.80 or i == 0 and k < 0.9:
            parts.append(mbap(tx, unit, pdu))
            tags.add('valid')
        elif k < 0.85:
            parts.append(mbap(tx, unit, pdu, proto=r.choice([1, 5, 256, 0xFFFF, r.randrange(1, 65536)])))
            tags.add('bad_proto')
        elif k < 0.90:
            parts.append(mbap(tx, unit, pdu, length=0))
            tags.add('len0')
        elif k < 0.96:
            parts.append(mbap(tx, unit, pdu, length=r.choice([255, 256, 65535, r.randrange(255, 65536)])))
            tags.add('len>254')
        else:
            # both defects at once: the order of the checks becomes visible
            parts.append(mbap(tx, unit, pdu, proto=r.randrange(1, 65536), length=r.choice([0, 255, 65535])))
            tags.add('bad_proto+len')
    s = b''.join(parts)
    bounds = []
    pos = 0
    for p in parts:
        bounds += [pos + 7, pos + len(p)]
        pos += len(p)
    if r.random() < 0.35 and len(s) > 1:
        cut = r.choice([r.randrange(1, len(s)), max(1, len(s) - r.randrange(1, 9))])
        s = s[:cut]
        tags.add('truncated')
    elif r.random() < 0.1:
        s += bytes(r.randrange(256) for _ in range(r.randrange(1, 12)))
        tags.add('garbage_tail')
    return s, [b for b in bounds if 0 < b < len(s)], tags


# ---------------------------------------------------------------- RTU frames
FCS = [1, 2, 3, 4, 5, 6, 15, 16]


def rtu_pdu(r, role, fc=None, kind=None):
    """a well-formed PDU of the given direction (requests / responses incl. exception replies)"""
    fc = fc if fc is not None else r.choice(FCS)
    w = lambda v: [v >> 8, v & 255]
    if role == 'rtureq':
        if fc in (1, 2, 3, 4, 5, 6):
            return bytes([fc] + w(r.randrange(65536)) + w(r.choice([1, 0, 0xFF00, 125, 2000, r.randrange(65536)])))
        n = r.choice([0, 1, 2, 7, 100, 246, r.randrange(0, 247)])
        return bytes([fc] + w(r.randrange(65536)) + w(r.randrange(65536)) + [n] + [r.randrange(256) for _ in range(n)])
    if kind == 'exception' or (kind is None and r.random() < 0.15):
        return bytes([fc | 0x80, r.choice([1, 2, 3, 4, 5, 6, 8, 10, 11, r.randrange(256)])])
    if fc in (1, 2, 3, 4):
        n = r.choice([0, 1, 2, 3, 250, 251, r.randrange(0, 252)])
        return bytes([fc, n] + [r.randrange(256) for _ in range(n)])
    return bytes([fc] + w(r.randrange(65536)) + w(r.randrange(65536)))


def rtu_frame(addr, pdu, crc=None):
    c = crc16(bytes([addr]) + pdu) if crc is None else crc
    return bytes([addr]) + pdu + bytes([c & 255, c >> 8])


def flip(frame, bits):
    f = bytearray(frame)
    for b in bits:
        f[b // 8] ^= 1 << (b % 8)
    return bytes(f)


def corrupt(r, frame, cls):
    """error pattern of the given class applied to a valid RTU frame (bit i = bit i%8 of byte i//8, i.e. wire order)"""
    nb = len(frame) * 8
    if cls == '1bit':
        return flip(frame, [r.randrange(nb)])
    if cls == '2bit':
        a = r.randrange(nb)
        b = r.randrange(nb - 1)
        return flip(frame, [a, b if b < a else b + 1])
    if cls == 'burst':
        ln = r.randrange(2, 17)
        start = r.randrange(0, nb - ln + 1)
        inner = [start + i for i in range(1, ln - 1) if r.random() < 0.5]
        return flip(frame, [start, start + ln - 1] + inner)
    if cls == 'crc_swapped':
        return frame[:-2] + frame[-1:] + frame[-2:-1]
    if cls == 'crc_lo_only':
        return frame[:-2] + bytes([frame[-2] ^ r.randrange(1, 256)]) + frame[-1:]
    if cls == 'crc_hi_only':
        return frame[:-1] + bytes([frame[-1] ^ r.randrange(1, 256)])
    if cls == 'crc_no_addr':
        c = crc16(frame[1:-2])
        return frame[:-2] + bytes([c & 255, c >> 8])
    if cls == 'payload_byte':
        i = r.randrange(len(frame) - 2)
        return frame[:i] + bytes([frame[i] ^ r.randrange(1, 256)]) + frame[i + 1:]
    raise ValueError(cls)


# ---------------------------------------------------------------- chunk schedules
def split_at(s, cuts):
    cuts = sorted(set(c for c in cuts if 0 < c < len(s)))
    out, prev = [], 0
    for c in cuts + [len(s)]:
        out.append(s[prev:c])
        prev = c
    return [c for c in out if c]


def schedules(r, s, bounds, want):
    """a list of (tag, chunks) for stream s; `bounds` = header/body boundaries of the frames"""
    res = [('all_at_once', [s])] if s else [('empty', [])]
    if not s:
        return res
    pool = []
    pool.append(('byte_per_byte', [s[i:i + 1] for i in range(len(s))]))
    if bounds:
        b = r.choice(bounds)
        pool.append(('boundary', split_at(s, [b + r.choice([-1, 0, 0, 1])])))
        pool.append(('all_boundaries', split_at(s, [x + r.choice([0, 0, 1, -1]) for x in bounds])))
    k = r.choice([1, 2, 3, 6, 7, 8, 9, 13, 64, 200])
    pool.append(('fixed_%d' % (k if k < 10 else 10), split_at(s, range(k, len(s), k))))
    cuts, pos = [], 0
    while pos < len(s):
        pos += r.choice([1, 1, 2, 3, 5, 7, 8, 20, 100, 253, 259, 260, 261, 300])
        cuts.append(pos)
    pool.append(('random', split_at(s, cuts)))
    if len(s) > CAP - 8:
        # leave the buffer exactly (or almost) full: fill to 260-e in one or two reads, then trickle
        e = r.choice([0, 0, 0, 1, 2, 7, 8])
        first = r.choice([CAP - e, r.randrange(1, CAP)])
        cuts = [first, CAP - e] + list(range(CAP - e + 1, min(len(s), CAP + 12))) + [min(len(s), 2 * CAP - e)]
        pool.append(('buffer_edge', split_at(s, cuts)))
    r.shuffle(pool)
    return res + pool[:want]


# ---------------------------------------------------------------- cases
def to_line(case):
    kind, mode, fin, chunks = case
    return ' '.join([kind, mode, fin] + [(c.hex() if c else '-') for c in chunks])


def to_coq(case):
    kind, mode, fin, chunks = case
    return '(%s, %s, %s, [%s])' % (KIND[kind], vlib.coq_bool(mode == 'resume'), FIN[fin],
                                   ';'.join(vlib.coq_N_list(c) for c in chunks))


def case_from_json(c):
    return (c[0], c[1], c[2], [bytes.fromhex(x) for x in c[3]])


def case_to_json(case):
    return [case[0], case[1], case[2], [c.hex() for c in case[3]]]


def strip_stats(line):
    out, _, st = line.partition(';')
    stats = dict(kv.split('=') for kv in st.split(';')) if st else {}
    return out, {k: (v if k == 'offered' else int(v)) for k, v in stats.items()}


def coq_pairs(ctx, what, terms, case_type):
    """evaluate `what` in {'client', 'client_rtu', 'emit'} on Coq terms -> list of (model or None, spec).
    With the models available: Model/FramingEval (model|spec); otherwise Spec/SpecEval (the Spec alone)."""
    if not terms:
        return []
    if MODE['models']:
        fn = {'client': 'eval_client', 'client_rtu': 'eval_client_rtu', 'emit': 'eval_emit'}[what]
        return [tuple(b.partition('|')[::2]) for b in ctx.coq_eval(REQUIRES, fn, terms, case_type=case_type, per_shard=100)]
    fn = {'client': 'spec_client', 'client_rtu': 'spec_client_rtu', 'emit': 'spec_emit'}[what]
    return [(None, b) for b in ctx.coq_eval(SPEC_REQUIRES, fn, terms, case_type=case_type, per_shard=100)]


def to_coq_spec(case):
    kind, mode, fin, chunks = case
    return '(%d, %s, %s, [%s])' % (KCODE[kind], vlib.coq_bool(mode == 'resume'), FIN[fin], ';'.join(vlib.coq_N_list(c) for c in chunks))


def evaluate(ctx, cases, decode='min'):
    """-> list of (impl, model, spec, stats); stats['offered'] / stats['model_offered'] = space offered per read.
    model is None when the model cannot be evaluated (Spec-only fallback)"""
    if not cases:
        return []
    impl = ctx.harness('frames', [to_line(c) for c in cases], args=['--stats', '--decode', decode], shards=8)
    both = []
    for k in range(0, len(cases), 3200):          # keep each generated .v file small (coqc chokes on multi-MB literals)
        if MODE['models']:
            both += ctx.coq_eval(REQUIRES, FN, [to_coq(c) for c in cases[k:k + 3200]], case_type=CASE_TYPE, per_shard=80)
        else:
            both += ['\x00|' + b + '|' for b in ctx.coq_eval(SPEC_REQUIRES, 'spec_case', [to_coq_spec(c) for c in cases[k:k + 3200]],
                                                              case_type='N * bool * fin * list (list N)', per_shard=80)]
    res = []
    for i, b in zip(impl, both):
        out, stats = strip_stats(i)
        model, spec, trace = b.split('|')
        if model == '\x00':
            model = None
            stats.pop('offered', None)
        else:
            stats['model_offered'] = trace
        res.append((out, model, spec, stats))
    return res


def shrink_candidates(case):
    kind, mode, fin, chunks = case
    n = len(chunks)
    for i in range(n):                                  # drop a chunk
        yield (kind, mode, fin, chunks[:i] + chunks[i + 1:])
    for i in range(n - 1):                              # merge neighbours
        yield (kind, mode, fin, chunks[:i] + [chunks[i] + chunks[i + 1]] + chunks[i + 2:])
    if n > 2:
        yield (kind, mode, fin, [b''.join(chunks[:n // 2]), b''.join(chunks[n // 2:])])
    for i in range(n):                                  # shorten a chunk from either side
        c = chunks[i]
        if len(c) > 1:
            yield (kind, mode, fin, chunks[:i] + [c[:len(c) // 2]] + chunks[i + 1:])
            yield (kind, mode, fin, chunks[:i] + [c[len(c) // 2:]] + chunks[i + 1:])
            yield (kind, mode, fin, chunks[:i] + [c[:-1]] + chunks[i + 1:])
            yield (kind, mode, fin, chunks[:i] + [c[1:]] + chunks[i + 1:])


def ending_class(out):
    last = out.split(' ')[-1] if out else ''
    for k in ['UnknownProtocolId', 'FrameLengthTooBig', 'MbapLengthZero', 'UnknownFunctionCode', 'Crc', 'Internal',
              'Io(UnexpectedEof)', 'Io(Other)', 'Pending', 'PANIC']:
        if k in last:
            return k
    return 'other'


def compare(ctx, cases, results, what, decode='min'):
    """judge every case; report the first (shrunk) disagreement of each kind. Returns (#spec, #model mismatches).
    mode stop / cancel: the Spec is the judge (cancel = every waiting next_frame call is abandoned and re-entered:
    by C05/C06_cancel_safe the Spec and the model say the same as for stop). decode = the protocol-decoding
    level the implementation ran at; it is part of the replay."""
    n_spec = n_model = n_buf = 0
    tag = '' if decode == 'min' else '.decode-' + decode
    what = what if decode == 'min' else what + f' (decode level {decode})'
    for c, (impl, model, spec, st) in zip(cases, results):
        kind, mode = c[0], c[1]
        judged = mode in ('stop', 'cancel') or (mode == 'resume' and spec != '-')     # resume: RTU across port re-opens (C06_reopen)
        if judged and impl != spec:
            n_spec += 1
            if n_spec == 1:
                def fails(cs):
                    return [(i != s) for (i, m, s, _) in evaluate(ctx, cs, decode)]
                small = vlib.shrink_batch(c, fails, shrink_candidates)
                (i2, m2, s2, _), = evaluate(ctx, [small], decode)
                mtag = '.cancel' if small[1] == 'cancel' else '.reopen' if small[1] == 'resume' else ''
                ctx.violation(f'{kind}{mtag}{tag}.frames-differ-from-spec.{ending_class(s2)}',
                              f'{what}: the reader delivers other frames / another error than the stream prescribes'
                              + (' when waiting next_frame calls are abandoned and re-entered between chunks' if mtag == '.cancel' else
                                 ' when it is polled again after a framing error (RTU server across a port re-open): something is delivered that no clean parse of the remaining stream yields' if mtag else '')
                              + f': impl={i2[:200]} spec={s2[:200]}',
                              {'cases': [case_to_json(small)], 'impl': i2, 'spec': s2, 'model': m2 if m2 is not None else 'not available (Spec-only fallback)', 'original_case': case_to_json(c),
                               'harness_line': to_line(small) + ('' if decode == 'min' else f'   (--decode {decode})'), 'decode': decode})
        elif model is not None and impl != model:
            n_model += 1
            if n_model == 1:
                def failsm(cs):
                    return [(i != m) for (i, m, s, _) in evaluate(ctx, cs, decode)]
                small = vlib.shrink_batch(c, failsm, shrink_candidates)
                (i2, m2, s2, _), = evaluate(ctx, [small], decode)
                ctx.violation(f'{kind}.{mode}{tag}.model-differs-from-impl',
                              f'{what}: implementation and model disagree: impl={i2[:200]} model={m2[:200]}',
                              {'cases': [case_to_json(small)], 'impl': i2, 'model': m2, 'spec': s2, 'original_case': case_to_json(c),
                               'harness_line': to_line(small), 'decode': decode}, no_failing_input=True)
        elif model is not None and st.get('offered', '') != st.get('model_offered', '') and 'PANIC' not in impl:
            # same frames, but the ReadBuffer offered other amounts of space than the model's begin/end indices imply
            n_buf += 1
            if n_buf == 1:
                ctx.violation(f'{kind}{tag}.buffer-indices-differ-from-model',
                              f'{what}: same frames, but the space offered per read differs: impl={st.get("offered", "")[:120]} model={st.get("model_offered", "")[:120]}',
                              {'cases': [case_to_json(c)], 'impl': impl, 'model': model, 'spec': spec, 'impl_offered': st.get('offered'),
                               'model_offered': st.get('model_offered'), 'harness_line': to_line(c)}, no_failing_input=True)
    return n_spec, n_model + n_buf


def evaluate_impl_only(ctx, cases, decode):
    impl = ctx.harness('frames', [to_line(c) for c in cases], args=['--decode', decode], shards=8)
    return [strip_stats(i)[0] for i in impl]


def load_corpus(prop, name):
    """corpus/<prop>/<name>: one harness input line per case (minimized past disagreements, e.g. the
    shrunk cases that killed the mutants tried during development); always run first"""
    import os
    path = os.path.join(os.path.dirname(os.path.dirname(os.path.dirname(os.path.abspath(__file__)))), 'corpus', prop, name)
    if not os.path.exists(path):
        return []
    return [l.strip() for l in open(path) if l.strip() and not l.startswith('#')]


def case_from_line(line):
    parts = line.split()
    return (parts[0], parts[1], parts[2], [b'' if c == '-' else bytes.fromhex(c) for c in parts[3:]])
