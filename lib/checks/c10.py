"""C10 - Every client request completes exactly once, under every interleaving.

Theorems (coq/theories/Properties/C10.v): conservation law for every step, lifted to all event
lists; at most once / accounted / terminal; nothing stuck; classification of completions.
Correspondence: event scripts (length <= 14 after the prefix) over the whole alphabet - submit in
future / callback / try_send style on queues of capacity 1..4, enable, disable, set-decode,
shutdown, drop handle, abort, connect results, frames, partial frames, garbage, EOF, read error,
write fault, slow write, virtual time - on the real ClientLoop and on the model (eager schedule).
Thorough tier: every script up to length 6 over two reduced alphabets after `E CO` (exhaustive sweep).
"""
import itertools
from checks import clientlib as cl
from checks.clientlib import MS


def directed():
    base = {'cap': 4, 'handles': 1, 'mt': 0, 'rmin': 20 * MS, 'rmax': 40 * MS}
    pre = cl.connected_prefix()
    S = lambda i, st='f', t=10 * MS: ('S', i, 'r', t, st)
    cases = [
        # shutdown queued behind an in-flight request with more requests behind it
        (base, pre + [S(0), ('X',), S(1, 'c'), S(2, 'x'), ('F', 0, 'g'), S(3, 'x')]),
        (base, pre + [S(0), ('X',), S(1, 'c'), S(2, 'f'), ('T', 10 * MS)]),
        # disable racing a reply
        (base, pre + [S(0), ('D', 'f'), ('F', 0, 'g'), S(1)]),
        (base, pre + [S(0), ('D', 'x'), S(1, 'c'), ('T', 10 * MS), ('E', 'f'), ('CO',), S(2), ('F', 1, 'g')]),
        # abort mid-transaction, with and without queued requests
        (base, pre + [S(0), ('A',), S(1), S(2, 'x')]),
        (base, pre + [S(0), S(1, 'c'), S(2, 'x'), ('A',), S(3, 'c')]),
        (base, pre + [('V', 5 * MS), S(0), S(1), ('A',)]),
        # callback-style promises dropped on a full queue / senders waiting for a slot
        (dict(base, cap=1), pre + [S(0), S(1, 'x'), S(2, 'x'), S(3, 'c'), S(4, 'f'), S(5, 'x'), ('F', 0, 'g'), ('F', 1, 'g'), ('F', 2, 'e'), ('F', 3, 'b')]),
        (dict(base, cap=1), pre + [S(0), S(1, 'f'), S(2, 'c'), S(3, 'f'), ('A',)]),
        (dict(base, cap=1), pre + [S(0), S(1, 'f'), S(2, 'c'), ('X',), ('T', 10 * MS), S(4, 'x')]),
        (dict(base, cap=2, handles=2), pre + [S(0), S(1), S(2), S(3), ('H',), ('H',), ('T', 10 * MS), ('T', 10 * MS), ('T', 10 * MS), ('T', 10 * MS)]),
        # last handle dropped in every phase
        (base, [('H',)]), (base, [('E', 'f'), ('H',)]), (base, pre + [('H',)]), (base, pre + [S(0), ('H',), ('F', 0, 'g')]),
        (base, pre + [('Z',), ('H',)]), (base, [('E', 'f'), ('CE',), ('H',)]),
        # write error; unformattable request; read errors while idle and in flight
        (base, pre + [('W',), S(0), S(1, 'c')]), (base, pre + [('S', 0, 'u', MS, 'c'), S(1), ('F', 1, 'g')]),
        (base, pre + [S(0), S(1), ('Z',)]), (base, pre + [S(0), S(1), ('G',)]), (base, pre + [('R',), S(0)]),
        # never enabled; submit after termination
        (base, [S(0), S(1, 'c'), S(2, 'x'), ('X',), S(3), S(4, 'c'), S(5, 'x')]),
    ]
    return cases


# two reduced alphabets, each swept exhaustively up to length 6 after `E CO` in the thorough tier
ALPHABETS = [['Sf', 'Sx', 'F*', 'T*', 'X', 'A'], ['Sf', 'D', 'E', 'Z', 'H', 'T*']]
SYMS = sorted(set(ALPHABETS[0] + ALPHABETS[1]))


def concretize(cfg, prefix, syms):
    sim = cl.Sim(cfg)
    sc = list(prefix)
    for s in sc:
        sim.apply(s)
    nid = 0
    for y in syms:
        if y in ('Sf', 'Sx'):
            st = ('S', nid, 'r', 5 * MS, y[1])
            nid += 1
        elif y == 'F*':
            tx = sim.out_tx()
            st = ('F', sim.txid if tx is None else tx, 'g')
        elif y == 'T*':
            dt = (cl.fires_at(sim.until) - sim.now) if sim.ph in ('InFlight', 'Waiting', 'Writing') else MS
            st = ('T', max(1, dt))
        elif y in ('D', 'E'):
            st = (y, 'f')
        else:
            st = (y,)
        if st == ('CO',) and sim.ph != 'Connecting':
            pass
        sc.append(st)
        sim.apply(st)
    return (cfg, sc)


def gen_ties(r, n):
    """two select! branches ready at once: a frame and a command (try_send, so it is in the queue at once) arrive before the
    task runs again; the implementation may take either first - both orders are model behaviours"""
    out = []
    while len(out) < n:
        cfg = cl.default_cfg(r, cap=4, handles=1)
        pre = cl.connected_prefix()
        sim = cl.Sim(cfg)
        sc = list(pre)
        nid = 0
        if r.random() < 0.5:
            sc.append(('S', nid, 'r', 10 * MS, 'f'))
            nid += 1
        for st in sc:
            sim.apply(st)
        cur = sim.out_tx()
        nxt = sim.txid
        frame = ('F', r.choice([nxt, nxt, cur if cur is not None else nxt, (nxt + 1) % 65536]), r.choice('geb'))
        cmd = r.choice([('S', nid, 'r', 10 * MS, 'x'), ('D', 'x'), ('E', 'x'), ('L', 'max', 'x')])
        pair = [('~',) + frame, cmd] if r.random() < 0.5 else [('~',) + cmd, frame]
        tail = [('T', 10 * MS), ('F', sim.txid, 'g'), ('T', 10 * MS)]
        out.append((cfg, sc + pair + tail))
    return out


def check_ties(ctx, n, cases=None):
    cases = cases or gen_ties(ctx.rng, n)
    import re
    nostep = lambda x: re.sub(r'#\d+', '', x)      # without settling, "during which step" is not an observable
    impl = [nostep(cl.canon(x)) for x in ctx.harness('client', [cl.to_line(c) for c in cases], shards=4)]
    va, vb = zip(*[cl.tie_variants(c) for c in cases])
    if cl.MODEL_OK:
        ma = [nostep(cl.canon(x)) for x in ctx.coq_eval(cl.REQUIRES, 'eval_case', [cl.to_coq(c) for c in va], case_type='case')]
        mb = [nostep(cl.canon(x)) for x in ctx.coq_eval(cl.REQUIRES, 'eval_case', [cl.to_coq(c) for c in vb], case_type='case')]
    else:
        ma = mb = impl
    bad = 0
    first = second = differ = 0
    for c, i, a, b in zip(cases, impl, ma, mb):
        differ += a != b
        first += i == a and a != b
        second += i == b and a != b
        fails = cl.spec_failures(c, i)
        if i not in (a, b) or fails:
            bad += 1
            if bad == 1:
                ctx.violation(fails[0] if fails else 'model-differs-from-impl', f'script {cl.to_line(c)} (two branches ready at once): impl={i} is neither order of the model: {a} / {b}' + (f'; violates {fails}' if fails else ''),
                              {'cases': [cl.case_json(c)], 'impl': i, 'model_orders': [a, b], 'failed_clauses': fails}, no_failing_input=not fails)
    ctx.oblige('correspondence:select-ties-membership', bad == 0, f'{bad} of {len(cases)} (orders distinguishable in {differ}: first order taken {first}, second {second})')
    return len(cases), {'tie-scripts': len(cases), 'tie-orders-distinguishable': differ, 'tie-first-order-observed': first, 'tie-second-order-observed': second}


# ------------------------------------------------------------------------------- real threads
LCO = {'lD': 'LDisabled', 'lC': 'LConnecting', 'lN': 'LConnected', 'lS': 'LShutdown'}
ALLOWED = {'Ok', 'Exception', 'BadResponse', 'Timeout', 'NoConnection', 'Io', 'BadFrame', 'Shutdown'}


def gen_mt(r, n_mixed, n_hammer):
    # runs that reproduced finding F11 (a request pushed into the queue after the dropped receiver had drained it) before the fix;
    # it is a race, so these are starting points, not deterministic replays
    lines = ['seed=402327326291393348 mode=hammer-runtime k=12 n=0 cap=8 mt=0', 'seed=7 mode=hammer-command k=6 n=0 cap=64 mt=0',
             'seed=11 mode=hammer-abort k=8 n=0 cap=1024 mt=0']
    for _ in range(n_mixed):
        m = r.choice(['shutdown', 'drop', 'abort', 'rtshutdown', 'rtshutdown', 'late'])
        lines.append(f'seed={r.randrange(1, 2**60)} mode={m} k={r.choice([1, 2, 4, 8])} n={r.choice([5, 20, 60])} '
                     f'cap={r.choice([1, 2, 4, 16])} mt={r.choice([0, 0, 1, 2])}')
    for _ in range(n_hammer):
        lines.append(f'seed={r.randrange(1, 2**60)} mode=hammer-{r.choice(["runtime", "abort", "command"])} k={r.choice([2, 4, 8, 12])} n=0 '
                     f'cap={r.choice([1, 2, 8, 64, 1024])} mt=0')
    return lines


def mt_family(ctx, lines):
    """REAL concurrency (multi-thread runtime, OS threads): no model of the interleaving; the interleaving-independent clauses
    are judged: every submitted request completes exactly once, with an error class the property allows, nothing stays
    pending once the task is gone (while handles are still alive!), the task ends, the listener trace is a legal path"""
    out = ctx.harness('mtstress', lines, shards=8, timeout=2400)
    traces = sorted(set(o.split('|')[1] for o in out if o.count('|') == 3))
    verdict = dict(zip(traces, ctx.coq_eval(['Base.Show', 'Spec.Lifecycle'], 'fun l : list cstate => show_bool (legal l && shutdown_last l)',
                                            ['[' + '; '.join(LCO.get(x[:2]) or (('LWaitFailed ' if x[:2] == 'lF' else 'LWaitDisc ') + x[2:]) for x in t.split()) + ']' for t in traces],
                                            case_type='list cstate', per_shard=300))) if traces else {}
    bad = 0
    stats = {'mt-runs': len(lines), 'mt-requests': 0}
    for line, o in zip(lines, out):
        why = []
        parts = o.split('|')
        if len(parts) != 4:
            why.append('C10.panic-or-garbled-output')
        else:
            kv = dict(x.split('=', 1) for x in parts[0].split())
            stats['mt-requests'] += int(kv['submitted'])
            mode = parts[3]
            stats['mt-mode:' + mode] = stats.get('mt-mode:' + mode, 0) + 1
            for c in kv['classes'].split(','):
                if c:
                    name, cnt = c.split(':')
                    stats['mt-result:' + name] = stats.get('mt-result:' + name, 0) + int(cnt)
                    if name not in ALLOWED:
                        why.append('C10.error-class-not-allowed:' + name)
            if kv['multi'] != '-':
                why.append('C10.completed-twice')
            if kv['zero'] != '-' or kv.get('pending_after_3s', '0') != '0':
                why.append('C10.request-left-pending-after-the-task-is-gone')
            if parts[2] != 'task=ended':
                why.append('C13.task-did-not-end')
            killed = mode in ('abort', 'rtshutdown', 'hammer-abort', 'hammer-runtime', 'hammer-command')
            if verdict.get(parts[1]) != '1' and not (killed and parts[1] == ''):      # killed before its first notification
                why.append('C13.illegal-listener-path')
            if mode in ('shutdown', 'drop', 'late') and not parts[1].endswith('lS'):     # (hammer-command: the runtime is shut down 300 us later, possibly before the command is taken)
                why.append('C13.task-ended-without-a-Shutdown-notification')
        if why:
            bad += 1
            if bad <= 2:
                ctx.violation(why[0], f'real threads [{line}]: {", ".join(why)}; observed {o[:400]}', {'mt_cases': [line], 'observed': o, 'why': why})
    ctx.oblige('real-concurrency:exactly-once-class-legal-path-nothing-pending', bad == 0, f'{bad} of {len(lines)} runs')
    return stats


def run(ctx):
    if not cl.prepare(ctx):
        return
    # the submit paths before the queue (Channel / CallbackSession / C ABI) and the real TCP task's exits (p5)
    from checks import c10_callbacks
    if c10_callbacks.run(ctx):
        return
    r = ctx.rng
    exhaustive = False
    if ctx.replay and 'mt_cases' in ctx.replay:
        # a race: repeat the recorded run (different interleavings each time)
        mt_family(ctx, ctx.replay['mt_cases'] * 400)
        return
    if ctx.replay and 'cases' in ctx.replay and any(s[0] == '~' for j in ctx.replay['cases'] for s in j['script']):
        check_ties(ctx, 0, [cl.case_from_json(j) for j in ctx.replay['cases']])
        return
    if ctx.replay and 'cases' in ctx.replay:
        cases = [cl.case_from_json(j) for j in ctx.replay['cases']]
    else:
        cases = directed()
        parked = cl.gen_parked(r) + cl.gen_large(r)
        cases += [c for c, _ in parked]
        n = 5000 if ctx.quick() else 30000
        while len(cases) < n:
            cfg = cl.default_cfg(r, cap=r.choice([1, 1, 2, 3, 4]))
            if r.random() < 0.15:
                cfg['rtu'] = 1
            k = r.random()
            if k < 0.25:
                cases.append((cfg, cl.gen_random(r, cfg, r.choice([4, 8, 14]))))
            else:
                w = {'A': 0.4, 'X': 0.6, 'H': 0.5, 'D': 1.5, 'W': 0.6, 'Z': 0.7, 'R': 0.5, 'G': 0.5}
                cases.append((cfg, cl.gen_random(r, cfg, r.choice([6, 10, 14]), w, prefix=cl.connected_prefix(r.choice('fx')))))
        if ctx.tier == 'thorough':
            cfg = {'cap': 1, 'handles': 1, 'mt': 1, 'rmin': 20 * MS, 'rmax': 40 * MS}
            seen = set()
            for alphabet in ALPHABETS:
                for ln in range(1, 7):
                    for syms in itertools.product(alphabet, repeat=ln):
                        if syms not in seen:
                            seen.add(syms)
                            cases.append(concretize(cfg, cl.connected_prefix(), syms))
            exhaustive = True
    impl, model = cl.run_both(ctx, cases, shards=16)
    n_mis, n_spec = cl.judge(ctx, 'C10', cases, impl, model)
    ctx.oblige('correspondence:client-task-scripts', n_mis == 0 and n_spec == 0, f'{n_mis} model / {n_spec} spec mismatches in {len(cases)} scripts')
    if not ctx.replay:
        # the transmit side: a parked write ends at write start + request timeout with the I/O class, everything queued behind it then runs
        k0 = len(directed())
        nexp = cl.check_expectations(ctx, 'C10.completion-of-a-directed-script-not-as-the-property-requires', parked, impl[k0:k0 + len(parked)])
        ctx.oblige('spec:directed-parked-write-and-large-frame-expectations', nexp == 0, f'{nexp} failed of {len(parked)}')
    classes = {}
    n_req = n_done = 0
    for c, i in zip(cases, impl):
        for k in cl.classify(c, i):
            classes[k] = classes.get(k, 0) + 1
        p = cl.parse(i)
        if p:
            n_req += len([s for s in c[1] if s[0] == 'S'])
            n_done += len(p['comp'])
    n_tie = 0
    if not ctx.replay:
        n_tie, tie_cls = check_ties(ctx, 200 if ctx.quick() else 2000)
        classes.update(tie_cls)
    if not ctx.replay:
        classes.update(mt_family(ctx, gen_mt(ctx.rng, 60, 400) if ctx.quick() else gen_mt(ctx.rng, 1500, 6000)))
    classes['requests-submitted'] = n_req
    classes['requests-completed'] = n_done
    need = ['result:Shutdown', 'result:NoConnection', 'result:Timeout', 'result:Io', 'result:BadFrame', 'result:Ok', 'step:A', 'step:H', 'step:X', 'step:WP', 'step:WR', 'step:WA', 'style:x', 'style:c', 'task-done']
    if not ctx.replay and any(classes.get(k, 0) < 5 for k in need):
        ctx.oblige('generator-reaches-expected-classes', False, str(classes))
    ctx.coverage.update({
        'evaluations': len(cases) + n_tie + classes.get('mt-runs', 0),
        'distinct_nontrivial': len(set(cl.to_line(c) for c, i in zip(cases, impl) if '|c' in i)),
        'rule': 'event scripts over the whole alphabet (directed scenarios first, then random scripts of up to 14 steps steered by a replica of the model'
                + ('; plus EVERY script up to length 6 over each of the reduced alphabets ' + ' / '.join(' '.join(a) for a in ALPHABETS) + ' following `E CO` (queue capacity 1, limit 1; F* = a frame with the outstanding tx id, T* = a tick to the next timer instant)' if exhaustive else '')
                + '); non-trivial = at least one request completed; distinct by script text',
        'samples': [[cl.to_line(c), i] for c, i in list(zip(cases, impl))[:4]],
        'input_classes': dict(sorted(classes.items())),
        'exhaustive': False,
        'exhaustive_subfamily': exhaustive,
    })
