"""C10 - Every client request completes exactly once, under every interleaving.

Theorems (coq/theories/Properties/C10.v): conservation law for every step, lifted to all event
lists; at most once / accounted / terminal; nothing stuck; classification of completions.
Correspondence: event scripts (length <= 14 after the prefix) over the whole alphabet - submit in
future / callback / try_send style on queues of capacity 1..4, enable, disable, set-decode,
shutdown, drop handle, abort, connect results, frames, partial frames, garbage, EOF, read error,
write fault, slow write, virtual time - on the real ClientLoop and on the model (eager schedule).
Thorough tier: every script over a reduced alphabet up to length 5 after `E CO` (exhaustive).
"""
import itertools
from checks import clientlib as cl
from checks.clientlib import MS


def directed():
    base = {'cap': 4, 'handles': 1, 'mt': 0, 'rmin': 20 * MS, 'rmax': 40 * MS}
    pre = cl.connected_prefix()
    S = lambda i, st='f', t=10 * MS: ('S', i, 'r', t, st)
    cases = [
        # shutdown queued behind an in-flight request with more requests behind it
        (base, pre + [S(0), ('X',), S(1, 'c'), S(2, 'x'), ('F', 0, 'g'), S(3, 'x')]),
        (base, pre + [S(0), ('X',), S(1, 'c'), S(2, 'f'), ('T', 10 * MS)]),
        # disable racing a reply
        (base, pre + [S(0), ('D', 'f'), ('F', 0, 'g'), S(1)]),
        (base, pre + [S(0), ('D', 'x'), S(1, 'c'), ('T', 10 * MS), ('E', 'f'), ('CO',), S(2), ('F', 1, 'g')]),
        # abort mid-transaction, with and without queued requests
        (base, pre + [S(0), ('A',), S(1), S(2, 'x')]),
        (base, pre + [S(0), S(1, 'c'), S(2, 'x'), ('A',), S(3, 'c')]),
        (base, pre + [('V', 5 * MS), S(0), S(1), ('A',)]),
        # callback-style promises dropped on a full queue / senders waiting for a slot
        (dict(base, cap=1), pre + [S(0), S(1, 'x'), S(2, 'x'), S(3, 'c'), S(4, 'f'), S(5, 'x'), ('F', 0, 'g'), ('F', 1, 'g'), ('F', 2, 'e'), ('F', 3, 'b')]),
        (dict(base, cap=1), pre + [S(0), S(1, 'f'), S(2, 'c'), S(3, 'f'), ('A',)]),
        (dict(base, cap=1), pre + [S(0), S(1, 'f'), S(2, 'c'), ('X',), ('T', 10 * MS), S(4, 'x')]),
        (dict(base, cap=2, handles=2), pre + [S(0), S(1), S(2), S(3), ('H',), ('H',), ('T', 10 * MS), ('T', 10 * MS), ('T', 10 * MS), ('T', 10 * MS)]),
        # last handle dropped in every phase
        (base, [('H',)]), (base, [('E', 'f'), ('H',)]), (base, pre + [('H',)]), (base, pre + [S(0), ('H',), ('F', 0, 'g')]),
        (base, pre + [('Z',), ('H',)]), (base, [('E', 'f'), ('CE',), ('H',)]),
        # write error; unformattable request; read errors while idle and in flight
        (base, pre + [('W',), S(0), S(1, 'c')]), (base, pre + [('S', 0, 'u', MS, 'c'), S(1), ('F', 1, 'g')]),
        (base, pre + [S(0), S(1), ('Z',)]), (base, pre + [S(0), S(1), ('G',)]), (base, pre + [('R',), S(0)]),
        # never enabled; submit after termination
        (base, [S(0), S(1, 'c'), S(2, 'x'), ('X',), S(3), S(4, 'c'), S(5, 'x')]),
    ]
    return cases


SYMS = ['Sf', 'Sx', 'D', 'E', 'F*', 'T*', 'X', 'A', 'Z', 'H']


def concretize(cfg, prefix, syms):
    sim = cl.Sim(cfg)
    sc = list(prefix)
    for s in sc:
        sim.apply(s)
    nid = 0
    for y in syms:
        if y in ('Sf', 'Sx'):
            st = ('S', nid, 'r', 5 * MS, y[1])
            nid += 1
        elif y == 'F*':
            tx = sim.out_tx()
            st = ('F', sim.txid if tx is None else tx, 'g')
        elif y == 'T*':
            dt = (cl.fires_at(sim.until) - sim.now) if sim.ph in ('InFlight', 'Waiting', 'Writing') else MS
            st = ('T', max(1, dt))
        elif y in ('D', 'E'):
            st = (y, 'f')
        else:
            st = (y,)
        if st == ('CO',) and sim.ph != 'Connecting':
            pass
        sc.append(st)
        sim.apply(st)
    return (cfg, sc)


def run(ctx):
    if not cl.prepare(ctx):
        return
    r = ctx.rng
    exhaustive = False
    if ctx.replay and 'cases' in ctx.replay:
        cases = [cl.case_from_json(j) for j in ctx.replay['cases']]
    else:
        cases = directed()
        n = 5000 if ctx.quick() else 30000
        while len(cases) < n:
            cfg = cl.default_cfg(r, cap=r.choice([1, 1, 2, 3, 4]))
            k = r.random()
            if k < 0.25:
                cases.append((cfg, cl.gen_random(r, cfg, r.choice([4, 8, 14]))))
            else:
                w = {'A': 0.4, 'X': 0.6, 'H': 0.5, 'D': 1.5, 'W': 0.6, 'Z': 0.7, 'R': 0.5, 'G': 0.5}
                cases.append((cfg, cl.gen_random(r, cfg, r.choice([6, 10, 14]), w, prefix=cl.connected_prefix(r.choice('fx')))))
        if ctx.tier == 'thorough':
            cfg = {'cap': 1, 'handles': 1, 'mt': 1, 'rmin': 20 * MS, 'rmax': 40 * MS}
            for ln in range(1, 6):
                for syms in itertools.product(SYMS, repeat=ln):
                    if ln == 5 and syms[0] not in ('Sf', 'Sx'):
                        continue          # length 5 only after a submit (the rest is covered by a shorter script plus a no-op)
                    cases.append(concretize(cfg, cl.connected_prefix(), syms))
            exhaustive = True
    impl, model = cl.run_both(ctx, cases, shards=16)
    n_mis, n_spec = cl.judge(ctx, 'C10', cases, impl, model)
    ctx.oblige('correspondence:client-task-scripts', n_mis == 0 and n_spec == 0, f'{n_mis} model / {n_spec} spec mismatches in {len(cases)} scripts')
    classes = {}
    n_req = n_done = 0
    for c, i in zip(cases, impl):
        for k in cl.classify(c, i):
            classes[k] = classes.get(k, 0) + 1
        p = cl.parse(i)
        if p:
            n_req += len([s for s in c[1] if s[0] == 'S'])
            n_done += len(p['comp'])
    classes['requests-submitted'] = n_req
    classes['requests-completed'] = n_done
    need = ['result:Shutdown', 'result:NoConnection', 'result:Timeout', 'result:Io', 'result:BadFrame', 'result:Ok', 'step:A', 'step:H', 'step:X', 'style:x', 'style:c', 'task-done']
    if not ctx.replay and any(classes.get(k, 0) < 5 for k in need):
        ctx.oblige('generator-reaches-expected-classes', False, str(classes))
    ctx.coverage.update({
        'evaluations': len(cases),
        'distinct_nontrivial': len(set(cl.to_line(c) for c, i in zip(cases, impl) if '|c' in i)),
        'rule': 'event scripts over the whole alphabet (directed scenarios first, then random scripts of up to 14 steps steered by a replica of the model'
                + ('; plus every script over the reduced alphabet ' + ' '.join(SYMS) + ' up to length 4, and length 5 after a submit, following `E CO`' if exhaustive else '')
                + '); non-trivial = at least one request completed; distinct by script text',
        'samples': [[cl.to_line(c), i] for c, i in list(zip(cases, impl))[:4]],
        'input_classes': dict(sorted(classes.items())),
        'exhaustive': False,
        'exhaustive_subfamily': exhaustive,
    })
