"""C10 on the submit paths (callback / future / C ABI) and the channel-task life cycle over real TCP.

Called from c10.py as `c10_callbacks.run(ctx)` AFTER cl.prepare(ctx) (translation, proofs - Properties/C10_Callbacks.v is
proved by ctx.prove() - and the harness build happen there). Returns True when ctx.replay was one of this module's
replays (key `cb_cases`): the caller should then return without running its own families.

Theorems (Properties/C10_Callbacks.v over Gen/SubmitPaths.v + Gen/FfiTables.v): C10_callback_once, C10_future_once,
C10_ffi_once, C10_submit_paths_cover, C10_tcp_task_ends_only_on_shutdown.
Correspondence (harness cb_submit):
  sub  - all 8 request kinds x {valid, max count, count 0, count > limit, start+count overflow (struct-literal ranges), too
         many values} x {connected, not connected, queue full, after shutdown} through Channel, CallbackSession and the
         rodbus_client_channel_* functions; every callback invocation is counted. Spec: exactly one completion
         (C ABI: at most one callback, exactly one when the call returned Ok, none only with an error code), and it is
         BadRequest when the arguments are rejected before queueing, Shutdown when the task is gone, else what the task
         delivers.
  life - refused port, enable / disable (during WaitAfterFailedConnect, racing the connect, never enabled, twice) /
         listen / submit: NoConnection while disabled or unconnected, OK once connected, never Shutdown and no
         ClientState::Shutdown before the channel is dropped.
"""
import re
import vlib

READS = ('rc', 'rd', 'rh', 'ri')
OPS = {'rc': 'read_coils', 'rd': 'read_discrete_inputs', 'rh': 'read_holding_registers', 'ri': 'read_input_registers',
       'wc': 'write_single_coil', 'wr': 'write_single_register', 'wmc': 'write_multiple_coils', 'wmr': 'write_multiple_registers'}
PATHS = {'fut': 'Channel (future)', 'cb': 'CallbackSession', 'ffi': 'C ABI rodbus_client_channel_*'}
INVALID = ('zero', 'overlimit', 'overflow')


def classes_of(op):
    if op in READS:
        return ['valid', 'maxok', 'zero', 'overlimit', 'overflow']
    if op in ('wmc', 'wmr'):
        return ['valid', 'maxok', 'toomany']
    return ['valid']


def gen_sub():
    cases = []
    for path in PATHS:
        for op in OPS:
            for cls in classes_of(op):
                for state in ('connected', 'noconn', 'shutdown'):
                    cases.append(f'sub {path} {op} {cls} {state}')
        for op, cls in [('rc', 'valid'), ('rh', 'valid'), ('wmr', 'valid'), ('wc', 'valid'), ('rd', 'overlimit'), ('ri', 'zero')]:
            cases.append(f'sub {path} {op} {cls} qfull')
    return cases


LIFE_SCRIPTS = ['e,w,d,s,e,w,s', 'e,w,d,s,s,e,l,c,s', 'e,d,s,e,w,s', 'd,s,e,w,d,d,s,e,s', 'e,w,d,e,w,d,e,w,s', 'e,l,c,s,d,s,e,c,s', 'e,w,s,d,s,p,s,e,l,c,s,d,s']


def gen_life():
    return [f'life {path} {sc}' for path in PATHS for sc in LIFE_SCRIPTS]


def spec_sub(path, op, cls, state):
    """expected `<rc>/n=<k>/<class>` per request (independent reading of C10 on the submit paths)"""
    n_req = 3 if state == 'qfull' else 1
    out = []
    for k in range(n_req):
        if cls in INVALID:
            if path == 'ffi':
                # AddressRange::try_from rejects: error code, no callback; over the limit: error code AND the dropped promise's Shutdown
                out.append('InvalidRange/n=1/Shutdown' if cls == 'overlimit' else 'InvalidRange/n=0/none')
            else:
                out.append('-/n=1/BadRequest')
            continue
        if state == 'shutdown':
            res, rc = 'Shutdown', 'Shutdown'
        elif state == 'noconn':
            res, rc = 'NoConnection', 'Ok'
        elif state == 'qfull':
            res, rc = 'ResponseTimeout', 'Ok'
            if path == 'ffi' and k == 2:
                res, rc = 'Shutdown', 'TooManyRequests'
        else:
            res, rc = ('BadRequest' if cls == 'toomany' else 'OK'), 'Ok'
        out.append(f'{rc if path == "ffi" else "-"}/n=1/{res}')
    return out


def count_ok(path, item):
    """C10's rule alone: exactly one completion (C ABI: Spec/SubmitSpec.c_abi_completion_ok)"""
    m = re.fullmatch(r'(\S+?)/n=(\d+)/(\S+)', item)
    if not m:
        return False
    rc, n = m.group(1), int(m.group(2))
    if path != 'ffi':
        return n == 1
    return n <= 1 and (rc != 'Ok' or n == 1) and (n != 0 or rc != 'Ok')


def spec_life(script):
    enabled = listening = connected = False
    out = []
    for st in script.split(','):
        if st == 'e':
            enabled = True
        elif st == 'd':
            enabled = connected = False
        elif st == 'l':
            listening = True
        elif st == 'c':
            connected = enabled and listening
        elif st == 's':
            out.append('OK' if connected else 'NoConnection')
    return out


PRE = '''Local Open Scope string_scope.
Definition show_res (r : result) : string := match r with ROk => "OK" | RErr e => name_rust_request_error e end.
Definition show_out (o : cb_out) : string := match o with Done r => show_res r | Unknown => "SHAPE?" end.
Definition show_ev (e : cb_event) : string :=
  match e with OnComplete => "OK" | OnFailure x => name_ffi_request_error x | ShapeUnknown => "SHAPE?" end.
Definition count_and (l : list string) : string := "n=" ++ show_N (N.of_nat (List.length l)) ++ "/" ++ match l with [] => "none" | _ => show_list (fun s => s) "+" l end.
Definition ft_of (rq : string) : future_type :=
  match find (fun f => String.eqb (ft_callback f) (callback_of rq)) future_types with Some f => f | None => Build_future_type "" None false false end.
(* (path, method, arguments pass the pre-queue validation, AddressRange::try_from fails, over the read limit, send outcome, task result) *)
Definition run_sub (x : string * string * bool * bool * bool * send_outcome * result) : string :=
  let '(path, m, v, tf, ol, snd_, r) := x in
  let env := {| valid := v; reaches_task := match snd_ with ChannelClosed => false | _ => true end; stask := [TComplete r] |} in
  if String.eqb path "cb" then "-/" ++ count_and (map show_out (cb_call m env))
  else if String.eqb path "fut" then "-/" ++ match fut_call m env with Some r' => "n=1/" ++ show_res r' | None => "n=0/SHAPE?" end
  else match find (fun p => String.eqb (fst p) m) client_calls with
       | None => "NOCALL"
       | Some rq =>
           let (rc, evs) := ffi_call (ft_of m) rq {| null_args := []; failing_validation := if tf then Some "AddressRange::try_from" else None;
                                                     over_limit := ol; send := snd_; task := [TComplete r] |} in
           name_ffi_param_error rc ++ "/" ++ count_and (map show_ev evs)
       end.'''


def coq_term(path, op, cls, state, k):
    valid = cls not in INVALID
    tf = cls in ('zero', 'overflow')
    ol = cls == 'overlimit'
    if state == 'shutdown':
        snd, res = 'ChannelClosed', 'ROk'
    elif state == 'noconn':
        snd, res = 'Accepted', 'RErr RRE_NoConnection'
    elif state == 'qfull':
        snd, res = ('QueueFull' if (path == 'ffi' and k == 2) else 'Accepted'), 'RErr RRE_ResponseTimeout'
    else:
        snd, res = 'Accepted', ('RErr RRE_BadRequest' if cls == 'toomany' else 'ROk')
    return f'("{path}", "{OPS[op]}", {vlib.coq_bool(valid)}, {vlib.coq_bool(tf)}, {vlib.coq_bool(ol)}, {snd}, {res})'


# ---------------------------------------------------------------- the error a C completion callback receives: the conversion, called directly
IO_KINDS = ['NotFound', 'PermissionDenied', 'ConnectionRefused', 'ConnectionReset', 'ConnectionAborted', 'NotConnected', 'AddrInUse', 'AddrNotAvailable',
            'BrokenPipe', 'AlreadyExists', 'WouldBlock', 'InvalidInput', 'InvalidData', 'TimedOut', 'WriteZero', 'Interrupted', 'Unsupported', 'UnexpectedEof',
            'OutOfMemory', 'Other']
STD_EXC = {1: 'IllegalFunction', 2: 'IllegalDataAddress', 3: 'IllegalDataValue', 4: 'ServerDeviceFailure', 5: 'Acknowledge',
           6: 'ServerDeviceBusy', 8: 'MemoryParityError', 10: 'GatewayPathUnavailable', 11: 'GatewayTargetDeviceFailedToRespond'}
ERR_ALIAS = {'Io': 'IoError', 'BadFrame': 'BadFraming', 'Internal': 'InternalError'}


def check_error_classes(ctx, cases):
    """C10 classifies completions (Io / ResponseTimeout / NoConnection / Shutdown / ...): the C callback must be told the class the
    Rust API reports - ffi::RequestError::from(e) for every variant x io::ErrorKind x exception byte (harness ffi_errconv)"""
    impl = ctx.harness('ffi_errconv', cases, timeout=300)
    bad = 0
    for c, i in zip(cases, impl):
        p = c.split()
        want = ('ModbusException' + STD_EXC.get(int(p[1]), 'Unknown')) if p[0] == 'Exception' else ERR_ALIAS.get(p[0], p[0])
        if i != want:
            bad += 1
            if bad <= 3:
                val = f'RequestError::Io(ErrorKind::{p[1]})' if p[0] == 'Io' else (f'RequestError::Exception(ExceptionCode::from({p[1]}))' if p[0] == 'Exception' else f'RequestError::{p[0]}')
                ctx.violation('completion-class.c-abi-conversion', f'a request that completes with {val} through the Rust API is reported to the C completion callback as {i}; its class is {want}'
                              + (' (an I/O error is an I/O error whatever its kind: ResponseTimeout is the class of a request whose reply did not arrive in time)' if p[0] == 'Io' else ''),
                              {'cb_cases': [['errconv', c]], 'impl': i, 'spec': want})
    ctx.oblige('correspondence:completion-class-through-c-abi', bad == 0, f'{bad} disagreements on {len(cases)} error values')


def run(ctx):
    mine = bool(ctx.replay and 'cb_cases' in ctx.replay)
    if ctx.replay and not mine:
        return False
    rep = getattr(ctx, 'gen_report', None) or {}
    for name in ('SubmitPaths.v', 'FfiTables.v'):
        e = rep.get(name, {'ok': False, 'error': 'translator did not run'})
        ctx.oblige(f'translator:{name}', e['ok'], e.get('error', ''))
    rc, out = vlib.coq_make([vlib.vo(m) for m in ['Base.Show', 'Spec.SubmitSpec', 'Model.SubmitPaths']])
    model_ok = ctx.oblige('model-compiles:submit-paths', rc == 0, '' if rc == 0 else str(vlib.parse_coq_error(out) or out[-300:]))
    if mine:
        sub = [c[1] for c in ctx.replay['cb_cases'] if c[0] == 'sub']
        life = [c[1] for c in ctx.replay['cb_cases'] if c[0] == 'life']
        errs = [c[1] for c in ctx.replay['cb_cases'] if c[0] == 'errconv']
    else:
        sub, life = gen_sub(), gen_life()
        errs = [f'Io {k}' for k in IO_KINDS] + [f'Exception {b}' for b in range(256)] + ['Internal', 'NoConnection', 'BadFrame', 'Shutdown', 'ResponseTimeout', 'BadRequest', 'BadResponse']
    if errs:
        check_error_classes(ctx, errs)
    impl = ctx.harness('cb_submit', sub + life, timeout=900)
    impl_sub, impl_life = impl[:len(sub)], impl[len(sub):]

    # ---------------------------------------------------------------- submit paths
    terms, owners = [], []
    for ci, c in enumerate(sub):
        _, path, op, cls, state = c.split()
        for k in range(3 if state == 'qfull' else 1):
            terms.append(coq_term(path, op, cls, state, k))
            owners.append(ci)
    model = [None] * len(terms)
    if model_ok and terms:
        try:
            model = ctx.coq_eval(['Base.Show', 'Gen.FfiTables', 'Gen.SubmitPaths', 'Model.Ffi', 'Model.SubmitPaths'], 'run_sub', terms,
                                 case_type='string * string * bool * bool * bool * send_outcome * result', preamble=PRE, per_shard=120)
        except vlib.ModelEvalError as e:
            ctx.oblige('submit-model-evaluates', False, str(e)[:300])
    by_case = {}
    for o, mo in zip(owners, model):
        by_case.setdefault(o, []).append(mo)
    bad = 0
    classes = {}
    for ci, (c, i) in enumerate(zip(sub, impl_sub)):
        _, path, op, cls, state = c.split()
        want = spec_sub(path, op, cls, state)
        got = i.split(';')
        k = f'{path}.{"rejected-before-queue" if cls in INVALID else state}'
        classes[k] = classes.get(k, 0) + 1
        if i.startswith('FAIL') or i == 'PANIC' or len(got) != len(want):
            bad += 1
            ctx.oblige('submit-scenario-ran', False, f'{c}: {i}')
            continue
        mo = by_case.get(ci, [None] * len(want))
        for j, (g, w, m) in enumerate(zip(got, want, mo)):
            which = f' (request #{j + 1} of 3: queue of one, silent peer)' if state == 'qfull' else ''
            what = f'{PATHS[path]}: {OPS[op]} with {cls} arguments, channel {state}{which}'
            if not count_ok(path, g):
                bad += 1
                if bad <= 4:
                    n = re.search(r'n=(\d+)', g)
                    ctx.violation(f'completion-count.{path}.{OPS[op]}', f'{what}: the completion callback was invoked {n.group(1) if n else "?"} time(s) ({g}); every request must complete exactly once ({w})',
                                  {'cb_cases': [['sub', c]], 'impl': i, 'spec': ';'.join(want), 'model': m})
            elif g != w:
                bad += 1
                if bad <= 4:
                    ctx.violation(f'completion-class.{path}.{OPS[op]}', f'{what}: got {g}, expected {w} (BadRequest when rejected before queueing, Shutdown only when the task is gone, else the task\'s result)',
                                  {'cb_cases': [['sub', c]], 'impl': i, 'spec': ';'.join(want), 'model': m})
            elif m is not None and m != g:
                bad += 1
                if bad <= 4:
                    ctx.violation('submit-model-differs-from-impl', f'{what}: model {m}, implementation and Spec {g}',
                                  {'cb_cases': [['sub', c]], 'impl': i, 'spec': ';'.join(want), 'model': m}, no_failing_input=True)
    ctx.oblige('correspondence:submit-paths-exactly-one-completion', bad == 0, f'{bad} disagreements on {len(sub)} scenarios')

    # ---------------------------------------------------------------- life cycle
    lbad = 0
    for c, i in zip(life, impl_life):
        _, path, script = c.split()
        want = spec_life(script)
        m = re.fullmatch(r'(\S*) shutdown_state=(\d)', i)
        if not m:
            lbad += 1
            ctx.oblige('life-scenario-ran', False, f'{c}: {i}')
            continue
        items = [x for x in m.group(1).split(',') if x]
        got = [x.rsplit('/', 1)[-1] if '/n=' in x else x for x in items]
        classes[f'life.{path}'] = classes.get(f'life.{path}', 0) + 1
        counts_ok = all(count_ok(path, x) for x in items if '/n=' in x)
        if 'Shutdown' in ' '.join(got) or m.group(2) == '1':
            lbad += 1
            if lbad <= 3:
                j = next((k for k, g in enumerate(got) if 'Shutdown' in g), None)
                ctx.violation(f'shutdown-without-shutdown.{path}', f'{PATHS[path]}, refused port, steps {script} (e enable, d disable, w wait for the failed connect, l listen, c wait connected, s submit): '
                              + (f'completion #{j + 1} is {got[j]}' if j is not None else 'no completion says so') + (', ClientState::Shutdown was reported' if m.group(2) == '1' else '')
                              + '; nobody shut the channel down or dropped it - requests must fail with NoConnection while it is disabled / unconnected',
                              {'cb_cases': [['life', c]], 'impl': i, 'spec': ','.join(want) + ' shutdown_state=0'})
        elif got != want or not counts_ok:
            lbad += 1
            if lbad <= 3:
                ctx.violation(f'completion-class.life.{path}', f'{PATHS[path]}, refused port, steps {script}: completions {i}, expected {want}',
                              {'cb_cases': [['life', c]], 'impl': i, 'spec': ','.join(want) + ' shutdown_state=0'})
    ctx.oblige('correspondence:channel-task-survives-disable', lbad == 0, f'{lbad} disagreements on {len(life)} scripts')
    if not mine:
        need = [f'{p}.{k}' for p in PATHS for k in ('rejected-before-queue', 'connected', 'noconn', 'qfull', 'shutdown')] + [f'life.{p}' for p in PATHS]
        missing = [k for k in need if classes.get(k, 0) < 1]
        if missing:
            ctx.oblige('submit-generator-reaches-expected-classes', False, str(missing))
    ctx.coverage['submit_path_classes'] = classes
    ctx.coverage['submit_path_scenarios'] = len(sub) + len(life)
    return mine
