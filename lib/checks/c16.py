"""C16 - Only peers matching the address filter are ever served, in every server variant.

Theorems (coq/theories/Properties/C16.v): wildcard parser = four-field grammar for ALL strings; matches =
membership; the accept arm (shape regenerated from tcp/server.rs) touches the socket only for admitted
peers; every constructor (table regenerated from server/mod.rs and ffi server.rs) forwards the filter.
Correspondence: (a) WildcardIPv4::from_str and rodbus_address_filter_create vs the model (in-Coq
evaluation) and an independent reading of the grammar (regex below) on a string lattice; (b) live
servers of all variants x {Rust API spawn_/create_, C ABI} on loopback, probed from bound source
addresses (127.x.y.z, ::1, v4-mapped through a dual-stack listener): served vs closed without a byte,
vs the model's `matches` and an independent reading of "admits".
"""
import ipaddress
import re

import vlib

FIELDS = ['', '*', '**', '0', '1', '9', '10', '99', '127', '199', '249', '250', '254', '255', '256', '260', '300', '999', '1000',
          '+1', '+0', '+255', '+256', '+', '++1', '-1', '-0', '01', '007', '000', '0255', '00000000255', '0000000256', '+007',
          '1e1', '0x1', ' 1', '1 ', ' ', '1*', '*1', '+*', '*+', '1+', 'é', '１', '٣', '1٣', '１２', 'a', '1a', '/', ':', '2_5',
          '25５', '\t1', '1\n']
V4_EXTRA = ['127.0.0.1', '127.0.0.2', '0.0.0.0', '255.255.255.255', '1.2.3.4', '001.2.3.4', '1.2.3.04', '256.1.1.1', '1.1.1.256',
            '+1.2.3.4', '1.2.3.+4', '*.*.*.*', '*.*.*.*.*', '*.*..*.*', '*.256.*.*', '.*.256.*.*', '1.1.1.1ab', '172.17.20.*',
            '+1.007.*.3', '::1', '::', '::ffff:127.0.0.1', '1::2', 'fe80::1', '1:2:3:4:5:6:7:8', '1:2:3:4:5:6:7', '::1.2.3.4', ':1', '1:', ':', '1:2', '*:*', '1.2.3.4:5', '::g', '1.2.3', '1.2.3.4.', '.1.2.3.4', '1..2.3', '...', '....', '.....',
            '1.2.3.4.5', '*', '', '.', '1,2,3,4', '1.2.3.4\n', ' 1.2.3.4', '１.2.3.4', '1.2.3.٤', '**.1.1.1', '*.*.*.**']

NUMERAL = re.compile(r'\+?[0-9]+\Z')


def spec_parse(s):
    """independent reading of the grammar: four '.'-separated fields, each '*' or an (optionally '+'-signed)
    ASCII decimal numeral of value <= 255"""
    fs = s.split('.')
    if len(fs) != 4:
        return 'ERR'
    out = []
    for f in fs:
        if f == '*':
            out.append('*')
        elif NUMERAL.match(f) and f.isascii() and int(f) <= 255:
            out.append(str(int(f)))
        else:
            return 'ERR'
    return '.'.join(out)


def ip_literal(s):
    """what Rust's IpAddr::from_str accepts, restricted to the forms the generator produces"""
    try:
        if not s.isascii() or '%' in s or s != s.strip():
            return None
        return ipaddress.ip_address(s)
    except ValueError:
        return None


SWEEP_QUICK = ['', '*', '0', '255', '256', '+1']
SWEEP_THOROUGH = ['', '*', '**', '0', '255', '256', '+1', '-1', '01', '1e1', ' 1', 'é']


def sweep(fields):
    """every four-field string over the given field lattice (complete enumeration)"""
    import itertools
    return ['.'.join(t) for t in itertools.product(fields, repeat=4)]


def gen_strings(ctx, n):
    r = ctx.rng
    out = list(V4_EXTRA) + sweep(SWEEP_QUICK if ctx.quick() else SWEEP_THOROUGH)
    # all field counts 0..6 (count 0 = empty string) with lattice fields
    for k in range(1, 7):
        for _ in range(40 if k != 4 else 0):
            out.append('.'.join(r.choice(FIELDS) for _ in range(k)))
    # four fields: each lattice value in each position among valid fields, then random combinations
    valid = ['*', '0', '255', '127', '+1', '007']
    for pos in range(4):
        for f in FIELDS:
            fs = [r.choice(valid) for _ in range(4)]
            fs[pos] = f
            out.append('.'.join(fs))
    while len(out) < n:
        kind = r.random()
        if kind < 0.5:
            fs = [r.choice(FIELDS) if r.random() < 0.3 else r.choice(valid + [str(r.randrange(0, 300))]) for _ in range(4)]
            out.append('.'.join(fs))
        elif kind < 0.8:
            s = '.'.join(r.choice(valid + [str(r.randrange(0, 256))]) for _ in range(4))
            # one mutation: insert / delete / replace a character
            i = r.randrange(0, len(s) + 1)
            m = r.random()
            ch = r.choice(['.', '*', '+', '-', '0', '9', ' ', 'é', '١', ':', 'x'])
            if m < 0.4:
                s = s[:i] + ch + s[i:]
            elif m < 0.7 and s:
                s = s[:max(i - 1, 0)] + s[i:]
            else:
                s = s[:max(i - 1, 0)] + ch + s[i:]
            out.append(s)
        else:
            out.append('.'.join(r.choice(FIELDS) for _ in range(r.randrange(1, 7))))
    return [s for s in out if '\0' not in s]


# ------------------------------------------------------------------------------------------------ live scenarios
VARIANTS = [('rust', v, c) for v in ('tcp', 'tls', 'tlsauthz') for c in ('spawn', 'create')] + [('ffi', v, '-') for v in ('tcp', 'tls', 'tlsauthz')]


def rand_v4(r):
    return '127.%d.%d.%d' % (r.choice([0, 0, 0, 1, 7, 255]), r.choice([0, 0, 1, 200]), r.choice([1, 2, 3, 9, 254]))


def gen_filter(r, peers_pool):
    k = r.random()
    if k < 0.08:
        return 'any'
    if k < 0.3:
        return 'exact=' + r.choice(peers_pool)
    if k < 0.5:
        return 'set=' + '+'.join(sorted(set(r.choice(peers_pool + ['10.0.0.1', '::1']) for _ in range(r.randrange(1, 4)))))
    base = r.choice([p for p in peers_pool if ':' not in p]).split('.')
    pat = []
    for o in base:
        c = r.random()
        if c < 0.35:
            pat.append('*')
        elif c < 0.85:
            pat.append(o)
        elif c < 0.93:
            pat.append(('+' if r.random() < 0.5 else '00') + o)     # accepted numeral spellings
        else:
            pat.append(str((int(o) + r.choice([1, 128])) % 256))
    return 'wc=' + '.'.join(pat)


def gen_live(ctx, per_variant, n_match):
    r = ctx.rng
    lines = []
    fixed = [('127.0.0.1', 'wc=127.0.0.2', '127.0.0.1,127.0.0.2,127.0.0.3'),
             ('127.0.0.1', 'exact=127.0.0.3', '127.0.0.1,127.0.0.2,127.0.0.3'),
             ('127.0.0.1', 'any', '127.0.0.1,127.0.0.2'),
             ('127.0.0.1', 'set=127.0.0.1+127.0.0.3', '127.0.0.1,127.0.0.2,127.0.0.3'),
             ('127.0.0.1', 'wc=*.*.*.3', '127.0.0.1,127.0.0.3,127.7.7.3'),
             ('::1', 'wc=*.*.*.*', '::1'),
             ('::1', 'set=::1+127.0.0.1', '::1'),
             ('::1', 'exact=::2', '::1'),
             ('::', 'wc=127.0.0.*', '127.0.0.1,::1'),
             ('::', 'exact=127.0.0.1', '127.0.0.1'),
             ('::', 'exact=::ffff:127.0.0.1', '127.0.0.1,127.0.0.2'),
             ('0.0.0.0', 'wc=127.*.*.2', '127.0.0.1,127.0.0.2,127.200.1.2')]
    for api, variant, ctor in VARIANTS:
        for bind, flt, peers in fixed:
            lines.append(f'{api} {variant} {ctor} {bind} {flt} {peers}')
        for _ in range(per_variant):
            pool = [rand_v4(r) for _ in range(4)] + ['127.0.0.1', '127.0.0.2']
            flt = gen_filter(r, pool)
            peers = sorted(set(r.choice(pool) for _ in range(r.randrange(2, 6))))
            lines.append(f'{api} {variant} {ctor} 127.0.0.1 {flt} {",".join(peers)}')
    # boundary values of the set filter through the Rust API constructors: empty, emptied again, one element
    for api, variant, ctor in VARIANTS:
        if api == 'rust':
            for flt in ('emptyset', 'insrem=127.0.0.1', 'insrem=127.0.0.2+127.0.0.3', 'set=127.0.0.2', 'set=127.0.0.1'):
                lines.append(f'{api} {variant} {ctor} 127.0.0.1 {flt} 127.0.0.1,127.0.0.2')
    # connection SEQUENCES to one listener: the same stranger again and again, strangers alternating, permitted peers in
    # between; every connection is judged on its own (history-free)
    seqs = [('exact=127.0.0.1', '127.0.0.2,127.0.0.2,127.0.0.2'),
            ('wc=127.0.0.1', '127.0.0.2,127.0.0.3,127.0.0.2,127.0.0.3,127.0.0.3'),
            ('set=127.0.0.1+127.0.0.4', '127.0.0.2,127.0.0.1,127.0.0.2,127.0.0.2,127.0.0.4,127.0.0.2,127.0.0.1'),
            # @D = set_decode_level between connections: the filter stays what the constructor was given
            ('exact=127.0.0.1', '127.0.0.2,@D,127.0.0.2,127.0.0.1,@D,127.0.0.3')]
    for api, variant, ctor in VARIANTS:
        for flt, peers in seqs:
            lines.append(f'{api} {variant} {ctor} 127.0.0.1 {flt} {peers}')
        for _ in range(max(2, per_variant // 12)):
            pool = [rand_v4(r) for _ in range(3)] + ['127.0.0.1', '127.0.0.2']
            flt = gen_filter(r, pool)
            peers = []
            for _ in range(r.randrange(4, 8)):
                peers.append(peers[-1] if peers and peers[-1] != '@D' and r.random() < 0.45 else r.choice(pool))
                if r.random() < 0.15:
                    peers.append('@D')
            lines.append(f'{api} {variant} {ctor} 127.0.0.1 {flt} {",".join(peers)}')
    # ONE C-ABI filter object, several servers created from it (every order of the three variants, pairs, twice the same),
    # optionally rodbus_address_filter_add afterwards, then the object is destroyed; only then the servers are probed
    import itertools
    orders = [list(o) for o in itertools.permutations(['tcp', 'tls', 'tlsauthz'])] + [['tcp', 'tcp'], ['tls', 'tcp'], ['tlsauthz', 'tls'], ['tcp']]
    for order in orders:
        for flt, added in [('set=127.0.0.2', '-'), ('wc=127.0.0.2', '-'), ('exact=127.0.0.2', '127.0.0.3'), ('set=127.0.0.2+127.0.0.9', '127.0.0.1'),
                           ('wc=127.0.*.3', '127.0.0.1')]:
            if r.random() < (1.0 if order == ['tcp', 'tls', 'tlsauthz'] else 0.4):
                lines.append(f'reuse {"+".join(order)} 127.0.0.1 {flt} {added} 127.0.0.1,127.0.0.2,127.0.0.3')
    for _ in range(per_variant):
        pool = [rand_v4(r) for _ in range(4)] + ['127.0.0.1', '127.0.0.2']
        flt = gen_filter(r, pool)
        order = [r.choice(['tcp', 'tls', 'tlsauthz']) for _ in range(r.choice([2, 3]))]
        added = r.choice(['-', '-', r.choice(pool)])
        peers = sorted(set(r.choice(pool) for _ in range(r.randrange(2, 5))))
        lines.append(f'reuse {"+".join(order)} 127.0.0.1 {flt} {added} {",".join(peers)}')
    # `matches` on random filters / addresses: cheapest variant, many filters
    for _ in range(n_match):
        pool = [rand_v4(r) for _ in range(6)]
        flt = gen_filter(r, pool)
        peers = sorted(set(r.choice(pool) for _ in range(r.randrange(3, 8))))
        api, variant, ctor = r.choice([('rust', 'tcp', 'create'), ('ffi', 'tcp', '-')])
        lines.append(f'{api} {variant} {ctor} 127.0.0.1 {flt} {",".join(peers)}')
    return lines


def seen_as(bind, peer):
    """the peer address the kernel reports to a listener bound to `bind`"""
    p = ipaddress.ip_address(peer)
    if ipaddress.ip_address(bind).version == 6 and p.version == 4:
        return ipaddress.ip_address('::ffff:' + peer)
    return p


def spec_admits(flt, peer):
    """independent reading of the property's four filter kinds"""
    if flt == 'any':
        return True
    if flt == 'emptyset' or flt.startswith('insrem='):
        return False            # a set admits exactly its members: the empty set admits nobody
    k, v = flt.split('=', 1)
    if k == 'exact':
        return ipaddress.ip_address(v) == peer
    if k == 'set':
        return any(ipaddress.ip_address(x) == peer for x in v.split('+'))
    pat = spec_parse(v)
    assert pat != 'ERR', flt
    if peer.version != 4:
        return False
    return all(f == '*' or int(f) == o for f, o in zip(pat.split('.'), peer.packed))


def coq_ip(p):
    if p.version == 4:
        return 'V4 ' + ' '.join(str(b) for b in p.packed)
    segs = [int.from_bytes(p.packed[i:i + 2], 'big') for i in range(0, 16, 2)]
    return 'V6 ' + vlib.coq_N_list(segs)


def coq_filter(flt):
    if flt == 'any':
        return 'FAny'
    if flt == 'emptyset' or flt.startswith('insrem='):
        return 'FSet []'
    k, v = flt.split('=', 1)
    if k == 'exact':
        return f'FExact ({coq_ip(ipaddress.ip_address(v))})'
    if k == 'set':
        return 'FSet [' + '; '.join(coq_ip(ipaddress.ip_address(x)) for x in v.split('+')) + ']'
    return 'FWc ' + vlib.coq_N_list(v.encode('utf-8'))


LIVE_PRE = '''Local Open Scope string_scope.
Inductive fspec := FAny | FExact (a : ip) | FSet (s : list ip) | FWc (s : list N).
Definition to_filter (x : fspec) : option afilter :=
  match x with FAny => Some Any | FExact a => Some (Exact a) | FSet s => Some (AnyOf s)
  | FWc s => option_map WildcardIpv4 (parse_wildcard s) end.'''
LIVE_FN = ('fun c : fspec * list ip => match to_filter (fst c) with None => "BADFILTER" | Some f => '
           'show_list (fun p => if matches f p then "S" else "C") "," (snd c) end')
# the accept decision over a sequence of connections, through the REGENERATED guard of the accept arm; when the guard has a
# conjunct that is not the filter test the model has no answer (the implementation is judged against the Spec alone)
SEQ_FN = ('fun c : fspec * list ip => match to_filter (fst c) with None => "BADFILTER" | Some f => '
          'if forallb (fun g => match g with GOther _ => false | _ => true end) accept_guard && match accept_guard_kind with GuardUnknown => false | _ => true end '
          'then show_list (fun b : bool => if b then "S" else "C") "," (serve_seq accept_guard accept_guard_kind (fun _ _ _ => false) [] f (snd c)) else "GUARD?" end')


def model_eval(ctx, *a, **kw):
    """the model's answers, or None per case when the model does not compile (lost tie: the
    implementation is then still compared with the Spec, to find a concrete failing input)"""
    n = len(a[2])
    if not ctx.models_ok:
        return [None] * n
    try:
        return ctx.coq_eval(*a, **kw)
    except vlib.ModelEvalError as e:
        ctx.oblige('model-evaluates', False, str(e)[:300])
        return [None] * n


def run(ctx):
    ctx.translate(['ServerCtors.v'])
    models_ok = ctx.build_models(['Base.Show', 'Model.Filter', 'Spec.FilterSpec'])
    ctx.prove()
    if ctx.tier == 'thorough':
        ctx.coqchk()
    ctx.models_ok = models_ok
    if not ctx.build_harness():
        return
    if ctx.replay and 'cases' in ctx.replay:
        strings = [c[1] for c in ctx.replay['cases'] if c[0] == 'parse']
        live = [c[1] for c in ctx.replay['cases'] if c[0] == 'live']
    else:
        strings = gen_strings(ctx, 12000 if ctx.quick() else 80000)
        live = gen_live(ctx, 40 if ctx.quick() else 80, 600 if ctx.quick() else 1500)

    # ---------------------------------------------------------------- (a) the parser
    n_bad = 0
    parse_samples, live_samples = [], []
    classes = {'parse_accepted': 0, 'parse_rejected': 0, 'ffi_ip_literal': 0}
    by_fields = {}
    if strings:
        impl = ctx.harness('filter_parse', [s.encode('utf-8').hex() or '-' for s in strings], shards=4)
        model = model_eval(ctx, ['Base.Show', 'Model.Filter'], 'show_parse', [vlib.coq_N_list(s.encode('utf-8')) for s in strings],
                             case_type='list N', per_shard=400)
        ffi_model = model_eval(ctx, ['Base.Show', 'Model.Filter'], 'show_ffi_filter', [vlib.coq_N_list(s.encode('utf-8')) for s in strings],
                               case_type='list N', per_shard=400)
        parse_samples = [['parse', s, i] for s, i in zip(strings, impl)]
        for s, i, m, fm in zip(strings, impl, model, ffi_model):
            spec = spec_parse(s)
            rust, ffi = (i.split('|') + ['?'])[:2]
            classes['parse_accepted' if spec != 'ERR' else 'parse_rejected'] += 1
            nf = min(len(s.split('.')), 7) if s else 0
            by_fields[nf] = by_fields.get(nf, 0) + 1
            lit = ip_literal(s)
            if lit is not None:
                classes['ffi_ip_literal'] += 1
                ffi_expect = 'SET:' + str(lit)
            else:
                ffi_expect = 'ERR:InvalidIpAddress' if spec == 'ERR' else 'WC:' + spec
            if ffi.startswith('SET:') and ':' in ffi[4:] and ':' not in s:
                n_bad += 1
                ctx.violation('ipv6-literal-without-colon', f'{s!r} was taken as the IPv6 literal {ffi[4:]} although it contains no colon (hypothesis of C16_ffi_filter_full)',
                              {'cases': [['parse', s]], 'impl': i}, no_failing_input=True)
            if lit is not None and ffi.startswith('SET:') and ip_literal(ffi[4:]) == lit:
                ffi = ffi_expect        # same address, other textual form (::ffff:127.0.0.1 vs ::ffff:7f00:1)
            if rust != spec or ffi != ffi_expect:
                n_bad += 1
                if n_bad <= 3:
                    which = 'Rust API WildcardIPv4::from_str' if rust != spec else 'C ABI rodbus_address_filter_create'
                    got, want = (rust, spec) if rust != spec else (ffi, ffi_expect)
                    key = ('wildcard-parser-accepts-outside-grammar' if want.startswith('ERR') else
                           'wildcard-parser-rejects-or-misreads-grammar') + ('' if rust != spec else '.ffi')
                    ctx.violation(key, f'{which} on {s!r}: got {got}, the four-field grammar says {want}',
                                  {'cases': [['parse', s]], 'impl': i, 'spec': spec, 'model': m})
            elif fm is not None and (lit is None or lit.version == 4) and fm != ffi_expect:
                n_bad += 1
                if n_bad <= 3:
                    ctx.violation('ffi-filter-model-differs-from-impl', f'{s!r}: model of the C-ABI filter string gives {fm}, implementation and oracle {ffi_expect}',
                                  {'cases': [['parse', s]], 'impl': i, 'spec': ffi_expect, 'model': fm}, no_failing_input=True)
            elif m is not None and m != spec:
                n_bad += 1
                if n_bad <= 3:
                    ctx.violation('parser-model-differs-from-impl', f'{s!r}: model {m}, implementation and grammar {spec}',
                                  {'cases': [['parse', s]], 'impl': i, 'spec': spec, 'model': m}, no_failing_input=True)
    ctx.oblige('correspondence:wildcard-parser', n_bad == 0, f'{n_bad} disagreements on {len(strings)} strings')

    # ---------------------------------------------------------------- (b) live servers
    n_live_bad = 0
    n_probes = 0
    outcome_classes = {}
    reuse = [ln for ln in live if ln.startswith('reuse ')]
    live = [ln for ln in live if not ln.startswith('reuse ')]
    n_reuse_bad = 0
    if reuse:
        rimpl = ctx.harness('filter_live', reuse, args=[vlib.REPO], timeout=900)
        rparsed = [ln.split() for ln in reuse]
        rmodel = model_eval(ctx, ['Base.Show', 'Model.Filter'], LIVE_FN,
                            [f'({coq_filter(p[3])}, [{"; ".join(coq_ip(seen_as(p[2], x)) for x in p[5].split(","))}])' for p in rparsed],
                            case_type='fspec * list ip', preamble=LIVE_PRE, per_shard=100)
        for ln, p, i, m in zip(reuse, rparsed, rimpl, rmodel):
            _, variants, bind, flt, added, peers = p
            peers = peers.split(',')
            # every server keeps the filter it was created with: later servers, a later add, the destroy change nothing
            want = ','.join('S' if spec_admits(flt, seen_as(bind, x)) else 'C' for x in peers)
            parts = [x for x in i.split(';') if not x.startswith('add=')]
            n_probes += len(parts) * len(peers)
            for k2, v in enumerate(variants.split('+')):
                key_cls = f'ffi.reuse.{v}.server#{min(k2 + 1, 3)}'
                outcome_classes[key_cls] = outcome_classes.get(key_cls, 0) + 1
            if i.startswith('FAIL') or i == 'PANIC' or len(parts) != len(variants.split('+')):
                n_reuse_bad += 1
                ctx.oblige('live-scenario-ran', False, f'{ln}: {i}')
                continue
            for k2, (v, part) in enumerate(zip(variants.split('+'), parts)):
                got = part.split(':', 1)[1]
                if got != want:
                    n_reuse_bad += 1
                    if n_reuse_bad <= 3:
                        gi, wi = got.split(','), want.split(',')
                        j = next((x for x in range(len(wi)) if x >= len(gi) or gi[x] != wi[x]), 0)
                        small = f'reuse {"+".join(variants.split("+")[:k2 + 1])} {bind} {flt} {added} {peers[j]}'
                        what = 'is SERVED' if wi[j] == 'C' and gi[j:j + 1] == ['S'] else f'gets {gi[j] if j < len(gi) else "?"} instead of {wi[j]}'
                        ctx.violation(f'filter-object-reused.server#{k2 + 1}.{v}',
                                      f'one rodbus_address_filter_t ({flt}) used for {variants.replace("+", ", then ")}' + (f', then rodbus_address_filter_add({added})' if added != '-' else '') +
                                      f', then destroyed: server #{k2 + 1} ({v}): peer {peers[j]} {what}; every server must keep the filter it was created with',
                                      {'cases': [['live', small]], 'impl': i, 'spec': want, 'model': m, 'original_case': ln})
                elif m is not None and m != want:
                    n_reuse_bad += 1
                    ctx.violation('matches-model-differs-from-impl', f'{ln}: model {m}, implementation and Spec {want}', {'cases': [['live', ln]], 'impl': i, 'spec': want, 'model': m}, no_failing_input=True)
        live_samples = [['live', ln, i] for ln, i in list(zip(reuse, rimpl))[:2]]
    if live:
        impl = ctx.harness('filter_live', live, args=[vlib.REPO], timeout=900)
        live_samples = live_samples + [['live', ln, i] for ln, i in zip(live, impl)]
        parsed = []
        for ln in live:
            api, variant, ctor, bind, flt, peers = ln.split()
            parsed.append((api, variant, ctor, bind, flt, peers.split(',')))
        model = model_eval(ctx, ['Base.Show', 'Gen.ServerCtors', 'Model.Filter'], SEQ_FN,
                             [f'({coq_filter(p[4])}, [{"; ".join(coq_ip(seen_as(p[3], x)) for x in p[5] if x != "@D")}])' for p in parsed],
                             case_type='fspec * list ip', preamble=LIVE_PRE, per_shard=100)
        if any(m == 'GUARD?' for m in model):
            ctx.oblige('accept-guard-is-the-filter-test', False, 'the regenerated guard of the accept arm has a conjunct besides filter.matches (Gen/ServerCtors.v accept_guard): the model cannot predict sequences')
            model = [None if m == 'GUARD?' else m for m in model]
        for ln, p, i, m in zip(live, parsed, impl, model):
            api, variant, ctor, bind, flt, peers = p
            got = i.split(',')
            mod_real = iter(m.split(',') if m else [])
            mod = [('D' if x == '@D' else (next(mod_real, None) if m is not None else None)) for x in peers]
            if i.startswith('FAIL') or i == 'PANIC' or len(got) != len(peers):
                n_live_bad += 1
                ctx.oblige('live-scenario-ran', False, f'{ln}: {i}')
                continue
            for j, (peer, g, mm) in enumerate(zip(peers, got, mod)):
                if peer == '@D':
                    outcome_classes['sequence.set_decode_level'] = outcome_classes.get('sequence.set_decode_level', 0) + 1
                    if g != 'D':
                        n_live_bad += 1
                        ctx.oblige('live-scenario-ran', False, f'{ln}: set_decode_level: {g}')
                    continue
                n_probes += 1
                want = 'S' if spec_admits(flt, seen_as(bind, peer)) else 'C'
                k = f'{api}.{variant}.{ctor}.{want}'
                outcome_classes[k] = outcome_classes.get(k, 0) + 1
                if j > 0:
                    k = 'sequence.' + ('repeat' if peers[j - 1] == peer else ('after-set_decode_level' if '@D' in peers[:j] else 'other')) + '.' + want
                    outcome_classes[k] = outcome_classes.get(k, 0) + 1
                if g != want:
                    n_live_bad += 1
                    if n_live_bad <= 4:
                        small = f'{api} {variant} {ctor} {bind} {flt} {peer}'
                        if j > 0:
                            # does the connection alone reproduce it, or only after the connections before it?
                            cands = [[peer], peers[j - 1:j + 1], peers[:j + 1]]
                            outs = ctx.harness('filter_live', [f'{api} {variant} {ctor} {bind} {flt} {",".join(cs)}' for cs in cands], args=[vlib.REPO], timeout=300)
                            pick = next((cs for cs, o in zip(cands, outs) if o.split(',')[-1] != want), peers[:j + 1])
                            if len(pick) > 1:
                                seq = ','.join(pick)
                                what = {'S': 'is SERVED', 'O': 'is kept open (not closed)'}.get(g, f'gets {g}') if want == 'C' else f'gets {g} instead of being served'
                                ctx.violation(f'accept-decision-depends-on-earlier-connections.{api}.{variant}',
                                              f'{api} {variant} server ({ctor}) bound to {bind} with filter {flt}, connections from {seq} in this order: connection #{len(pick)} (peer {peer}, '
                                              f'{"not matching" if want == "C" else "matching"} the filter) {what}, although the same peer alone is answered correctly; every connection must be judged by the filter alone',
                                              {'cases': [['live', f'{api} {variant} {ctor} {bind} {flt} {seq}']], 'impl': g, 'spec': want, 'model': mm, 'original_case': ln})
                                continue
                        if want == 'C':
                            what = {'S': 'is SERVED', 'O': 'is kept open (not closed)'}.get(g, f'gets {g}')
                            key = f'filtered-peer-not-closed.{api}.{variant}'
                            txt = f'{api} {variant} server ({ctor}) bound to {bind} with filter {flt}: peer {peer} does not match the filter but {what}'
                        else:
                            key = f'admitted-peer-not-served.{api}.{variant}'
                            txt = f'{api} {variant} server ({ctor}) bound to {bind} with filter {flt}: peer {peer} matches the filter but gets {g}'
                        ctx.violation(key, txt, {'cases': [['live', small]], 'impl': g, 'spec': want, 'model': mm, 'original_case': ln})
                elif mm is not None and mm != want:
                    n_live_bad += 1
                    ctx.violation('matches-model-differs-from-impl', f'{ln}: peer {peer}: model {mm}, implementation and Spec {want}',
                                  {'cases': [['live', ln]], 'impl': g, 'spec': want, 'model': mm}, no_failing_input=True)
    ctx.oblige('correspondence:live-servers-all-variants', n_live_bad == 0, f'{n_live_bad} disagreements on {n_probes} probes')
    ctx.oblige('correspondence:one-filter-object-several-servers', n_reuse_bad == 0, f'{n_reuse_bad} disagreements on {len(reuse)} scenarios')

    if not ctx.replay:
        missing = [f'{a}.{v}.{c}.{w}' for a, v, c in VARIANTS for w in 'SC' if outcome_classes.get(f'{a}.{v}.{c}.{w}', 0) < 3]
        if missing or classes['parse_accepted'] < 50 or classes['parse_rejected'] < 200 or by_fields.get(0, 0) < 1 or any(by_fields.get(k, 0) < 5 for k in range(1, 7)):
            ctx.oblige('generator-reaches-expected-classes', False, f'missing {missing} classes {classes} fields {by_fields}')
    nontrivial_strings = set(s for s in strings if 3 <= len(s.split('.')) <= 5)
    probes = set()
    for ln in live:
        api, variant, ctor, bind, flt, peers = ln.split()
        for x in peers.split(','):
            probes.add((api, variant, ctor, bind, flt, x))
    for ln in reuse:
        _, variants, bind, flt, added, peers = ln.split()
        for x in peers.split(','):
            probes.add(('ffi-reuse', variants, added, bind, flt, x))
    classes.update({'strings_by_field_count': {str(k): v for k, v in sorted(by_fields.items())}, 'live_expected_outcomes': outcome_classes})
    ctx.coverage.update({
        'evaluations': len(strings) + n_probes,
        'distinct_nontrivial': len(nontrivial_strings) + len(probes),
        'rule': 'parser: strings over a field lattice (field counts 0..6, fields incl. "", "*", "**", 0, 255, 256, +1, -1, 01, 1e1, " 1", non-ASCII digits) plus single-character mutations of valid patterns; non-trivial = 3..5 fields (adjacent to the acceptance boundary), distinct by value. live: one probe = (api, variant, constructor, bind address, filter, source address) against a real listening server; every probe is non-trivial; distinct by that tuple',
        'samples': parse_samples[40:44] + live_samples[:4],
        'input_classes': classes,
        'exhaustive': False,
        'exhaustive_sub_sweep': f'all {len(sweep(SWEEP_QUICK if ctx.quick() else SWEEP_THOROUGH))} four-field strings over the lattice {SWEEP_QUICK if ctx.quick() else SWEEP_THOROUGH} are included (complete enumeration of that sub-lattice); the rest is sampled',
        'live_scenarios': len(live) + len(reuse),
        'filter_object_reuse_scenarios': len(reuse),
        'live_probes': n_probes,
    })
