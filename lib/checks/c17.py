"""C17 - Multi-drop discipline: silent unless addressed; broadcast writes reach all units.

Theorems (coq/theories/Properties/C17.v) about the server model: a reply implies a configured unit
address; a broadcast write is applied once to every configured unit in map order and never
answered; broadcast reads / malformed broadcasts do nothing. Correspondence: all 256 destination
bytes x 8 request kinds x {valid, failing in the handler, malformed} x unit maps of 0-3 units over
RTU (and TCP, where 0 is an ordinary unit id), each session closed by a sentinel request to a
configured unit whose reply must be the only further bytes.
"""
from checks import srv


def variants(r, link, fc, dest):
    """(valid pdu, malformed pdu) for a function code"""
    s = r.choice([0, 5, 100, 1000])
    if fc <= 4:
        good = bytes([fc] + srv.be(s) + srv.be(r.choice([1, 3, 8, 9])))
        bad = bytes([fc] + srv.be(s) + srv.be(r.choice([0, 2001, 65535])))
    elif fc == 5:
        good = bytes([fc] + srv.be(s) + srv.be(r.choice([0xFF00, 0])))
        bad = bytes([fc] + srv.be(s) + srv.be(r.choice([1, 0x00FF, 0xFF01])))
    elif fc == 6:
        good = bytes([fc] + srv.be(s) + srv.be(r.randrange(65536)))
        bad = bytes([fc] + srv.be(65535) + srv.be(7)) if link == 'rtu' else bytes([fc] + srv.be(s))
    elif fc == 15:
        q = r.choice([1, 8, 9, 20])
        good = bytes([fc] + srv.be(s) + srv.be(q) + [(q + 7) // 8] + srv.rnd_bytes(r, (q + 7) // 8))
        bad = bytes([fc] + srv.be(s) + srv.be(q + 16) + [(q + 7) // 8] + srv.rnd_bytes(r, (q + 7) // 8))
    else:
        q = r.choice([1, 2, 5])
        good = bytes([fc] + srv.be(s) + srv.be(q) + [2 * q] + srv.rnd_bytes(r, 2 * q))
        bad = bytes([fc] + srv.be(s) + srv.be(0) + [2 * q] + srv.rnd_bytes(r, 2 * q))
    return good, bad


def gen_cases(ctx):
    r = ctx.rng
    cases = srv.load_corpus(ctx, 'C17')
    meta = []
    for link in ('rtu', 'tcp'):
        for dest in range(256):
            for rep in range(2 if link == 'rtu' else 1):
                k = r.choice([0, 1, 2, 3]) if rep == 0 else r.choice([1, 2, 3])
                pool = [x for x in range(256)]
                ids = set(r.sample(pool, k))
                if k and r.random() < 0.4:
                    ids.pop()
                    ids.add(dest)            # the addressed unit is configured (on RTU, unit 0 is still only reachable by broadcast)
                ids = sorted(ids)
                pdus = []
                fcs = list(srv.KNOWN_FC)
                r.shuffle(fcs)
                for fc in fcs:
                    good, bad = variants(r, link, fc, dest)
                    pdus.append(r.choice([good, good, bad]))
                units = []
                for uid in ids:
                    # handler-failing: exceptions on the addresses the frames touch
                    rex, wex = [], []
                    for p in pdus:
                        rg = srv.pdu_range(p)
                        if rg and r.random() < 0.35:
                            if p[0] <= 4:
                                rex.append((p[0] - 1, min(65535, rg[0] + r.randrange(0, max(1, rg[1]))), r.choice([2, 4, 6])))
                            else:
                                wex.append(({5: 0, 6: 1, 15: 2, 16: 3}[p[0]], rg[0], r.choice([2, 4, 6])))
                    units.append((uid, r.choice([1, 3, 5]), r.randrange(100), tuple(rex), tuple(wex), (), (), (), ()))
                units = list(srv.share_some(r, tuple(units), 0.3))
                frames = [(r.randrange(65536) if link == 'tcp' else None, dest, p) for p in pdus]
                if ids:
                    sent = r.choice([x for x in ids if not (link == 'rtu' and x == 0)] or [None])
                    if sent is not None:
                        frames.append((0xBEEF if link == 'tcp' else None, sent, bytes([3, 0, 0, 0, 1])))
                cases.append((link, tuple(units), None, tuple(frames)))
    n = 600 if ctx.quick() else 6000
    for _ in range(n):
        cases.append(srv.gen_session(r, 'rtu', big_ok=False))
    return cases


def run(ctx):
    if not srv.prepare(ctx, ['ReaderLoop.v']):
        return
    if ctx.replay and 'stream_cases' in ctx.replay:
        srv.replay_streams(ctx)
        return
    if ctx.replay and 'cases' in ctx.replay:
        cases = [srv.case_from_json(c) for c in ctx.replay['cases']]
    else:
        cases = gen_cases(ctx)
    impl, both, n_spec, n_model = srv.compare(ctx, cases, 'all', 'multidrop', 'replies and per-unit handler log')
    for link in ('rtu', 'tcp'):
        idx = [k for k, c in enumerate(cases) if c[0] == link]
        bad = [k for k in idx if srv.differs(impl[k], both[k], 'all')]
        ctx.oblige(f'correspondence:replies-and-unit-logs:{link}', not bad, f'{len(bad)} of {len(idx)} sessions differ')
    # implementation only, straight from the statement: silent unless addressed; broadcast never answered
    st = {'frames:to-configured-unit': 0, 'frames:to-unconfigured-unit': 0, 'frames:broadcast': 0, 'broadcast-write-calls': 0,
          'dest-bytes-covered:rtu': len(set(f[1] for c in cases if c[0] == 'rtu' for f in c[3])),
          'dest-bytes-covered:tcp': len(set(f[1] for c in cases if c[0] == 'tcp' for f in c[3]))}
    noisy = []
    for c, i in zip(cases, impl):
        rep = srv.split3(i)[0]
        ids = [u[0] for u in c[1]]
        for f, x in zip(c[3], rep):
            bc = c[0] == 'rtu' and f[1] == 0
            if bc:
                st['frames:broadcast'] += 1
            elif f[1] in ids:
                st['frames:to-configured-unit'] += 1
            else:
                st['frames:to-unconfigured-unit'] += 1
            if c[2] is None and (bc or f[1] not in ids) and x != '-':
                noisy.append((srv.to_line(c)[:200], x))
            if c[2] is None and not bc and f[1] in ids and len(f[2]) > 0 and x == '-':
                noisy.append((srv.to_line(c)[:200], 'no reply to ' + bytes(f[2]).hex()))
        st['broadcast-write-calls'] += sum(1 for e in srv.split3(i)[1] if e[:2] in ('ws', 'wm')) if any(c[0] == 'rtu' and f[1] == 0 for f in c[3]) else 0
    ctx.oblige('silent-unless-addressed-and-every-addressed-request-answered', not noisy, f'{len(noisy)}: {noisy[:2]}')
    if not ctx.replay:
        r = ctx.rng
        n = 300 if ctx.quick() else 3000
        ro = [srv.gen_reopen_case(r) for _ in range(n)]
        srv.stream_pass(ctx, ro, 'all', 'correspondence:rtu-port-reopen:replies-and-unit-logs', 'multidrop.rtu-reopen', reopen=True)
        st['rtu-reopen-runs'] = n
        st['rtu-reopen-runs:with-crc-error'] = sum(1 for c, s in ro if len([x for x in s if not x.startswith('@')]) > len(c[3]))
        st['rtu-reopen-runs:frames-to-unserved-units'] = sum(1 for c, _ in ro for f in c[3] if f[1] not in [u[0] for u in c[1]])
    cl = srv.coverage(ctx, cases, impl,
                      'for every destination byte 0..255 on RTU (twice) and TCP: a session of the 8 request kinds (valid / failing in the handler through per-address '
                      'exception maps / malformed) against a unit map of 0-3 units plus a sentinel request to a configured unit; then mixed RTU sessions; '
                      'non-trivial = contains at least one valid request; distinct by value', st)
    if not ctx.replay:
        ok = st['dest-bytes-covered:rtu'] == 256 and st['dest-bytes-covered:tcp'] == 256 and st['frames:broadcast'] >= 16 and st['broadcast-write-calls'] >= 3 \
            and cl.get('sessions:units=0', 0) >= 3 and cl.get('sessions:units=3', 0) >= 3 and cl.get('sessions:with-shared-handler-object', 0) >= 10
        ctx.oblige('generator-reaches-expected-classes', ok, str(st))
