"""C01 - Server replies exactly as the Modbus application protocol prescribes.

Theorems (coq/theories/Properties/C01.v): the model of SessionTask::handle_frame (Model/Server.v)
equals the reference server of Spec/Modbus.v on every well-formed frame, for every handler state
machine, unit map and authorization policy; lifted to frame sequences. Correspondence: the
production session task over the in-memory transport vs. the model (every case) and vs. the Spec,
both evaluated inside Coq; observable = the bytes written per request and how the session ended.
"""
from checks import srv


def gen_cases(ctx):
    r = ctx.rng
    cases = srv.load_corpus(ctx, 'C01')
    cases += srv.boundary_cases('tcp') + srv.boundary_cases('rtu')
    cases += srv.length_cases(r) + srv.all_fc_cases()
    cases += srv.broadcast_rejected_cases(r, 24 if ctx.quick() else 200)
    if not ctx.quick():
        cases += srv.fc_length_sweep(r)
    n = 2200 if ctx.quick() else 12000
    for _ in range(n):
        link = 'tcp' if r.random() < 0.6 else 'rtu'
        auth = srv.gen_auth(r) if r.random() < 0.1 else None
        cases.append(srv.gen_session(r, link, auth=auth, big_ok=(r.random() < 0.5)))
    return cases


def rtu_unknown_function(ctx):
    """serial: a frame with a function code the RTU parser cannot delimit is a framing error that
    ends the session (stated in C01_rtu's hypothesis); nothing may be written"""
    r = ctx.rng
    cases = []
    for fc in [0, 7, 8, 17, 43, 0x81, 0x90, 255] + [srv.gen_unknown_fc(r) for _ in range(8)]:
        if fc in srv.KNOWN_FC:
            continue
        cases.append(('rtu', (srv.simple_unit(),), None, ((None, 1, bytes([fc, 0, 0, 0, 1])),)))
    impl = srv.run_impl(ctx, cases, shards=1)
    bad = [(srv.to_line(c), i) for c, i in zip(cases, impl) if i != '-|-|BadFrame']
    ctx.oblige('rtu-unknown-function-code-is-a-framing-error-without-reply', not bad, str(bad[:2]))
    return len(cases)


def loopback_pass(ctx, cases, both):
    """thorough tier, black box: the public TCP server over real loopback sockets (listener task +
    session task) on the TCP cases without authorization; a sentinel request delimits the answer"""
    idx = [k for k, c in enumerate(cases) if c[0] == 'tcp' and c[2] is None and c[1]][:1500]
    out = ctx.harness('server_tcp', [srv.to_line(cases[k]) for k in idx], shards=8, timeout=1800)
    bad = []
    for k, o in zip(idx, out):
        rep, log, end = srv.split3(o)
        srep, slog, _ = srv.split3(both[k][1])
        if rep != [x for x in srep if x != '-'] or log != slog or end != 'open':
            bad.append(k)
    ctx.oblige('loopback-tcp:public-server-equals-reference-server', not bad, f'{len(bad)} of {len(idx)} sessions differ')
    if bad:
        c = cases[bad[0]]
        ctx.violation('server.loopback-tcp', 'public TCP server over loopback differs from the reference server: ' + srv.describe(c),
                      {'cases': [srv.case_to_json(c)], 'harness_line': srv.to_line(c), 'impl': out[idx.index(bad[0])], 'spec': both[bad[0]][1]})
    return len(idx)


def command_pass(ctx):
    """SessionTask::run with its command channel (C01_Commands.v): ChangeDecoding / Shutdown / closed
    channel between requests and while a reply write pends (gated transport), against the transition
    system of Base/ServerRun.v over the model and over the reference server"""
    r = ctx.rng
    n = 500 if ctx.quick() else 5000
    cases = [srv.gen_script(r, 'tcp' if r.random() < 0.6 else 'rtu') for _ in range(n)]
    # every class the coverage obligation below asks for is also present by construction (a random script
    # reaches "left blocked at the end" only about once in 200, which made the obligation depend on the seed)
    for k in range(12):
        link = 'tcp' if k % 2 == 0 else 'rtu'
        base = srv.gen_session(r, link, nframes=2, big_ok=False, raw=0)
        fr = [f for f in base[3] if srv.classify(f[2]).startswith('valid') and f[1] != 0]
        if not fr:
            continue
        f = fr[0]
        for script in ((f,), (f, '@shutdown'), ('@block', f), ('@block', f, '@max', '@shutdown'), ('@failwrite', f), ('@block', f, '@close')):
            cases.append((base[0], base[1], base[2], tuple(script)))
    impl, norm, both = srv.run_scripts(ctx, cases)
    bad = []
    ends = {}
    for k, (c, o, b) in enumerate(zip(cases, norm, both)):
        ends[o[2]] = ends.get(o[2], 0) + 1
        sp = srv.split3(b[1])
        mo = srv.split3(b[0]) if b[0] is not None else sp
        sp = (''.join(sp[0]), sp[1], sp[2])
        mo = (''.join(mo[0]), mo[1], mo[2])
        if (o[0], o[1], o[2]) != sp or (o[0], o[1], o[2]) != mo:
            bad.append(k)
    ctx.oblige('correspondence:session-with-commands', not bad, f'{len(bad)} of {len(cases)} scripts differ')
    if bad:
        k = bad[0]
        spk = srv.split3(both[k][1])
        nfi = (''.join(spk[0]), spk[1], spk[2]) == (norm[k][0], norm[k][1], norm[k][2])
        ctx.violation('server.commands', 'session with command events differs from the reference: ' + srv.script_line(cases[k])[:300],
                      {'harness_line': srv.script_line(cases[k]), 'impl': impl[k], 'model': both[k][0], 'spec': both[k][1]}, no_failing_input=nfi)
    cut = sum(1 for c, o in zip(cases, norm) if o[2] == 'Shutdown' and '@block' in c[3])
    ok = ends.get('Shutdown', 0) >= 10 and ends.get('open', 0) >= 10 and ends.get('blocked', 0) >= 3 and cut >= 5 and ends.get('Io', 0) >= 5
    ctx.oblige('command-scripts-reach-expected-classes', ok, f'{ends} shutdown-after-block={cut}')
    return {'command-scripts': len(cases), 'command-scripts:replies-taken-in-pieces-and-parked': sum(1 for c in cases if '@Wb' in c[3]), 'command-scripts:ended-Shutdown': ends.get('Shutdown', 0), 'command-scripts:left-blocked': ends.get('blocked', 0), 'command-scripts:ended-by-write-error': ends.get('Io', 0),
            'command-scripts:shutdown-in-a-script-with-blocked-writes': cut}


def rtu_task_pass(ctx):
    """RtuServerTask::run on a pty (real time, order only): sessions ended by hang-up / bad CRC, waits with
    decode level changes, a request sent before the wait is over (must not be answered until it is),
    failed open attempts, Shutdown / dropped handle while open and while waiting - against the loop of
    Model/RtuServerLoop.v over the model and over the reference server"""
    r = ctx.rng
    scs = [srv.gen_rtu_scenario(r) for _ in range(12 if ctx.quick() else 64)]
    impl, norm, both = srv.run_rtu_scenarios(ctx, scs)

    def flat(reps):
        # real time on a pty: a reply that arrives after its 400 ms recording window is recorded together with
        # the next one. What is compared is the byte stream of all replies (content and order), not the windows.
        return ''.join(x for x in reps if x != '-')

    def judge(norm, both):
        bad, early = [], []
        for k, (o, b) in enumerate(zip(norm, both)):
            sp = srv.split3(b[1])
            mo = srv.split3(b[0]) if b[0] is not None else sp
            if (flat(o[0]), o[1], o[2]) != (flat(sp[0]), sp[1], sp[2]) or (flat(o[0]), o[1], o[2]) != (flat(mo[0]), mo[1], mo[2]):
                bad.append(k)
            if o[3]:
                early.append(k)
        return bad, early
    bad, early = judge(norm, both)
    if bad or early:
        # a disagreement must reproduce when the scenarios are run again on their own (outcome, not scheduling)
        again = sorted(set(bad + early))
        impl2, norm2, both2 = srv.run_rtu_scenarios(ctx, [scs[k] for k in again])
        b2, e2 = judge(norm2, both2)
        for j, k in enumerate(again):
            impl[k], norm[k], both[k] = impl2[j], norm2[j], both2[j]
        bad, early = [again[j] for j in b2], [again[j] for j in e2]
    ctx.oblige('correspondence:rtu-server-task-loop', not bad, f'{len(bad)} of {len(scs)} scenarios differ')
    ctx.oblige('rtu-server-task:nothing-answered-before-the-wait-is-over', not early, f'{len(early)} scenarios')
    for k in (bad + early)[:1]:
        ctx.violation('server.rtu-task-loop', 'RTU server task loop differs from the reference: ' + srv.rtu_scenario_line(scs[k])[:300],
                      {'harness_line': srv.rtu_scenario_line(scs[k]), 'impl': impl[k], 'model': both[k][0], 'spec': both[k][1],
                       'answered-before-the-wait-was-over': bool(norm[k][3])})
    n_wait_cmds = sum(1 for sc in scs for ph in sc[3] if ph[0] != 'open' and ph[1])
    n_probe = sum(1 for sc in scs for ph in sc[3] if ph[0] == 'wait' and ph[2] is not None)
    n_done = sum(1 for o in norm if o[2] == 'done')
    if not ctx.quick():
        ctx.oblige('rtu-scenarios-reach-expected-classes', n_wait_cmds >= 5 and n_probe >= 5 and n_done >= 5, f'{n_wait_cmds} {n_probe} {n_done}')
    return {'rtu-task-scenarios': len(scs), 'rtu-task:waits-with-level-changes': n_wait_cmds, 'rtu-task:early-probes': n_probe, 'rtu-task:ended-by-shutdown': n_done}


EXC_CODES = {'IllegalFunction': 1, 'IllegalDataAddress': 2, 'IllegalDataValue': 3, 'ServerDeviceFailure': 4, 'Acknowledge': 5,
             'ServerDeviceBusy': 6, 'MemoryParityError': 8, 'GatewayPathUnavailable': 10, 'GatewayTargetDeviceFailedToRespond': 11}


def ffi_server_pass(ctx):
    """servers created through the C ABI (p5's harness `ffi_server`: rodbus_server_create_tcp with C write callbacks
    returning a configured WriteResult, a Rust client over loopback): for every write kind x every exception the
    callback can return (the nine named ones, raw codes through Unknown, success, callback not set) the reply must be the
    reference server's reply for a handler that raises that exception: [fc | 0x80, code] / the echo."""
    r = ctx.rng
    kinds = {'coil': (5, 0), 'register': (6, 1), 'coils': (15, 2), 'registers': (16, 3)}
    cases, coq = [], []
    for kind, (fc, wk) in kinds.items():
        outcomes = [('set', 0, n, 0, c) for n, c in EXC_CODES.items()]
        outcomes += [('set', 0, 'Unknown', raw, raw) for raw in (0, 7, 9, 12, 0x80, 200, 255, r.randrange(256))]
        outcomes += [('set', 1, 'Acknowledge', 0, None), ('unset', 0, 'Acknowledge', 0, 1)]
        for cfg, succ, name, raw, code in outcomes:
            start = r.randrange(0, 9)
            if kind == 'coil':
                values, pdu = '1', [5] + srv.be(start) + [0xFF, 0]
            elif kind == 'register':
                v = r.randrange(65536)
                values, pdu = str(v), [6] + srv.be(start) + srv.be(v)
            elif kind == 'coils':
                values, pdu = '1,0,1', [15] + srv.be(start) + [0, 3, 1, 5]
            else:
                values, pdu = '7,8', [16] + srv.be(start) + [0, 2, 4, 0, 7, 0, 8]
            cases.append(f'{kind} {cfg} {succ} {name} {raw} {start} {values}')
            wex = () if code is None else ((wk, start, code),)
            coq.append(('tcp', ((1, 1, 0, (), wex, (), (), (), ()),), None, ((1, 1, bytes(pdu)),)))
    impl = ctx.harness('ffi_server', cases, timeout=900)
    both = srv.run_coq(ctx, coq)
    bad = []
    for k, (c, i, b) in enumerate(zip(cases, impl, both)):
        rep = srv.split3(b[1])[0]
        y = bytes.fromhex(rep[0]) if rep else b''
        want = ('EX', y[8]) if y and y[7] & 0x80 else ('OK', None)
        m = i.split(' ')[0]
        if m == 'ffi=OK':
            got = ('OK', None)
        elif m.startswith('ffi=EX:Unknown('):
            got = ('EX', int(m[len('ffi=EX:Unknown('):-1]))
        elif m.startswith('ffi=EX:') and m[7:] in EXC_CODES:
            got = ('EX', EXC_CODES[m[7:]])
        else:
            got = ('?', m)
        if got != want:
            bad.append((k, got, want))
    ctx.oblige('c-abi-server:write-reply-is-the-reference-reply-for-the-callback-result', not bad, f'{len(bad)} of {len(cases)}: {bad[:2]}')
    for k, got, want in bad[:2]:
        fc = coq[k][3][0][2][0]
        ctx.violation(f'server.c-abi.write-reply.{cases[k].split()[0]}',
                      f'C-ABI server, `{cases[k]}`: the client receives {got}, the reference server over a handler returning that result replies {want} '
                      f'(PDU {"[%02X, %02X]" % (fc | 0x80, want[1]) if want[0] == "EX" else "echo"})',
                      {'harness_line': 'ffi_server: ' + cases[k], 'impl': impl[k], 'spec': both[k][1], 'ffi_server_cases': [cases[k]]})
    return {'c-abi-server-writes': len(cases)}


def run(ctx):
    if not srv.prepare(ctx, ['ReaderLoop.v', 'WritePath.v', 'FfiTables.v']):
        return
    if ctx.replay and 'stream_cases' in ctx.replay:
        srv.replay_streams(ctx)
        return
    if ctx.replay and 'cases' in ctx.replay:
        cases = [srv.case_from_json(c) for c in ctx.replay['cases']]
    else:
        cases = gen_cases(ctx)
    impl, both, n_spec, n_model = srv.compare(ctx, cases, 'replies', 'server', 'reply bytes')
    for link in ('tcp', 'rtu'):
        idx = [k for k, c in enumerate(cases) if c[0] == link]
        bad = [k for k in idx if srv.differs(impl[k], both[k], 'replies')]
        ctx.oblige(f'correspondence:reply-bytes:{link}', not bad, f'{len(bad)} of {len(idx)} sessions differ')
    ended = [k for k, i in enumerate(impl) if not i.endswith('|open')]
    ctx.oblige('no-session-ended-on-a-well-framed-request', not ended, f'{len(ended)} sessions ended; first: {srv.to_line(cases[ended[0]])[:300] if ended else ""}')
    extra = {}
    if not ctx.replay:
        extra['rtu-unknown-function-sessions'] = rtu_unknown_function(ctx)
        extra.update(command_pass(ctx))
        extra.update(rtu_task_pass(ctx))
        extra.update(ffi_server_pass(ctx))
        r = ctx.rng
        n = 240 if ctx.quick() else 2400
        sc = [srv.gen_stream_case(r, 'tcp' if r.random() < 0.65 else 'rtu', auth=(srv.gen_auth(r) if r.random() < 0.1 else None)) for _ in range(n)]
        res = srv.stream_pass(ctx, sc, 'replies', 'correspondence:byte-stream-delivery:reply-bytes', 'server.byte-stream')
        # a request for a unit whose handler lock is held by another thread is answered after the release, never with an error
        hc = [srv.gen_hold_case(r, False) for _ in range(12 if ctx.quick() else 60)]
        srv.stream_pass(ctx, hc, 'replies', 'request-while-the-handler-lock-is-held:reply-bytes', 'server.request-while-locked')
        big = sum(1 for _, s in sc if sum(len(x) // 2 for x in s if not x.startswith('@')) > 260)
        cmds = sum(1 for _, s in sc if any(x.startswith('@') for x in s))
        ctx.oblige('byte-stream-cases-reach-expected-classes', big >= 30 and cmds >= 30, f'{big} streams above 260 bytes, {cmds} with commands between chunks')
        extra.update({'byte-streams': n, 'byte-streams:above-260-bytes': big, 'byte-streams:commands-between-chunks': cmds})
        if not ctx.quick():
            extra['loopback-tcp-sessions'] = loopback_pass(ctx, cases, both)
    cl = srv.coverage(ctx, cases, impl,
                      'sessions (link, unit map with programmable handlers, optional authorization, 1-12 request frames) from a seeded PRNG: corpus, '
                      'all boundary quantities x 6 function codes x 2 links, all PDU lengths 0..253 on TCP, all 256 function codes, then mixed structured/malformed '
                      'sessions; non-trivial = contains at least one valid request; distinct by value', extra)
    if not ctx.replay:
        need = ['empty', 'unsupported', 'invalid:length', 'invalid:zero', 'invalid:limit', 'invalid:overflow', 'invalid:coil-value',
                'valid:fc1', 'valid:fc2', 'valid:fc3', 'valid:fc4', 'valid:fc5', 'valid:fc6', 'valid:fc15', 'valid:fc16',
                'valid:fc15:bytecount-lie', 'replies:exception', 'replies:silent', 'replies:normal', 'sessions:units=0', 'sessions:units=3', 'sessions:with-shared-handler-object']
        missing = [k for k in need if cl.get(k, 0) < 3]
        ctx.oblige('generator-reaches-expected-classes', not missing, 'missing: ' + ','.join(missing))
