"""Shared machinery of the client-task checks C10-C13.

A case is (cfg, script): cfg = dict(cap, handles, mt, rmin, rmax); script = list of step tuples
  ('S', id, kind 'r'|'u', timeout_ns, style 'f'|'c'|'x')   submit a request
  ('E', style) ('D', style) ('L', 'min'|'max', style) ('X',)  enable / disable / set decode level / shutdown
  ('H',) drop a handle   ('A',) abort the task   ('CO',) ('CE',) the pending connect succeeds / fails
  ('F', tx, k) whole reply frame, k in 'g' genuine 'e' exception 'b' wrong function
  ('P', tx, k) ('Q',) frame split in two   ('G',) rejected header  ('Z',) EOF  ('R',) read error
  ('W',) next write fails  ('V', ns) next write takes ns   ('T', ns) advance virtual time
  kind 'b' = a BIG read (125 registers, 259-byte reply)   ('FL', tx, k) whole LARGE reply frame
  ('FS', tx, a) a well-formed frame with a registers delivered in the SAME read chunk as the next FL (stale frame + reply, > 260 bytes)
  ('WP',) the transport's transmit path is full: it takes nothing until released (parks add up)  ('WR',) one park is over
  ('WA', k) the transport takes at most k bytes of what is offered next (invisible to the task)

The harness (`client`) runs the script on the real ClientLoop; the Coq model is evaluated on the
same script under the eager schedule (Model/ClientEager.v); results are compared textually after
sorting the completion log by request id.  `Sim` is a light Python replica of the eager model that
is used ONLY to steer generators (which tx id is outstanding, where the deadline is); it is never
used as an oracle.
"""
import re
import vlib

MS = 10**6
RES = 10**6          # tokio timer wheel resolution (1 ms), in ns
REQUIRES = ['Base.Show', 'Model.ClientTask', 'Model.ClientEager']
REPLY = {'g': 'RpGenuine', 'e': 'RpException', 'b': 'RpBad'}
STYLE = {'f': 'SFuture', 'c': 'SCallback', 'x': 'SFfi'}


# ------------------------------------------------------------------------------- rendering
def step_token(s):
    if s[0] == '~':
        return '~' + step_token(s[1:])
    return ':'.join(str(x) for x in s)


def plain(script):
    """the script without the no-settle markers"""
    return [s[1:] if s[0] == '~' else s for s in script]


def to_line(case):
    cfg, script = case
    return (f'cap={cfg["cap"]} handles={cfg["handles"]} mt={cfg["mt"]} rmin={cfg["rmin"]} rmax={cfg["rmax"]}'
            + (' rtu=1' if cfg.get('rtu') else '') + (f' tx0={cfg["tx0"]}' if cfg.get('tx0') else '') + ' | '
            + ' '.join(step_token(s) for s in script))


def step_coq(s):
    t = s[0]
    if t == 'S':
        kind = 'KUnformattable' if s[2] == 'u' else 'KRead'
        return f'EvSubmit (CReq {{| rq_id := {s[1]}; rq_kind := {kind}; rq_timeout := {s[3]} |}}) {STYLE[s[4]]}'
    if t == 'E':
        return f'EvSubmit CEnable {STYLE[s[1]]}'
    if t == 'D':
        return f'EvSubmit CDisable {STYLE[s[1]]}'
    if t == 'L':
        return f'EvSubmit (CDecode {1 if s[1] == "max" else 0}) {STYLE[s[2]]}'
    if t == 'X':
        return 'EvSubmit CShutdown SFuture'
    if t == 'H':
        return 'EvDropHandle'
    if t == 'A':
        return 'EvAbort'
    if t == 'CO':
        return 'EvConnect true'
    if t == 'CE':
        return 'EvConnect false'
    if t in ('F', 'FL'):
        return f'EvFrame {s[1]} {REPLY[s[2]]}'
    if t == 'FS':
        return f'EvFrame {s[1]} RpGenuine'
    if t == 'P':
        return f'EvHead {s[1]} {REPLY[s[2]]}'
    if t == 'WA':
        return f'EvWritePartial {s[1]}'
    return {'Q': 'EvTail', 'G': 'EvGarbage', 'Z': 'EvEof', 'R': 'EvIoErr', 'W': 'EvFailWrite', 'WP': 'EvWritePark', 'WR': 'EvWriteRelease'}.get(t) or \
        (f'EvWriteDelay {s[1]}' if t == 'V' else f'EvTick {s[1]}' if t == 'T' else _bad(s))


def _bad(s):
    raise ValueError(f'bad step {s}')


def to_coq(case):
    cfg, script = case
    script = plain(script)
    mt = f'Some {cfg["mt"]}' if cfg['mt'] else 'None'
    return (f'{{| k_cap := {cfg["cap"]}; k_handles := {cfg["handles"]}; k_max_timeouts := {mt}; k_rmin := {cfg["rmin"]}; '
            f'k_rmax := {cfg["rmax"]}; k_res := {RES}; k_rtu := {"true" if cfg.get("rtu") else "false"}; k_tx0 := {cfg.get("tx0", 0)}; k_script := [{"; ".join(step_coq(s) for s in script)}] |}}')


def canon(line):
    """sort the completion log by request id (future-style completions are observed by another task)"""
    if line.count('|') != 2:
        return line
    task, comp, fin = line.split('|')
    cs = sorted(comp.split(), key=lambda c: (int(c[1:c.index(':')]), c))
    return task.strip() + '|' + ' '.join(cs) + '|' + fin.strip()


def parse(line):
    """-> dict(task=[...], comp=[(id, class, t)], done=bool) or None"""
    if line.count('|') != 2:
        return None
    task, comp, fin = line.split('|')
    cs = []
    cstep = {}
    for c in comp.split():
        i, rest = c[1:].split(':', 1)
        cl, t = rest.split('@')
        t, _, k = t.partition('#')
        cs.append((int(i), cl, int(t)))
        cstep.setdefault(int(i), int(k) if k else -1)
    return {'task': task.split(), 'comp': cs, 'cstep': cstep, 'done': fin.strip().startswith('done')}


MODEL_OK = True      # set to False by a check when the model does not compile (e.g. a Gen table could not be regenerated):
                     # the implementation is then judged against the Spec predicates alone


def run_both(ctx, cases, shards=8, per_shard=150):
    impl = ctx.harness('client', [to_line(c) for c in cases], shards=shards)
    if not MODEL_OK:
        return [canon(i) for i in impl], [canon(i) for i in impl]
    model = ctx.coq_eval(REQUIRES, 'eval_case', [to_coq(c) for c in cases], case_type='case', per_shard=per_shard)
    # RTU frames carry no transaction id: the model's (internal) stamp is not on the wire
    model = [re.sub(r'(^| )([wx])\d+:', r'\1\2-:', m) if c[0].get('rtu') else m for c, m in zip(cases, model)]
    return [canon(i) for i in impl], [canon(m) for m in model]


def prepare(ctx, extra_models=()):
    """translate, build models, prove, build harness; returns False when nothing can be run"""
    global MODEL_OK
    ctx.translate(['SessionErrors.v'])
    MODEL_OK = ctx.build_models(REQUIRES + list(extra_models))
    ctx.prove()
    if ctx.tier == 'thorough':
        ctx.coqchk()
    if not ctx.build_harness():
        return False
    if not MODEL_OK:
        ctx.log('model unavailable: judging the implementation against the Spec predicates only')
    return True


# ------------------------------------------------------------------------------- Spec predicates on a log
def fires_at(d):
    return (d + RES - 1) // RES * RES


def edge(a, b):
    ka, kb = a[:2], b[:2]
    if ka == 'lS':
        return False
    if kb == 'lS':
        return True
    return (ka, kb) in {('lD', 'lC'), ('lC', 'lN'), ('lC', 'lF'), ('lC', 'lD'), ('lN', 'lW'), ('lN', 'lD'),
                        ('lF', 'lC'), ('lF', 'lD'), ('lW', 'lC'), ('lW', 'lD')}


def spec_failures(case, line):
    """the property statements read on ONE log (implementation or model); returns a list of failed clause names"""
    cfg, script = case
    # large frames are frames: FL = a whole reply of 259 bytes, FS = a well-formed (stale) frame in the same read chunk
    script = [('F', s[1], s[2]) if s[0] == 'FL' else ('F', s[1], 'g') if s[0] == 'FS' else s for s in plain(script)]
    p = parse(line)
    if p is None:
        return ['panic-or-garbled-output']
    bad = []
    if any(c[1] == 'WrongData' for c in p['comp']):
        bad.append('C10.reply-data-differs-from-the-frame-that-arrived')
    submitted = [s[1] for s in script if s[0] == 'S']
    kinds = {s[1]: s for s in script if s[0] == 'S'}
    ids = [c[0] for c in p['comp']]
    # C10: at most once; all accounted for when the task is gone
    if len(ids) != len(set(ids)):
        bad.append('C10.completed-twice')
    if any(i not in kinds for i in ids):
        bad.append('C10.completion-of-unknown-request')
    live = cfg['handles']
    expected = []
    for st in script:
        if st[0] == 'H':
            live = max(0, live - 1)
        elif st[0] == 'S' and live > 0:
            expected.append(st[1])
    if p['done'] and any(i not in ids for i in expected):
        bad.append('C10.request-lost')
    # C13: the listener trace is a legal path
    ls = [t for t in p['task'] if t[0] == 'l']
    if not ls or ls[0] != 'lD' or any(not edge(a, b) for a, b in zip(ls, ls[1:])):
        bad.append('C13.illegal-listener-path')
    if 'lS' in ls[:-1]:
        bad.append('C13.shutdown-not-last')
    # the task only ends by telling the listener Shutdown (an aborted task is killed: it tells nobody)
    if p['done'] and 'lS' not in ls and not any(s[0] == 'A' for s in script):
        bad.append('C13.task-ended-without-a-Shutdown-notification')
    # C13: no dial unless enabled: every 'd' directly follows 'lC'
    for a, b in zip(p['task'], p['task'][1:]):
        if b == 'd' and a[:2] != 'lC':
            bad.append('C13.dial-without-connecting')
    # C11: tx ids on the wire advance, consecutive ones differ; wire order = submission order
    rtu = bool(cfg.get('rtu'))
    wires = [t for t in p['task'] if t[0] in 'wx']
    txs = [] if rtu else [int(t[1:t.index(':')]) for t in wires]
    wids = [int(t[t.index(':') + 1:].split('@')[0]) for t in wires]
    if any(a == b for a, b in zip(txs, txs[1:])):
        bad.append('C11.consecutive-requests-share-a-tx-id')
    fmt_failed = {c[0] for c in p['comp'] if c[1] in ('BadRequest', 'Internal')}
    # ... or taken and never fully written: the transmission was not done when its bound passed (Io without a wire entry)
    fmt_failed |= {c[0] for c in p['comp'] if c[1] == 'Io' and c[0] not in set(wids)}
    taken = [i for i in submitted if i in set(wids) or i in fmt_failed]
    if len(set(submitted)) == len(submitted) and not rtu:
        for k, i in enumerate(taken):
            for t, w in zip(txs, wids):
                if w == i and t != (cfg.get('tx0', 0) + k) % 65536:
                    bad.append('C11.tx-id-is-not-the-count-of-requests-taken')
    it = iter(submitted)
    if not all(any(w == s for s in it) for w in wids):
        bad.append('C11.wire-order-differs-from-submission-order')
    # C11/C12: what completes a request
    wire_of = {}
    wire_step = {}
    for t in wires:
        if t[0] == 'w':
            tx = -1 if rtu else int(t[1:t.index(':')])
            i, at = t[t.index(':') + 1:].split('@')
            at, _, k = at.partition('#')
            wire_of[int(i)] = (tx, int(at))
            wire_step[int(i)] = int(k) if k else -1
    # time line of the script
    now = 0
    frames = []          # (time, tx, kind) of completed frames
    part = None
    ticks = [0]
    for s in script:
        if s[0] == 'T':
            now += s[1]
            ticks.append(now)
        elif s[0] == 'F':
            frames.append((now, s[1], s[2]))
        elif s[0] == 'P':
            part = (s[1], s[2])
        elif s[0] == 'Q' and part:
            frames.append((now, part[0], part[1]))
            part = None
    cls_of = {'g': 'Ok', 'e': 'Exception', 'b': 'BadResponse'}
    for i, cl, t in p['comp']:
        if cl in ('Ok', 'Exception', 'BadResponse'):
            if i not in wire_of:
                bad.append('C11.reply-result-for-a-request-never-transmitted')
                continue
            tx, at = wire_of[i]
            if not any(ft == t and (rtu or ftx == tx) and cls_of[k] == cl for ft, ftx, k in frames):
                bad.append('C11.result-not-from-a-matching-frame')
            if t >= fires_at(at + kinds[i][3]):
                bad.append('C12.reply-accepted-at-or-after-the-deadline')
        if cl == 'Timeout':
            if i not in wire_of:
                bad.append('C12.timeout-for-a-request-never-transmitted')
                continue
            tx, at = wire_of[i]
            due = fires_at(at + kinds[i][3])
            first = min([x for x in ticks if x >= due], default=None)
            if t != first:
                bad.append('C12.timeout-not-at-the-deadline')
        if cl == 'NoConnection' and i in wire_of:
            bad.append('C13.no-connection-for-a-transmitted-request')
    # C13: fail fast. Connected intervals [lN@t, e..@t] are read off the log; a request submitted strictly outside all of
    # them (boundaries excluded: same-instant order is not an observable) completes at once with NoConnection (Shutdown if the task is gone)
    intervals = []
    for t in p['task']:
        if t.startswith('lN@'):
            intervals.append([int(t[3:]), None])
        elif t[0] == 'e' and '@' in t and intervals and intervals[-1][1] is None:
            intervals[-1][1] = int(t.split('@')[1])
    comp_of = {c[0]: c for c in p['comp']}
    now = 0
    live = cfg['handles']
    aborted = False
    for st in script:
        if st[0] == 'T':
            now += st[1]
        elif st[0] == 'H':
            live = max(0, live - 1)
        elif st[0] == 'S' and live > 0 and len(set(submitted)) == len(submitted):
            if not any(a <= now and (b is None or now <= b) for a, b in intervals):
                c = comp_of.get(st[1])
                if c is None or c[2] != now or c[1] not in ('NoConnection', 'Shutdown'):
                    bad.append('C13.request-not-failed-at-once-while-not-connected')
    # C05 / C12 "a timed-out request leaves the connection usable": the script language can only deliver garbage through a
    # G step; without one EVERY byte delivered on a connection is part of a well-formed frame (F, or P followed by Q), so
    # the reader must never report a framing error - whatever deadlines passed in between
    if not any(st[0] == 'G' for st in script):
        if any(t.startswith('eBadFrame') for t in p['task']) or any(c[1] == 'BadFrame' for c in p['comp']):
            bad.append('C12.framing-error-although-every-byte-belongs-to-a-well-formed-frame')
    # C11 / C12: a request answered in time by a complete frame with its transaction id completes with that frame's result.
    # Wire and completion entries carry the index of the script step during which they happened, so "the frame was
    # delivered after the request was written and before it completed" is read off the log, not guessed from equal instants.
    now = 0
    part = None
    answered = set()
    # while a write is in progress the script's inbound steps are not delivered (harness and model alike: the task does not
    # read then); the log does not say when a slow / parked write began, so with such steps in the script a split frame makes
    # the rest of that connection unjudgeable here
    has_slow = any(st[0] in ('WP', 'V') for st in script)
    blind = False
    for j, st in enumerate(script):
        if st[0] == 'T':
            now += st[1]
            continue
        if st[0] == 'CO':
            blind = False
        if has_slow and st[0] in ('P', 'Q'):
            blind = True
        if blind:
            continue
        fr = None
        if st[0] == 'P':
            part = (st[1], st[2]) if part is None else 'unknown'
        elif st[0] == 'Q':
            if isinstance(part, tuple):
                fr = part
            part = None
        elif st[0] == 'F' and part is None:
            fr = (st[1], st[2])
        elif st[0] == 'CO':
            part = None if part is None else 'unknown'       # the partial frame may or may not have died with its connection
        if fr is None or len(set(submitted)) != len(submitted):
            continue
        for i, (tx, at) in wire_of.items():
            if (tx != fr[0] and not rtu) or i in answered or wire_step.get(i, -1) < 0:
                continue
            if not (wire_step[i] < j and now < fires_at(at + kinds[i][3])):
                continue                                          # not yet written / already past its timer instant
            cs = p['cstep'].get(i)
            if cs is not None and 0 <= cs < j:
                continue                                          # completed by an earlier step
            if not any(a <= at and (b is None or now <= b) for a, b in intervals):
                continue                                          # not (certainly) the same connection
            answered.add(i)
            c = comp_of.get(i)
            if c is None or c[1] != cls_of[fr[1]] or c[2] != now or cs != j:
                bad.append('C11.request-answered-in-time-does-not-complete-with-its-reply')
                if c is not None and c[1] != cls_of[fr[1]]:
                    bad.append('C10.error-class-does-not-tell-what-happened')        # e.g. a valid reply in time => Ok
                if fr[1] == 'g':
                    bad.append('C12.reply-completed-before-the-deadline-but-the-request-did-not-succeed')
    # C13 / C14: a wait state is left exactly when the announced delay is over - at the first instant of the script at or after
    # wait_start + delay (timer resolution) - whatever commands are handled in between; it is left earlier only by a disable
    # or by the end of the task
    all_ticks = [0]
    tnow = 0
    for st in script:
        if st[0] == 'T':
            tnow += st[1]
            all_ticks.append(tnow)
    lts = [t for t in p['task'] if t[0] == 'l']
    for k, t in enumerate(lts):
        if t[:2] in ('lF', 'lW') and '@' in t:
            d, t0 = t[2:].split('@')
            due = fires_at(int(t0) + int(d))
            first = min([x for x in all_ticks if x >= due], default=None)
            nxt = lts[k + 1] if k + 1 < len(lts) else None
            if nxt is None:
                if first is not None and not p['done']:
                    bad.append('C13.wait-state-not-left-when-the-announced-delay-is-over')
            elif nxt[:2] == 'lC':
                if '@' in nxt and int(nxt.split('@')[1]) != first:
                    bad.append('C13.reconnect-attempt-not-at-wait-start-plus-the-announced-delay')
    # C10 "none left pending forever" / C13 "shutdown ends the task", on a finite log: the task works its queue in order and
    # every request it takes is over after at most two of its timeouts - the transmission is bounded by the timeout, then
    # the reply is - each elapsing at the first instant of the script at or after its timer instant.  `bound` is the
    # latest instant by which everything submitted so far is over, whatever the transport and the peer do (None: the
    # script does not go on long enough to tell).
    def next_tick(x):
        return min([t for t in all_ticks if t >= x], default=None)

    tnow = 0
    live = cfg['handles']
    bound = 0
    pend = []
    last_setting = None        # (wanted enabled?, surely accepted and processed by the end of the script?)
    for st in script:
        if st[0] == 'T':
            tnow += st[1]
        elif st[0] == 'H':
            live = max(0, live - 1)
        elif st[0] == 'S' and live > 0 and bound is not None:
            bound = max(bound, tnow)
            for _ in range(2):
                bound = next_tick(bound + st[3] + RES) if bound is not None else None
            if bound is not None and not p['done'] and st[1] not in ids and len(set(submitted)) == len(submitted):
                pend.append('C10.request-still-pending-although-every-deadline-has-passed')
        elif st[0] in ('E', 'D') and live > 0:
            # awaited sends are always accepted; a try_send (FFI) certainly is when nothing submitted earlier is still pending
            sure = bound is not None and (st[1] != 'x' or bound <= tnow)
            last_setting = (st[0] == 'E', sure)
        elif st[0] == 'X' and live > 0 and bound is not None:
            if not p['done'] and next_tick(max(bound, tnow) + 1) is not None:
                pend.append('C13.shutdown-not-processed-although-every-earlier-request-is-over')
    bad += pend
    # C13 "Disabled after a disable" / an enable really enables: the LAST enable / disable of the script, once it is certainly
    # accepted and the task has had the time to take it, decides what the listener heard last
    if last_setting and last_setting[1] and not p['done'] and not any(s[0] in ('~', 'A', 'H', 'X') for s in case[1]) and ls:
        if last_setting[0] and ls[-1] == 'lD':
            bad.append('C13.enable-accepted-but-the-channel-stays-disabled')
        if not last_setting[0] and ls[-1] != 'lD':
            bad.append('C13.disable-accepted-but-Disabled-is-never-reported')
    # C10: Shutdown is only reported when the task is gone, or when the submitting try_send itself was rejected
    if not p['done']:
        for i, c, t in p['comp']:
            if c == 'Shutdown' and kinds.get(i, (0, 0, 0, 0, 'x'))[4] != 'x':
                bad.append('C10.shutdown-reported-while-the-task-is-alive')
    # C12: consecutive-timeout limit, per connection
    for outs, end in session_outcomes(case, line):
        run = 0
        hit = False
        for k, o in enumerate(outs):
            if o is None:
                break
            run = run + 1 if o == 't' else 0
            if cfg['mt'] and run >= cfg['mt']:
                hit = True
                if k != len(outs) - 1 or end != 'MaxTimeouts':
                    bad.append('C12.connection-not-dropped-after-N-timeouts')
                break
        if end == 'MaxTimeouts' and not hit:
            bad.append('C12.connection-dropped-without-N-consecutive-timeouts')
    return sorted(set(bad))


def session_outcomes(case, line):
    """per connection of one log: ([outcome letters in the order the requests were taken], end reason or None);
    t timeout, s success, e exception, b bad reply, o a request rejected locally (cannot be formatted), None = not finished"""
    cfg, script = case
    script = plain(script)
    p = parse(line)
    if p is None:
        return []
    comp = {c[0]: c[1] for c in p['comp']}
    letter = {'Timeout': 't', 'Ok': 's', 'Exception': 'e', 'BadResponse': 'b'}
    sessions = []
    cur = None
    sess_of = {}
    for t in p['task']:
        if t.startswith('lN'):
            cur = {'ids': [], 'end': None}
            sessions.append(cur)
        elif t[0] == 'w' and cur is not None:
            i = int(t[t.index(':') + 1:].split('@')[0])
            cur['ids'].append(i)
            sess_of[i] = len(sessions) - 1
        elif t[0] == 'e' and cur is not None:
            cur['end'] = t[1:].split('@')[0]
            cur = None
    submitted = [s[1] for s in script if s[0] == 'S']
    fmt_failed = {i for i, c in comp.items() if c in ('BadRequest', 'Internal')}
    taken = [i for i in submitted if i in sess_of or i in fmt_failed]
    after = {}            # wire id -> number of locally rejected requests taken right after it on the same connection
    for k, i in enumerate(taken):
        if i in fmt_failed and i not in sess_of:
            prev = next((x for x in reversed(taken[:k]) if x in sess_of), None)
            nxt = next((x for x in taken[k + 1:] if x in sess_of), None)
            if prev is not None and nxt is not None and sess_of[prev] == sess_of[nxt]:
                after[prev] = after.get(prev, 0) + 1
    res = []
    for s in sessions:
        outs = []
        for i in s['ids']:
            outs.append(letter.get(comp.get(i)))
            outs += ['o'] * after.get(i, 0)
        res.append((outs, s['end']))
    return res


# ------------------------------------------------------------------------------- generation guide
class Sim:
    """eager replica of Model/ClientTask.v, for steering generators only"""

    def __init__(self, cfg, serial=False):
        self.cfg = cfg
        self.serial = serial          # serial channel: the port is opened synchronously, no Connecting notification
        self.open_ok = False
        self.ph = 'WaitEnabled'
        self.q = []
        self.blocked = []
        self.handles = cfg['handles']
        self.enabled = False
        self.txid = cfg.get('tx0', 0)
        self.now = 0
        self.tc = 0
        self.rcur = cfg['rmin']
        self.partial = None
        self.wfail = False
        self.wdelay = 0
        self.wpark = 0        # parks of the transmit path not yet released
        self.wdl = 0          # while writing: write start + request timeout
        self.req = None       # (id, timeout, tx, deadline / until)
        self.req_big = False  # the outstanding request is a big read: its genuine reply is an FL frame
        self.until = 0
        self.nl = 1           # listener notifications so far (the initial Disabled)
        self.nc = 0           # completions so far

    def connected(self):
        return self.ph in ('Idle', 'Writing', 'InFlight')

    def listens(self):
        return self.ph in ('WaitEnabled', 'Connecting', 'Idle', 'Waiting')

    def _drop(self, listener=True):
        if listener:
            self.nl += 1
        elif self.ph in ('Writing', 'InFlight'):
            self.nc += 1
        self.nc += len([c for c in self.q + self.blocked if c[0] == 'S'])
        self.ph = 'Done'
        self.q = []
        self.blocked = []

    def _loop_top(self):
        self.nl += 1
        self.ph = 'Connecting' if self.enabled else 'WaitEnabled'

    def _end(self, e):
        if e == 'Shutdown':
            self._drop()
        elif e == 'Disabled':
            self._loop_top()
        else:
            self.nl += 1
            self.ph = 'Waiting'
            self.until = self.now + self.cfg['rmin']

    def _finish(self, cl):
        self.nc += 1
        self.ph = 'Idle'
        if cl in ('Io', 'BadFrame'):
            self._end(cl)
        elif cl == 'Timeout':
            self.tc += 1
            if self.cfg['mt'] and self.tc >= self.cfg['mt']:
                self._end('MaxTimeouts')
            else:
                self.ph = 'Idle'
        else:
            self.tc = 0
            self.ph = 'Idle'

    def _take(self, c):
        if self.ph == 'Idle':
            if c[0] == 'S':
                tx = self.txid
                self.txid = (self.txid + 1) % 65536
                if c[2] == 'u':
                    self._finish('BadRequest')
                elif self.wfail:
                    self.wfail, self.wdelay = False, 0
                    self._finish('Io')
                elif self.wdelay or self.wpark:
                    self.ph = 'Writing'
                    self.req = (c[1], c[3], tx)
                    self.until = self.now + self.wdelay if self.wdelay else 0
                    self.wdl = self.now + c[3]
                    self.wdelay = 0
                else:
                    self.ph = 'InFlight'
                    self.req = (c[1], c[3], tx)
                    self.until = self.now + c[3]
                self.req_big = c[2] == 'b'
            elif c[0] == 'X':
                self._end('Shutdown')
            else:
                self._setting(c)
                if not self.enabled:
                    self._end('Disabled')
        else:
            if c[0] == 'S':
                self.nc += 1
            elif c[0] == 'X':
                self._drop()
            else:
                self._setting(c)
                if self.ph == 'WaitEnabled':
                    if self.enabled:
                        self.nl += 1
                        self.ph = 'Connecting'
                elif not self.enabled:
                    self._loop_top()

    def _setting(self, c):
        if c[0] == 'E':
            self.enabled = True
        elif c[0] == 'D':
            self.enabled = False

    def _connect_result(self, ok):
        self.nl += 1
        if ok:
            self.ph = 'Idle'
            self.tc = 0
            self.partial = None
        else:
            self.ph = 'Waiting'
            self.until = self.now + self.rcur
            self.rcur = min(2 * self.rcur, self.cfg['rmax'])

    def _saturate(self):
        for _ in range(200):
            if self.serial and self.ph == 'Connecting':
                self.nl -= 1                      # no Connecting notification on a serial channel
                if self.open_ok:
                    self.rcur = self.cfg['rmin']
                self._connect_result(self.open_ok)
            elif self.ph == 'Writing' and self.wpark == 0 and fires_at(self.until) <= self.now:
                self.ph = 'InFlight'
                self.until = self.now + self.req[1]
            elif self.ph == 'Writing' and fires_at(self.wdl) <= self.now:
                self._finish('Io')
            elif self.ph in ('InFlight', 'Waiting') and fires_at(self.until) <= self.now:
                if self.ph == 'InFlight':
                    self._finish('Timeout')
                else:
                    self._loop_top()
            elif self.listens() and (self.q or (self.handles == 0 and not self.blocked)):
                if self.q:
                    c = self.q.pop(0)
                    if self.blocked:
                        self.q.append(self.blocked.pop(0))
                    self._take(c)
                else:
                    self._drop()
            else:
                return

    def apply(self, s):
        t = s[0]
        if t == 'T':
            self.now += s[1]
        elif t == 'O':
            self.open_ok = bool(s[1])
        elif t == 'W':
            self.wfail = True
        elif t == 'V':
            self.wdelay = s[1]
        elif t == 'WP':
            self.wpark += 1
        elif t == 'WR':
            if self.wpark:
                self.wpark -= 1
        elif t in ('S', 'E', 'D', 'L', 'X'):
            if self.ph != 'Done' and self.handles > 0:
                if not self.blocked and len(self.q) < self.cfg['cap']:
                    self.q.append(s)
                elif s[-1] != 'x' or t == 'X':
                    self.blocked.append(s)
                elif t == 'S':
                    self.nc += 1
            elif self.handles > 0 and t == 'S':
                self.nc += 1
        elif t == 'H':
            self.handles = max(0, self.handles - 1)
        elif t == 'A':
            if self.ph != 'Done':
                self._drop(listener=False)
        elif t in ('CO', 'CE'):
            if self.ph == 'Connecting':
                if t == 'CO':
                    self.rcur = self.cfg['rmin']
                self._connect_result(t == 'CO')
        elif t in ('FL', 'FS'):
            self.apply(('F', s[1], s[2] if t == 'FL' else 'g'))
            return
        elif t in ('F', 'P', 'Q', 'G', 'Z', 'R') and self.ph in ('Idle', 'InFlight'):
            if t in ('Z', 'R'):
                if self.ph == 'InFlight':
                    self._finish('Io')
                else:
                    self._end('Io')
            elif t == 'P':
                if self.partial is None:
                    self.partial = (s[1], s[2])
            elif t == 'Q':
                if self.partial is not None:
                    tx, k = self.partial
                    self.partial = None
                    self._frame(tx, k)
            elif self.partial is None:
                if t == 'G':
                    if self.ph == 'InFlight':
                        self._finish('BadFrame')
                    else:
                        self._end('BadFrame')
                else:
                    self._frame(s[1], s[2])
        self._saturate()

    def _frame(self, tx, k):
        if self.ph == 'InFlight' and tx == self.req[2]:
            self._finish({'g': 'Ok', 'e': 'Exception', 'b': 'BadResponse'}[k])

    def out_tx(self):
        return self.req[2] if self.ph in ('InFlight', 'Writing') else None


# ------------------------------------------------------------------------------- shrinking and reporting
def shrink_candidates(case):
    cfg, script = case
    if any(s[0] == 'FS' for s in plain(script)):
        # a stale frame (FS) is built for a transaction id that is NOT outstanding when it is delivered with the next FL:
        # only changes that keep this true are tried - drop a stale frame, drop what follows the last large frame
        last = max(k for k, s in enumerate(script) if plain([s])[0][0] in ('FS', 'FL'))
        for k in range(len(script)):
            if k > last or plain([script[k]])[0][0] == 'FS':
                yield (cfg, script[:k] + script[k + 1:])
        return
    for k in range(len(script)):
        yield (cfg, script[:k] + script[k + 1:])
    for k, s in enumerate(script):
        if s[0] == 'S' and s[4] != 'f':
            yield (cfg, script[:k] + [s[:4] + ('f',)] + script[k + 1:])
        if s[0] == 'T' and s[1] > MS and s[1] % MS:
            yield (cfg, script[:k] + [('T', s[1] // MS * MS)] + script[k + 1:])
    if cfg['handles'] > 1:
        yield (dict(cfg, handles=1), script)
    if cfg['mt']:
        yield (dict(cfg, mt=0), script)


def judge(ctx, prop, cases, impl, model, clause_prefixes=None):
    """compare; report the first mismatch of each kind (shrunk).  Returns (n_mismatch, n_spec_fail)."""
    n_mis = n_spec = 0
    reported = set()
    for c, i, m in zip(cases, impl, model):
        fails = spec_failures(c, i)
        fails = [f for f in fails if f.startswith(prop + '.')] + [f for f in fails if not f.startswith(prop + '.')]    # the property's own clauses first
        if i == m and not fails:
            continue
        if fails:
            n_spec += 1
        if i != m:
            n_mis += 1
        kind = 'spec:' + fails[0] if fails else 'model-differs-from-impl'
        if kind in reported:
            continue
        reported.add(kind)

        def still(xs, want=(fails[0] if fails else None)):
            ii, mm = run_both(ctx, xs, shards=1)
            return [((want in spec_failures(x, a)) if want else (a != b)) for x, a, b in zip(xs, ii, mm)]      # the SAME clause still fails
        small = vlib.shrink_batch(c, still, shrink_candidates)
        si, sm = run_both(ctx, [small], shards=1)
        if not MODEL_OK:
            sm = ['(model unavailable: a Gen table could not be regenerated from the source)']
        sf = spec_failures(small, si[0])
        if fails and fails[0] in sf:
            sf = [fails[0]] + [x for x in sf if x != fails[0]]
        key = (sf[0] if sf else 'model-differs-from-impl')
        what = (f'script {to_line(small)}: ' + (f'the implementation log violates {", ".join(sf)}' if sf else
                'the implementation log differs from the proved model (no clause of the property is violated by this log)')
                + f'; impl={si[0]} model={sm[0]}')
        ctx.violation(key, what, {'cases': [case_json(small)], 'impl': si[0], 'model': sm[0], 'failed_clauses': sf,
                                  'original_case': case_json(c)}, no_failing_input=not sf)
    return n_mis, n_spec


def tie_variants(case):
    """the two sequential orders of a script with one no-settle step (both are behaviours of the model)"""
    cfg, script = case
    k = next(i for i, s in enumerate(script) if s[0] == '~')
    a = plain(script)
    b = a[:k] + [a[k + 1], a[k]] + a[k + 2:]
    return (cfg, a), (cfg, b)


def case_json(case):
    cfg, script = case
    return {'cfg': cfg, 'script': [list(s) for s in script]}


def case_from_json(j):
    return (j['cfg'], [tuple(s) for s in j['script']])


def classify(case, line):
    """input / outcome classes reached by one case (for the measured distribution)"""
    cfg, script = case
    p = parse(line)
    cl = set()
    if p is None:
        return {'panic'}
    for c in p['comp']:
        cl.add('result:' + c[1])
    for t in p['task']:
        if t[0] == 'e':
            cl.add('end:' + t[1:].split('@')[0])
        if t[0] == 'l':
            cl.add('listener:' + t[:2])
        if t[0] == 'x':
            cl.add('write-failed')
    if any(s[0] == '~' for s in script):
        cl.add('select-tie')
    for s in plain(script):
        cl.add('step:' + s[0])
        if s[0] == 'S':
            cl.add('style:' + s[4])
    if p['done']:
        cl.add('task-done')
    if cfg.get('rtu'):
        cl.add('framing:rtu')
    return cl


def default_cfg(r, **kw):
    cfg = {'cap': r.choice([1, 2, 3, 4, 16]), 'handles': r.choice([1, 1, 2]), 'mt': r.choice([0, 0, 1, 2, 3]),
           'rmin': 20 * MS, 'rmax': 40 * MS}
    cfg.update(kw)
    return cfg


# ------------------------------------------------------------------------------- generators
TIMEOUTS = [1 * MS, 2 * MS, 5 * MS, 10 * MS, 1000 * MS, 1 * MS + 1, 2 * MS - 1, 1500000, 7]


def _tick_choices(sim, r):
    out = [1, MS, 3 * MS, 10 * MS, 20 * MS, 1000 * MS, MS - 1, 999999, 500000]
    if sim.ph in ('InFlight', 'Writing', 'Waiting'):
        left = sim.until - sim.now
        due = fires_at(sim.until) - sim.now
        for v in (left - 1, left, left + 1, due - 1, due, due + 1, left - MS, left // 2):
            if v > 0:
                out += [v, v]
    if sim.ph == 'Writing':
        left = sim.wdl - sim.now
        due = fires_at(sim.wdl) - sim.now
        for v in (left - 1, left, left + 1, due - 1, due, due + 1, left // 2):
            if v > 0:
                out += [v, v]
    return out


def gen_random(r, cfg, nsteps, weights=None, alphabet=None, prefix=()):
    """random script steered by the replica: frames mostly hit the outstanding tx id, ticks mostly land around deadlines"""
    w = {'S': 5, 'T': 4, 'E': 2, 'D': 1.2, 'L': 0.4, 'H': 0.3, 'A': 0.15, 'X': 0.35, 'W': 0.4, 'V': 0.3,
         'CO': 5, 'CE': 2, 'F': 4, 'P': 1, 'Q': 4, 'G': 0.4, 'Z': 0.5, 'R': 0.4, 'WP': 0.35, 'WA': 0.15, 'WR': 0.2}
    if weights:
        w.update(weights)
    sim = Sim(cfg)
    script = list(prefix)
    for st in script:
        sim.apply(st)
    next_id = 1 + max([st[1] for st in script if st[0] == 'S'], default=-1)
    for _ in range(nsteps):
        opts = ['S', 'T', 'E', 'D', 'L', 'H', 'A', 'X', 'W', 'V', 'WA']
        if sim.wpark < 2:
            opts.append('WP')
        if sim.wpark:
            opts += ['WR', 'WR', 'WR']
        if sim.ph == 'Connecting':
            opts += ['CO', 'CE']
        if sim.ph in ('Idle', 'InFlight'):
            # no small frame is left half delivered while a big read waits in the queue: once that read is in flight the
            # rest of the small frame would answer it, and a small reply to a big read is not a genuine one
            big_queued = any(isinstance(c, tuple) and len(c) > 2 and c[0] == 'S' and c[2] == 'b' for c in list(sim.q) + list(sim.blocked))
            opts += ['F', 'G', 'Z', 'R'] + (['Q'] if sim.partial else ([] if big_queued else ['P']))
        if sim.ph == 'WaitEnabled' and not sim.enabled:
            opts += ['E', 'E']
        if alphabet:
            opts = [o for o in opts if o in alphabet]
        if not opts:
            break
        t = r.choices(opts, weights=[w[o] for o in opts])[0]
        if t == 'S':
            style = r.choices('fcx', weights=[5, 2, 2])[0]
            # a big read only when no small frame is half delivered (its rest would then answer the big request)
            kind = 'u' if r.random() < 0.08 else 'b' if (not cfg.get('rtu') and sim.partial is None and r.random() < 0.12) else 'r'
            s = ('S', next_id, kind, r.choice(TIMEOUTS), style)
            next_id += 1
        elif t in ('E', 'D'):
            s = (t, r.choices('fx', weights=[4, 1])[0])
        elif t == 'L':
            s = ('L', r.choice(['min', 'max']), r.choices('fx', weights=[4, 1])[0])
        elif t in ('F', 'P'):
            cur = sim.out_tx()
            if cur is None:
                tx = (sim.txid + r.choice([0, 0, -1, 1, -2, 5])) % 65536
            else:
                tx = (cur + r.choice([0, 0, 0, 0, 0, -1, -1, 1, -2, 2, -3, 7, 65535, 32768])) % 65536
            s = (t, tx, r.choices('geb', weights=[5, 2, 2])[0])
            if cur is not None and sim.req_big and not cfg.get('rtu'):
                # a big read is outstanding: its reply is a large frame, often behind a stale frame in the same read chunk
                if tx == cur and r.random() < 0.6:
                    stale = ('FS', (cur - r.choice([1, 1, 2, 3])) % 65536, r.choice([1, 2, 10, 60, 125]))
                    script.append(stale)
                    sim.apply(stale)
                s = ('FL', tx, s[2])
        elif t == 'V':
            s = ('V', r.choice([MS, 2 * MS, 3 * MS + 1, 10 * MS]))
        elif t == 'WA':
            s = ('WA', r.choice([1, 2, 3, 5, 7, 11, 12, 100]))
        elif t == 'T':
            s = ('T', r.choice(_tick_choices(sim, r)))
        else:
            s = (t,)
        script.append(s)
        sim.apply(s)
    return script


def gen_parked(r):
    """the transmit side: a transport that takes nothing (a peer that does not read) at every position relative to submits,
    deadlines and shutdown, released in time / too late / never.  Returns [(case, expectations)]; an expectation
    {id: (class, instant | None)} is what the property statement requires, known by construction:
    the transmission is bounded by the request's timeout counted from its start (Io, the connection is dropped);
    a write that finishes in time is followed by the full timeout for the reply, counted from the END of the write."""
    out = []
    S = lambda i, t, st='f': ('S', i, 'r', t, st)
    nt = lambda ticks, x: min(t for t in ticks if t >= x)
    for tmo in (5 * MS, 1500000, 2 * MS - 1):
        for t0 in (0, 500000):
            for mt in (0, 1, 2):
                cfg = {'cap': 4, 'handles': 1, 'mt': mt, 'rmin': 20 * MS, 'rmax': 40 * MS}
                pre = connected_prefix(r.choice('fx')) + ([('T', t0)] if t0 else [])
                bound = fires_at(t0 + tmo)                        # timer instant of the transmission bound
                # 1. never released; commands queued behind the parked request are handled when the bound is reached
                for behind in ([], [S(1, 10 * MS)], [('D', 'f')], [('X',)], [S(1, 10 * MS, 'c'), ('X',)], [('L', 'max', 'f'), S(1, 10 * MS, 'x')],
                               [('D', 'x'), ('E', 'f')], [('H',)]):
                    for early in (1, MS, None):
                        sc = pre + [('WP',), S(0, tmo, r.choice('fcx'))] + behind
                        if early is not None and bound - t0 - early > 0:
                            sc.append(('T', bound - t0 - early))
                            sc.append(('T', early))
                        else:
                            sc.append(('T', bound - t0))
                        sc += [('T', 60 * MS), ('T', 60 * MS), ('T', 1)]
                        exp = {0: ('Io', bound)}
                        if behind and behind[0][0] == 'S':
                            exp[1] = ('NoConnection', bound)
                        if behind and behind[-1][0] == 'S' and len(behind) == 2:
                            exp[1] = ('NoConnection', bound)
                        out.append(((cfg, sc), exp))
                # 2. released in time: written at the release; the reply has the whole timeout from there
                for rel in (1, (bound - t0) // 2, bound - t0 - 1):
                    if rel <= 0:
                        continue
                    w = t0 + rel
                    due = fires_at(w + tmo)
                    for reply in ('in-time', 'last-instant', 'none'):
                        sc = pre + [('WP',), S(0, tmo), ('T', rel), ('WR',)]
                        if reply == 'in-time':
                            sc += [('F', 0, 'g')]
                            exp = {0: ('Ok', w)}
                        elif reply == 'last-instant':
                            sc += [('T', due - w - 1), ('F', 0, 'e')]
                            exp = {0: ('Exception', due - 1)}
                        else:
                            sc += [('T', due - w - 1), ('T', 1)]
                            exp = {0: ('Timeout', due)}
                        # the connection (if still there) and the transport are usable
                        sc += [S(1, 10 * MS), ('F', 1, 'g'), ('T', 60 * MS), ('T', 60 * MS), ('T', 1)]
                        if not (reply == 'none' and mt == 1):
                            exp[1] = ('Ok', None)
                        out.append(((cfg, sc), exp))
                # 3. released too late; after the reconnect the next request goes through
                sc = pre + [('WP',), S(0, tmo), ('T', bound - t0), ('WR',), ('T', 20 * MS), ('CO',), S(1, 10 * MS), ('F', 1, 'g'), ('T', 60 * MS), ('T', 60 * MS), ('T', 1)]
                out.append(((cfg, sc), {0: ('Io', bound), 1: ('Ok', None)}))
                # 4. never released: the park outlives the connection, the next connection's request is parked as well
                sc = pre + [('WP',), S(0, tmo), ('T', bound - t0), ('T', 20 * MS), ('CO',), S(1, 3 * MS), ('T', 3 * MS), ('WR',), ('T', 20 * MS), ('CO',),
                            S(2, 10 * MS), ('F', 2, 'g'), ('T', 60 * MS), ('T', 60 * MS), ('T', 1)]
                out.append(((cfg, sc), {0: ('Io', bound), 1: ('Io', None), 2: ('Ok', None)}))
                # 5. parked twice; a slow transport that is also parked; a transport that takes the frame in pieces
                out.append(((cfg, pre + [('WP',), ('WP',), S(0, tmo), ('T', 1), ('WR',), ('T', 1), ('WR',), ('F', 0, 'g')]), {0: ('Ok', t0 + 2)}))
                out.append(((cfg, pre + [('WP',), ('V', 1000), S(0, tmo), ('T', 1), ('WR',), ('T', bound - t0 - 1), ('T', 60 * MS), ('T', 60 * MS), ('T', 1)]), {}))
                out.append(((cfg, pre + [('V', 1000), ('WP',), S(0, tmo), ('T', bound - t0 - 1), ('WR',), ('T', 1), ('T', 60 * MS), ('T', 60 * MS), ('T', 1)]), {}))
                out.append(((cfg, pre + [('WA', 3), ('WP',), ('WA', 100), S(0, tmo), ('T', 1), ('WR',), ('F', 0, 'g'), ('WA', 1), ('WA', 1), S(1, tmo), ('F', 1, 'b')]),
                            {0: ('Ok', t0 + 1), 1: ('BadResponse', t0 + 1)}))
                # 6. parked while another request is in flight: that one is not affected, the next one is
                out.append(((cfg, pre + [S(0, 10 * MS), ('WP',), S(1, tmo), ('F', 0, 'g'), ('T', bound - t0), ('T', 60 * MS), ('T', 60 * MS), ('T', 1)]),
                            {0: ('Ok', t0), 1: ('Io', bound)}))
                # 7. abort / every handle dropped while the write is parked
                out.append(((cfg, pre + [('WP',), S(0, tmo), S(1, tmo, 'c'), ('A',), ('T', 60 * MS), ('T', 60 * MS), ('T', 1)]), {}))
                out.append(((cfg, pre + [('WP',), S(0, tmo), ('H',), ('T', bound - t0), ('T', 60 * MS), ('T', 60 * MS), ('T', 1)]), {0: ('Io', bound)}))
    # 8. the limit: a transmission that timed out is not a response timeout (mt = 2: timeout, parked -> Io, reconnect,
    #    timeout, timeout -> MaxTimeouts only now)
    cfg = {'cap': 4, 'handles': 1, 'mt': 2, 'rmin': 20 * MS, 'rmax': 40 * MS}
    sc = connected_prefix() + [S(0, 5 * MS), ('T', 5 * MS), ('WP',), S(1, 5 * MS), ('T', 5 * MS), ('WR',), ('T', 20 * MS), ('CO',),
                               S(2, 5 * MS), ('T', 5 * MS), S(3, 5 * MS), ('T', 5 * MS), ('T', 60 * MS), ('T', 60 * MS), ('T', 1)]
    out.append(((cfg, sc), {0: ('Timeout', 5 * MS), 1: ('Io', 10 * MS), 2: ('Timeout', 35 * MS), 3: ('Timeout', 40 * MS)}))
    return out


def gen_large(r):
    """large reply frames: a big read (125 registers: the reply is 259 bytes, one byte short of the receive buffer) answered in
    time by a valid frame that arrives in the SAME read chunk behind one or two stale frames (replies to requests that timed
    out), so that the reply straddles the end of the receive buffer.  Spec by construction: a valid reply in time => Ok (an
    exception reply => Exception, a reply with another function code => BadResponse), at the instant it arrived, and the
    connection stays usable."""
    out = []
    cls = {'g': 'Ok', 'e': 'Exception', 'b': 'BadResponse'}
    cfg = {'cap': 4, 'handles': 1, 'mt': 0, 'rmin': 20 * MS, 'rmax': 40 * MS}
    for tmo in (5 * MS, 1500000):
        for stale in ([1], [2], [10], [60], [125], [1, 1], [60, 3], [125, 125]):
            for kind in 'geb':
                for when in ('at-once', 'last-instant'):
                    sc = connected_prefix(r.choice('fx'))
                    now = 0
                    for j in range(len(stale)):
                        sc += [('S', j, 'r', MS, 'f'), ('T', MS)]          # times out: its reply, when it comes, is stale
                        now += MS
                    k = len(stale)
                    sc.append(('S', k, 'b', tmo, r.choice('fcx')))
                    if when == 'last-instant':
                        d = fires_at(now + tmo) - 1 - now
                        sc.append(('T', d))
                        now += d
                    for j, a in enumerate(stale):
                        sc.append(('FS', j, a))
                    sc.append(('FL', k, kind))
                    sc += [('S', k + 1, 'r', 5 * MS, 'f'), ('F', k + 1, 'g'), ('S', k + 2, 'b', 5 * MS, 'f'), ('FL', k + 2, 'g')]
                    exp = {k: (cls[kind], now), k + 1: ('Ok', now), k + 2: ('Ok', now)}
                    out.append(((cfg, sc), exp))
    return out


def check_expectations(ctx, name, items, impl):
    """items = [(case, {id: (class, instant|None)})]: what the property statement says must happen, known by construction"""
    nbad = 0
    for (c, exp), i in zip(items, impl):
        p = parse(i)
        got = {x[0]: (x[1], x[2]) for x in p['comp']} if p else {}
        for rid, (wc, wt) in exp.items():
            g = got.get(rid)
            if g is None or g[0] != wc or (wt is not None and g[1] != wt):
                nbad += 1
                if nbad == 1:
                    ctx.violation(name, f'script {to_line(c)}: request {rid} must complete with {wc}' + (f' at t={wt}' if wt is not None else '')
                                  + f', the implementation reports {g}; impl={i}',
                                  {'cases': [case_json(c)], 'impl': i, 'expected': {str(k): list(v) for k, v in exp.items()}})
    return nbad


def connected_prefix(style='f'):
    return [('E', style), ('CO',)]
