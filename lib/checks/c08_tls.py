"""C08 over real TLS sessions with client certificates of different role content (called from c08.py; a separate
file: C08's own check is p3's).

Harness `server_tls_peer`: the rodbus TLS client presents a certificate of the verification CA (certs/ca2) carrying
the role "operator", the role "viewer", a mixed-case role, NO role extension, or TWO role extensions, to
`spawn_tls_server_task_with_authz` with the instrumented policies of `server` (deny-all, the built-in read-only
handler, hashed policies). Judged by C08's own statements:
 * a certificate with exactly one role: interleaved authorization / point-handler log and per-request results are the
   reference server's for THAT role (C08_query: every request is submitted first, once, with the session's role;
   C08_deny: a denied request reaches no handler and is answered with exception 01);
 * whatever the certificate: no request is answered and no point handler is called unless the authorization handler
   was asked about that request first (a server created with an authorization handler never serves a session with
   authorization switched off), and under the deny-all policy no point handler is ever called.
Whether a peer without a usable role gets a session at all is C09's clause; here only what C08 says is judged.
"""
import os
import vlib
from checks import srv

PEERS = [('client', b'operator'), ('client_otherrole', b'viewer'), ('client_mixedrole', b'Plant-Operator.v2'), ('client_roleless', None), ('client_tworoles', None)]
SENDABLE = ('valid:fc1', 'valid:fc2', 'valid:fc3', 'valid:fc4', 'valid:fc5', 'valid:fc6', 'valid:fc15', 'valid:fc16')


def ca_dir():
    return os.path.join(vlib.ROOT, 'certs', 'ca2')


def canonical(frames):
    """requests the client API can express; write-multiple-coils with zero padding bits (the client re-encodes them)"""
    out = []
    for tx, d, p in frames:
        if srv.classify(p) not in SENDABLE:
            continue
        if p[0] == 15:
            n = p[3] * 256 + p[4]
            data = bytearray(p[6:])
            if n % 8:
                data[-1] &= (1 << (n % 8)) - 1
            p = bytes(p[:6]) + bytes(data)
        out.append((tx, d, p))
    return tuple(out)


def gen(ctx, n):
    r = ctx.rng
    cases = []
    # fixed: one write and one read under deny-all for every peer
    for stem, role in PEERS:
        cases.append((stem, ('tcp', (srv.simple_unit(1),), ('deny', role or b'-'), ((1, 1, bytes([6, 0, 1, 0, 9])), (2, 1, bytes([3, 0, 0, 0, 2]))))))
        cases.append((stem, ('tcp', (srv.simple_unit(1),), ('ro', role or b'-'), ((1, 1, bytes([3, 0, 0, 0, 2])), (2, 1, bytes([6, 0, 1, 0, 9]))))))
    while len(cases) < n:
        stem, role = PEERS[len(cases) % len(PEERS)]
        k = (len(cases) // len(PEERS)) % 4
        rb = role or b'-'
        auth = ('ro', rb) if k == 0 else ('deny', rb) if k == 1 else ('hash', rb, r.randrange(65536), r.choice([50, 50, 30, 70, 100, 0]))
        c = srv.gen_session(r, 'tcp', auth=auth, big_ok=False, raw=0.0, nframes=r.choice([1, 2, 3, 5]))
        frames = canonical(c[3])
        if not frames or not c[1]:
            continue
        cases.append((stem, (c[0], c[1], auth, frames)))
    return cases


def evaluate(ctx, cases):
    impl = ctx.harness('server_tls_peer', [f'{stem}|{srv.to_line(c)}' for stem, c in cases], args=[ca_dir()], shards=8, timeout=900)
    single = [k for k, (stem, c) in enumerate(cases) if dict(PEERS)[stem] is not None]
    ref = [None] * len(cases)
    if single:
        for k, b in zip(single, srv.run_coq(ctx, [cases[k][1] for k in single])):
            ref[k] = b[1]
    return impl, ref


def judge(case, i, ref):
    """None or (key, description)"""
    stem, c = case
    role = dict(PEERS)[stem]
    if i in ('PANIC', 'WEDGED') or i.count('|') != 2:
        return ('authorization.tls-session.unusable-result', i)
    res, log, end = srv.split3(i)
    if end not in ('done', 'REFUSED'):
        return ('authorization.tls-session.unusable-result', i)
    answered = [x for x in res if x == 'ok' or x.startswith('ex')]
    n_auth = len(srv.auth_calls(log))
    calls = srv.handler_calls(log)
    # whatever the certificate says: nothing is served that the authorization handler was not asked about
    if n_auth < len(answered) or (calls and n_auth == 0):
        return ('authorization.tls-session.request-served-without-an-authorization-query',
                f'{len(answered)} requests answered ({",".join(res)}), point-handler calls {calls[:4]}, but {n_auth} authorization queries')
    if c[2][0] == 'deny' and calls:
        return ('authorization.tls-session.deny-all-reached-a-point-handler', f'point-handler calls {calls[:4]} under the deny-all policy')
    if role is None:
        return None
    rolehex = role.hex().upper()
    wrong = [e for e in srv.auth_calls(log) if not e.endswith('.' + rolehex)]
    if wrong:
        return ('authorization.tls-session.policy-consulted-with-another-role', f'the certificate carries the role {role.decode()} but the policy was asked {wrong[:2]}')
    srep, slog, _ = srv.split3(ref)
    if not srep and len(c[3]) == 1:
        srep = ['-']
    want = []
    for x in srep:
        if x == '-':
            want.append('err')
        else:
            y = bytes.fromhex(x)
            want.append(f'ex{y[8]}' if y[7] & 0x80 else 'ok')
    if end != 'done' or res != want or log != slog:
        return ('authorization.tls-session.differs-from-the-reference-server',
                f'results {",".join(res) or "-"} log {";".join(log) or "-"} ({end}) but the reference server for role {role.decode()} gives {",".join(want) or "-"} log {";".join(slog) or "-"}')
    return None


def shrink_candidates(case):
    stem, c = case
    frames = c[3]
    for k in range(len(frames) - 1, -1, -1):
        if len(frames) > 1:
            yield (stem, (c[0], c[1], c[2], frames[:k] + frames[k + 1:]))
    if c[2][0] != 'deny':
        yield (stem, (c[0], c[1], ('deny', c[2][1]), frames))


def run_tls_roles(ctx):
    """replay key: tls_role_cases"""
    if ctx.replay and 'tls_role_cases' in ctx.replay:
        cases = [(x[0], srv.case_from_json(x[1])) for x in ctx.replay['tls_role_cases']]
    elif ctx.replay:
        return {}
    else:
        cases = gen(ctx, 40 if ctx.quick() else 160)
    impl, ref = evaluate(ctx, cases)
    bad = 0
    for case, i, b in zip(cases, impl, ref):
        j = judge(case, i, b)
        if not j:
            continue
        bad += 1
        if bad > 2:
            continue
        key = j[0]

        def fails(xs, key=key):
            im, rf = evaluate(ctx, xs)
            return [(judge(x, a, d) or ('',))[0] == key for x, a, d in zip(xs, im, rf)]
        small = vlib.shrink_batch(case, fails, shrink_candidates, rounds=6, width=8)
        im, rf = evaluate(ctx, [small])
        js = judge(small, im[0], rf[0])
        if not js or js[0] != key:
            small, im, rf, js = case, [i], [b], j
        ctx.violation(key, f'real TLS session, client certificate {small[0]} (role content: {dict(PEERS)[small[0]].decode() if dict(PEERS)[small[0]] else "no single role"}) '
                           f'on spawn_tls_server_task_with_authz: {srv.describe(small[1])}: {js[1]}',
                      {'tls_role_cases': [[small[0], srv.case_to_json(small[1])]], 'harness_line': f'{small[0]}|{srv.to_line(small[1])}', 'impl': im[0], 'spec': rf[0]})
    ctx.oblige('tls-session:authorization-by-certificate-role', bad == 0, f'{bad} of {len(cases)} sessions')
    cls = {'tls-role-sessions': len(cases)}
    for (stem, c), i in zip(cases, impl):
        cls['tls-role-sessions:' + stem] = cls.get('tls-role-sessions:' + stem, 0) + 1
        if i.count('|') == 2:
            res, log, end = srv.split3(i)
            cls['tls-role-sessions:authorization-queries'] = cls.get('tls-role-sessions:authorization-queries', 0) + len(srv.auth_calls(log))
            cls['tls-role-sessions:refused-or-unanswered'] = cls.get('tls-role-sessions:refused-or-unanswered', 0) + (not any(x == 'ok' or x.startswith('ex') for x in res))
    if not ctx.replay:
        ctx.oblige('tls-role-generator-reaches-expected-classes', all(cls.get('tls-role-sessions:' + s, 0) >= 5 for s, _ in PEERS) and cls.get('tls-role-sessions:authorization-queries', 0) >= 20
                   and cls.get('tls-role-sessions:refused-or-unanswered', 0) >= 5, str(cls))
    return cls
