"""C13 - Client connection life-cycle is a legal state path; requests fail fast when down.

Theorems (coq/theories/Properties/C13.v) about the client task model.  Correspondence, two parts:
 (1) event scripts on the real ClientLoop (through rodbus::verif::ClientSession, with a copy of
     TcpChannelTask::run_inner around it), biased towards enable / disable / connect results /
     lost connections / shutdown / handle drops, compared with the model; the Spec automaton
     `Lifecycle.legal` is evaluated in Coq on the implementation's own listener trace;
 (2) the real `spawn_tcp_client_task` over loopback TCP (no hook) with a recording, gating Listener:
     scenarios over {enable, disable, shutdown, drop handles, submit} x {refused, accepted then
     closed, accepted then garbage, accepted and silent with a timeout limit, served}; the
     listener path is judged by `Lifecycle.legal` (in Coq), compared with the model's, and the
     completion classes / termination are checked.  Orders only, never wall-clock values.
"""
from checks import clientlib as cl
from checks.clientlib import MS

LCO = {'lD': 'LDisabled', 'lC': 'LConnecting', 'lN': 'LConnected', 'lS': 'LShutdown'}


def lstate_coq(t):
    if t[:2] in LCO:
        return LCO[t[:2]]
    return ('LWaitFailed ' if t[:2] == 'lF' else 'LWaitDisc ') + t[2:]


def gen_scripts(r, n):
    base = {'cap': 4, 'handles': 1, 'mt': 2, 'rmin': 20 * MS, 'rmax': 40 * MS}
    S = lambda i, st='f', t=10 * MS: ('S', i, 'r', t, st)
    cases = [
        # the path observed in the design round: refused x4, accepted then closed, accepted, disable, enable, shutdown
        (base, [('E', 'f'), ('CE',), ('T', 20 * MS), ('CE',), ('T', 40 * MS), ('CE',), ('T', 40 * MS), ('CE',), ('T', 40 * MS), ('CO',), ('Z',),
                ('T', 20 * MS), ('CO',), ('D', 'f'), ('E', 'f'), ('CO',), ('X',)]),
        # shutdown / last handle dropped from every state
        (base, [('X',)]), (base, [('E', 'f'), ('X',)]), (base, [('E', 'f'), ('CE',), ('X',)]), (base, [('E', 'f'), ('CO',), ('X',)]),
        (base, [('E', 'f'), ('CO',), ('Z',), ('X',)]), (base, [('E', 'f'), ('CO',), S(0), ('X',), ('T', 10 * MS)]),
        (base, [('H',)]), (base, [('E', 'f'), ('H',)]), (base, [('E', 'f'), ('CE',), ('H',)]), (base, [('E', 'f'), ('CO',), ('H',)]),
        (base, [('E', 'f'), ('CO',), ('G',), ('H',)]), (base, [('E', 'f'), ('CO',), S(0), ('H',), ('F', 0, 'g')]),
        # disable in every state; requests at every state
        (base, [S(0), ('E', 'f'), S(1), ('D', 'f'), S(2), ('E', 'f'), ('CE',), S(3), ('D', 'x'), S(4), ('E', 'x'), ('CO',), S(5), ('D', 'f'), ('F', 0, 'g'), S(6)]),
        (base, [('E', 'f'), ('CO',), ('Z',), S(0), ('D', 'f'), S(1), ('E', 'f'), S(2), ('CO',), S(3), ('F', 0, 'g')]),
        # silent peer with a timeout limit
        (base, [('E', 'f'), ('CO',), S(0), S(1), S(2), ('T', 10 * MS), ('T', 10 * MS), S(3), ('T', 20 * MS), ('CO',), S(4), ('F', 2, 'g')]),
    ]
    # commands arriving DURING a wait state at intervals shorter than the delay: the wait still ends at wait_start + delay
    for first in ([('CE',)], [('CO',), ('Z',)], [('CO',), ('G',)], [('CE',), ('T', 20 * MS), ('CE',)]):
        for cmds in ('SSSSSS', 'EEEEEE', 'LLLLLL', 'SELSEL', 'LSSELS'):
            for gap in (1 * MS, 5 * MS, 7 * MS + 1):
                sc = [('E', 'f')] + list(first)
                for i, c in enumerate(cmds):
                    sc.append(('T', gap))
                    sc.append(('S', i, 'r', 10 * MS, 'fcx'[i % 3]) if c == 'S' else ('E', 'fx'[i % 2]) if c == 'E' else ('L', 'max', 'f'))
                sc += [('T', 40 * MS), ('CO',), ('S', 9, 'r', 10 * MS, 'f'), ('F', 0, 'g')]
                cases.append((dict(base, mt=0), sc))
    # settings through the FFI handle (try_send): refused while the queue is full, the retry must then really take effect
    for first in ('x', 'f'):
        for k in 'ge':
            one = dict(base, cap=1, mt=0)
            cases.append((one, [('E', first), ('CO',), S(0), ('D', 'x'), ('E', 'x'), ('F', 0, k), ('E', 'x'), ('T', 1 * MS), ('CO',), S(1), ('F', 1, 'g')]))
            cases.append((one, [('E', first), ('CO',), S(0), ('D', 'x'), ('E', 'x'), ('E', 'x'), ('F', 0, k), ('D', 'x'), ('T', 1 * MS), ('E', 'x'), ('T', 1 * MS)]))
            cases.append((one, [('E', first), ('CO',), ('D', 'x'), ('T', 1 * MS), ('E', 'x'), ('T', 1 * MS), ('D', 'x'), ('D', 'x'), ('E', 'x'), ('E', 'x'), ('T', 1 * MS)]))
            cases.append((one, [('D', 'x'), ('E', first), ('CE',), ('D', 'x'), ('T', 20 * MS), ('E', 'x'), ('E', 'x'), ('T', 1 * MS)]))
    # a long outage in virtual time (the harness's connect loop uses the real RetryStrategy object): 45 failed connects in a row
    for rmin, rmax in ((1 * MS, 4 * MS), (1 * MS, 1000 * MS), (7, 1 * MS)):
        cfg = dict(base, mt=0, rmin=rmin, rmax=rmax)
        sim = cl.Sim(cfg)
        sc = []
        for st in [('E', 'f')] + [None] * 45:
            if st is None:
                sc.append(('CE',))
                sim.apply(sc[-1])
                st = ('T', max(1, cl.fires_at(sim.until) - sim.now))
            sc.append(st)
            sim.apply(st)
        sc += [('S', 0, 'r', 5 * MS, 'f'), ('CO',), ('S', 1, 'r', 5 * MS, 'c'), ('F', 0, 'g'), ('X',)]
        cases.append((cfg, sc))
    # the transmit side: shutdown / disable / requests queued behind a write the transport does not take
    cases += [c for c, _ in cl.gen_parked(r)]
    w = {'S': 4, 'T': 5, 'E': 4, 'D': 3, 'L': 0.3, 'H': 0.5, 'A': 0.15, 'X': 0.7, 'W': 0.3, 'V': 0.1,
         'CO': 5, 'CE': 4, 'F': 2, 'P': 0.3, 'Q': 1, 'G': 1, 'Z': 2, 'R': 1}
    while len(cases) < n:
        cfg = cl.default_cfg(r, mt=r.choice([0, 1, 2]), handles=r.choice([1, 1, 2]))
        cases.append((cfg, cl.gen_random(r, cfg, r.choice([6, 10, 14]), w)))
    return cases


# ------------------------------------------------------------------------------- loopback scenarios
import copy

RMS = 20                  # retry delays 20..40 ms
TMO = 30                  # request timeout on loopback when the peer is silent (a Timeout is the expected outcome), ms
TMO_SERVED = 5000         # ... and when a reply is expected (far away, so that a loaded machine cannot turn Ok into Timeout)


class Scenario:
    """builds, in lock step, the harness script for the real task over loopback and the event script for the model;
    the replica only tells how many listener notifications / completions to wait for and where to hold the task"""

    def __init__(self, mt, rms=RMS, rmax=None):
        self.rms = rms
        self.rmax = rmax or 2 * rms
        self.cfg = {'cap': 64, 'handles': 1, 'mt': mt, 'rmin': rms * MS, 'rmax': self.rmax * MS}   # cap: never fills (a full queue would block the script's own calls while the task is held)
        self.sim = cl.Sim(self.cfg)
        self.h = []               # harness steps
        self.m = []               # model steps
        self.env = 'refuse'
        self.conn_mode = None     # behaviour of the peer on the established connection
        self.held = False
        self.nid = 0
        self.ops = []

    def connect_outcome(self):
        return {'refuse': [('CE',)], 'close': [('CO',), ('Z',)], 'garbage': [('CO',), ('G',)]}.get(self.env, [('CO',)])

    def _do(self, actions, events, done=False):
        pred = copy.deepcopy(self.sim)
        for e in events:
            pred.apply(e)
        if pred.ph == 'Waiting' and pred.nl > self.sim.nl:
            self.h.append(f'hold:{pred.nl}')          # keep the task at the wait-state notification
        self.h += actions
        if self.held and (pred.nl > self.sim.nl or pred.nc > self.sim.nc or done):
            self.h.append('go')
            self.held = False
        if pred.nl > self.sim.nl:
            self.h.append(f'wait:{pred.nl}')
        if pred.nc > self.sim.nc:
            self.h.append(f'waitc:{pred.nc}')
        if done or pred.ph == 'Done':
            self.h.append('done')
        if pred.ph == 'Waiting' and pred.nl > self.sim.nl:
            self.held = True
        if any(e[0] == 'CO' for e in events):
            self.conn_mode = self.env
        self.m += events
        self.sim = pred

    def retry_events(self):
        """the retry timer elapses (only meaningful while waiting) and the next attempt meets the current environment"""
        return [('T', cl.fires_at(self.sim.until) - self.sim.now)] + self.connect_outcome()

    def op(self, name, arg=None):
        s = self.sim
        self.ops.append(name if arg is None else f'{name}:{arg}')
        if s.ph == 'Done':
            return
        if name == 'env':
            self.env = arg
            self.h.append(f'env:{arg}')
        elif name == 'enable':
            ev = [('E', 'f')]
            if s.ph == 'WaitEnabled':
                ev += self.connect_outcome()
            self._do(['E'], ev)
        elif name == 'disable':
            self._do(['D'], [('D', 'f')])
        elif name == 'retry':
            if s.ph == 'Waiting':
                self._do([], self.retry_events())
        elif name == 'submit':
            i = self.nid
            self.nid += 1
            tmo = TMO_SERVED if (s.ph == 'Idle' and self.conn_mode == 'serve') else TMO
            ev = [('S', i, 'r', tmo * MS, 'f')]
            if s.ph == 'Idle':
                if self.conn_mode == 'serve':
                    ev.append(('F', s.txid, 'g'))
                else:
                    ev.append(('T', tmo * MS))
            elif s.ph == 'Waiting':
                ev += self.retry_events()          # releasing the held task also lets the retry timer run
            self._do([f'S:{i}:{tmo}'], ev)
        elif name == 'shutdown':
            self._do(['X'], [('X',)], done=True)
        elif name in ('shutdown_gated', 'drop_gated'):
            # hold the task AT the Shutdown notification (the peer is asked what it sees there), then let it end
            if self.held:
                return
            pred = copy.deepcopy(s)
            ev = ('X',) if name == 'shutdown_gated' else ('H',)
            pred.apply(ev)
            if pred.ph != 'Done':
                return
            self.h += [f'hold:{pred.nl}', 'X' if name == 'shutdown_gated' else 'H', f'wait:{pred.nl}', 'go', 'done']
            self.m.append(ev)
            self.sim = pred
        elif name == 'drop':
            self._do(['H'], [('H',)], done=True)
        elif name == 'during_wait':
            # commands that arrive WHILE the task waits before the next attempt (after a failed connect or a lost
            # connection): a request fails at once, a redundant enable and a decode-level change change nothing, and the
            # next Connecting comes when the announced delay is over - not earlier
            if s.ph != 'Waiting' or not self.held:
                return
            early = self.rms // 20                                   # well inside the delay (scenario built with a long one)
            ev = [('T', early * MS)]
            acts = ['go', f'sleep:{early}']
            for cmd in arg:
                if cmd == 'S':
                    ev.append(('S', self.nid, 'r', TMO * MS, 'f'))
                    acts.append(f'S:{self.nid}:{TMO}')
                    self.nid += 1
                elif cmd == 'E':
                    ev.append(('E', 'f'))
                    acts.append('E')
                else:
                    ev.append(('L', 'min', 'f'))
                    acts.append('L')
            ev += [('T', cl.fires_at(s.until) - s.now - early * MS)] + self.connect_outcome()
            self.held = False
            self._do(acts, ev)
        elif name == 'inject_disabled':
            # hold the task AT the Disabled notification that follows a disable and inject the next command there
            if s.ph != 'Idle':
                return
            cmd = arg
            hold_at = s.nl + 1
            first = [('D', 'f')]
            second = {'E': [('E', 'f')] + self.connect_outcome(), 'X': [('X',)], 'H': [('H',)], 'S': [('S', self.nid, 'r', TMO * MS, 'f')]}[cmd]
            pred = copy.deepcopy(s)
            for e in first + second:
                pred.apply(e)
            if pred.ph == 'Waiting':
                return                                   # would need a second hold while one is pending
            act = {'E': 'E', 'X': 'X', 'H': 'H', 'S': f'S:{self.nid}:{TMO}'}[cmd]
            if cmd == 'S':
                self.nid += 1
            self.h += [f'hold:{hold_at}', 'D', f'wait:{hold_at}', act, 'go']
            if pred.nl > hold_at:
                self.h.append(f'wait:{pred.nl}')
            if pred.nc > s.nc:
                self.h.append(f'waitc:{pred.nc}')
            if pred.ph == 'Done':
                self.h.append('done')
            if any(e[0] == 'CO' for e in second):
                self.conn_mode = self.env
            self.m += first + second
            self.sim = pred
        elif name == 'inject':
            # hold the task AT a transition (Connecting / Connected notification) and inject a command there
            at, cmd = arg
            if s.ph != 'WaitEnabled' or (at == 'lN' and self.env not in ('serve', 'silent')):
                return
            hold_at = s.nl + (1 if at == 'lC' else 2)
            first = [('E', 'f')] + (self.connect_outcome() if at == 'lN' else [])
            itmo = TMO_SERVED if (at == 'lN' and self.env == 'serve') else TMO
            second = {'D': [('D', 'f')], 'X': [('X',)], 'H': [('H',)], 'S': [('S', self.nid, 'r', itmo * MS, 'f')]}[cmd]
            if cmd == 'S':
                if at == 'lC':
                    second += self.connect_outcome()
                    pred = copy.deepcopy(s)
                    for e in first + second:
                        pred.apply(e)
                elif self.env == 'serve':
                    second.append(('F', s.txid, 'g'))
                else:
                    second.append(('T', itmo * MS))
            pred = copy.deepcopy(s)
            for e in first:
                pred.apply(e)
            pred2 = copy.deepcopy(pred)
            for e in second:
                pred2.apply(e)
            self.h += [f'hold:{hold_at}', 'E', f'wait:{hold_at}']
            if pred2.ph == 'Waiting' and pred2.nl > hold_at:
                pass                                   # cannot arm a second hold while one is pending: avoid these combinations
            act = {'D': 'D', 'X': 'X', 'H': 'H', 'S': f'S:{self.nid}:{itmo}'}[cmd]
            if cmd == 'S':
                self.nid += 1
            self.h += [act, 'go']
            if pred2.nl > hold_at:
                self.h.append(f'wait:{pred2.nl}')
            if pred2.nc > s.nc:
                self.h.append(f'waitc:{pred2.nc}')
            if pred2.ph == 'Done':
                self.h.append('done')
            if at == 'lN':
                self.conn_mode = self.env
            elif any(e[0] == 'CO' for e in second):
                self.conn_mode = self.env
            self.m += first + second
            self.sim = pred2
            self.held = False
            if pred2.ph == 'Waiting':
                self.bad = True                        # the task would run on unattended: scenario discarded by the generator

    def finish(self):
        self.h.append('sleep:60')
        return (f'cap=64 mt={self.cfg["mt"]} rmin={self.rms} rmax={self.rmax} | ' + ' '.join(self.h), (self.cfg, self.m))


def gen_loopback(r, n):
    out = []
    directed = [
        # the path of the design round
        [('env', 'refuse'), 'enable', 'retry', 'retry', 'retry', ('env', 'close'), 'retry', ('env', 'serve'), 'retry', 'submit', 'disable', 'enable', 'submit', 'shutdown'],
        ['shutdown'], ['drop'], [('env', 'serve'), 'submit', 'enable', 'submit', 'drop'],
        [('env', 'refuse'), 'enable', 'submit', 'disable', 'submit', 'enable', 'shutdown'],
        [('env', 'garbage'), 'enable', 'submit', ('env', 'serve'), 'retry', 'submit', 'shutdown'],
        [('env', 'silent'), 'enable', 'submit', 'submit', 'submit', ('env', 'serve'), 'retry', 'submit', 'drop'],
        [('env', 'close'), 'enable', 'disable', 'enable', 'shutdown'],
        [('env', 'serve'), ('inject', ('lC', 'D')), 'enable', 'submit', 'shutdown'],
        [('env', 'serve'), ('inject', ('lC', 'X'))], [('env', 'serve'), ('inject', ('lC', 'H'))],
        [('env', 'serve'), ('inject', ('lN', 'D')), 'submit', 'enable', 'submit', 'drop'],
        [('env', 'serve'), ('inject', ('lN', 'X'))], [('env', 'silent'), ('inject', ('lN', 'H'))],
        [('env', 'serve'), ('inject', ('lN', 'S')), 'shutdown'], [('env', 'refuse'), ('inject', ('lC', 'D')), 'shutdown'],
        [('env', 'refuse'), 'enable', 'shutdown'], [('env', 'refuse'), 'enable', 'drop'], [('env', 'close'), 'enable', 'shutdown'],
        [('env', 'silent'), 'enable', 'submit', 'shutdown'], [('env', 'serve'), 'enable', 'disable', 'disable', 'enable', 'enable', 'drop'],
    ]
    # commands during the reconnect delay (long delay so that "during" is robust on a loaded machine)
    for cmds in (['S'], ['E'], ['L'], ['S', 'E', 'L'], ['L', 'S']):
        for env2 in ('refuse', 'serve'):
            sc = Scenario(0, rms=800)
            for o in [('env', 'refuse'), 'enable', ('during_wait', cmds), ('env', env2), ('during_wait', list(reversed(cmds))), 'shutdown']:
                sc.op(*((o,) if isinstance(o, str) else o))
            out.append(sc)
    # a long outage: 45 refused connects in a row with tiny delays (1, 2, 4, 4, ... ms): a wait state after EVERY failed connect,
    # requests fail fast all along, then the peer comes up / the channel is shut down (Shutdown once and last)
    for tail in (['submit', 'shutdown'], [('env', 'serve'), 'retry', 'submit', 'drop']):
        sc = Scenario(0, rms=1, rmax=4)
        for o in [('env', 'refuse'), 'enable'] + ['retry'] * 44 + tail:
            sc.op(*((o,) if isinstance(o, str) else o))
        out.append(sc)
    sc = Scenario(0, rms=800)
    for o in [('env', 'close'), 'enable', ('env', 'serve'), ('during_wait', ['S', 'L', 'E']), 'submit', 'drop']:
        sc.op(*((o,) if isinstance(o, str) else o))
    out.append(sc)
    directed += [
        # the notification is a gate: Disabled / Shutdown / the wait states with the connection already closed on the peer side
        [('env', 'serve'), 'enable', 'shutdown_gated'], [('env', 'silent'), 'enable', 'drop_gated'], [('env', 'serve'), 'enable', 'submit', 'shutdown_gated'],
        [('env', 'silent'), 'enable', ('inject_disabled', 'E'), 'shutdown_gated'],
        [('env', 'serve'), ('inject', ('lN', 'D')), 'shutdown'], [('env', 'silent'), 'enable', ('inject_disabled', 'S'), 'enable', 'drop_gated'],
        [('env', 'serve'), 'enable', ('inject_disabled', 'E'), 'submit', 'shutdown'],
        [('env', 'serve'), 'enable', ('inject_disabled', 'X')], [('env', 'silent'), 'enable', ('inject_disabled', 'H')],
        [('env', 'serve'), 'enable', ('inject_disabled', 'S'), 'enable', 'submit', 'drop'],
        [('env', 'serve'), 'enable', ('env', 'close'), ('inject_disabled', 'E'), 'shutdown'],
    ]
    for ops in directed:
        for mt in (0, 2):
            sc = Scenario(mt)
            for o in ops:
                sc.op(*((o,) if isinstance(o, str) else o))
            if not getattr(sc, 'bad', False):
                out.append(sc)
    while len(out) < n:
        sc = Scenario(r.choice([0, 1, 2]))
        for _ in range(r.choice([3, 5, 8])):
            k = r.random()
            if k < 0.25:
                sc.op('env', r.choice(['refuse', 'close', 'garbage', 'silent', 'serve', 'serve']))
            elif k < 0.45:
                sc.op('enable')
            elif k < 0.55:
                sc.op('disable')
            elif k < 0.75:
                sc.op('retry')
            elif k < 0.9:
                sc.op('submit')
            elif k < 0.93:
                sc.op('inject', (r.choice(['lC', 'lN']), r.choice('DXHS')))
            elif k < 0.97:
                sc.op('inject_disabled', r.choice('EXHS'))
            else:
                sc.op(r.choice(['shutdown', 'drop']))
        sc.op(r.choice(['shutdown', 'drop', 'shutdown_gated', 'drop_gated']))
        sc.op('shutdown')
        if not getattr(sc, 'bad', False):
            out.append(sc)
    return out


NAMES = {'lD': 'Disabled', 'lC': 'Connecting', 'lF': 'WaitAfterFailedConnect', 'lW': 'WaitAfterDisconnect', 'lS': 'Shutdown'}
KEYS_OPTIONS = ('C13.dead-connection-not-dropped-and-re-established-although-a-timeout-limit-was-set-through-the-options',
                'C13.task-built-from-the-options-differs-from-the-model', 'loopback:timeout-limit-set-through-the-options-builder')


def loopback_options(ctx):
    """environment "accepted and silent with a timeout limit", the limit set the only public way: through the ClientOptions
    builder, in different call orders (`chain=` of the lifecycle harness).  Spec (documentation of the builder): the limit
    is the argument of the last max_response_timeouts call whatever else is called; C13: after every L-th timeout in a
    row the listener hears WaitAfterDisconnect, then Connecting, Connected again; without a limit it hears nothing."""
    import itertools
    from checks import c12
    r = ctx.rng
    chains = []
    for L in (1, 2):
        for k in 'lqd':
            chains += [[('t', L), (k, c12.VALUES[k][-1])], [(k, c12.VALUES[k][-1]), ('t', L)]]
    perms = list(itertools.permutations('lqdt'))
    r.shuffle(perms)
    for perm in perms[:6 if ctx.quick() else 24]:
        chains.append([(k, r.choice([1, 2]) if k == 't' else c12.VALUES[k][-1]) for k in perm])
    chains += [[('t', 2), ('t', 0)], [('l', 1), ('d', 1)], [('t', 0), ('l', 1), ('t', 2), ('q', 64)]]
    res = []
    for ch in chains:
        ts = [v for k, v in ch if k == 't']
        res.append((None, None, (ts[-1] or None) if ts else None, None))
    c12.options_behaviour(ctx, chains, res, KEYS_OPTIONS)
    return len(chains)


def loopback(ctx, n):
    scs = gen_loopback(ctx.rng, n)
    items = []
    for sc in scs:
        line, mcase = sc.finish()
        items.append((' '.join(sc.ops), line, mcase))
    return judge_loopback(ctx, items)


def judge_loopback(ctx, items):
    impl = ctx.harness('lifecycle', [it[1] for it in items], shards=8, timeout=600)
    if cl.MODEL_OK:
        mod = ctx.coq_eval(cl.REQUIRES, 'eval_case', [cl.to_coq(it[2]) for it in items], case_type='case', per_shard=100)
    else:
        mod = [None] * len(items)
    bad = 0
    traces = []
    for (ops, line, mcase), i, m in zip(items, impl, mod):
        parts = i.split('|')
        spec, other = [], []
        if i == 'PANIC' or len(parts) != 7:
            spec.append('panic-or-garbled-output')
        else:
            ls, comp, fin, accepts, tmo, gaps, pview = parts
            ls = ls.split()
            # the callback is a gate: while the task is held in a notification the peer is asked what it sees.  Only Connected
            # is reported with a connection open; Disabled / Connecting / the wait states / Shutdown find every connection
            # the peer accepted closed (EOF or error already read by the peer)
            for pv in pview.split():
                n, nopen, mode = pv[1:].split(':')
                kind = ls[int(n) - 1][:2]
                if kind != 'lN' and int(nopen) > 0:
                    spec.append(f'C13.{NAMES.get(kind, kind)}-reported-while-the-connection-is-still-open')
                if kind == 'lN' and int(nopen) == 0 and mode in ('serve', 'silent'):
                    spec.append('C13.Connected-reported-although-the-peer-sees-no-open-connection')
            gaps = [int(x) for x in gaps.split()]
            # the next Connecting after a wait state does not come before the announced delay is over
            for k in range(1, len(ls)):
                if ls[k] == 'lC' and ls[k - 1][:2] in ('lF', 'lW') and k - 1 < len(gaps) and gaps[k - 1] + 1 < int(ls[k - 1][2:]) // MS:
                    spec.append('C13.reconnect-attempt-earlier-than-the-announced-delay')
            traces.append(ls)
            if not ls or ls[0] != 'lD' or any(not cl.edge(a, b) for a, b in zip(ls, ls[1:])) or 'lS' in ls[:-1]:
                spec.append('C13.illegal-listener-path')
            if int(accepts) > ls.count('lC'):
                spec.append('C13.connection-accepted-without-a-Connecting-notification')
            if fin.startswith('done') and 'after:' in fin and not fin.endswith('after:Shutdown'):
                spec.append('C13.handle-does-not-report-shutdown-after-the-task-ended')
            if fin.startswith('done') and (not ls or ls[-1] != 'lS'):
                spec.append('C13.task-ended-without-a-Shutdown-notification')
            if m is not None:
                mp = cl.parse(cl.canon(m))
                mls = [t.split('@')[0] for t in mp['task'] if t[0] == 'l']
                mcomp = ' '.join(f'c{c[0]}:{c[1]}' for c in sorted(mp['comp']))
                if mls != ls:
                    # a notification the model (proved legal, with Disabled after every disable and a wait state after
                    # every failed connect / lost connection) makes and the implementation does not, or vice versa
                    k = next((j for j, (a, b) in enumerate(zip(mls, ls)) if a != b), min(len(mls), len(ls)))
                    spec.append('C13.listener-path-differs:' + (f'{mls[k][:2]}-expected' if k < len(mls) else f'{ls[k][:2]}-unexpected'))
                if mcomp != comp:
                    other.append('C13.completions-differ-from-the-model')
                if mp['done'] != fin.startswith('done'):
                    spec.append('C13.task-did-not-end' if mp['done'] else 'C13.task-ended-unexpectedly')
            if tmo:
                other.append('C13.' + tmo.replace(' ', '-'))
        why = spec + other
        if why:
            bad += 1
            if bad <= 2:
                ctx.violation(why[0], f'loopback scenario {ops} [{line}]: {", ".join(why)}; impl={i} model={m}',
                              {'loopback': [[ops, line, cl.case_json(mcase)]], 'impl': i, 'model': m, 'why': why},
                              no_failing_input=not spec)
    ctx.oblige('loopback:real-tcp-client-task-scenarios', bad == 0, f'{bad} of {len(items)} scenarios')
    return len(items), traces


# ------------------------------------------------------------------------------- serial (pty) scenarios
# (script, what the property statement requires: PortState path | completion classes | termination), written by hand
def _S(i, t=5000):
    return ('S', i, 'r', t * MS, 'f')


# (harness script, expected outcome, the same scenario as events of the serial model: ('O', ok) sets the result of the
#  next opens, F*/T steps as in the TCP scripts)
SERIAL = [
    ('hold:2 E wait:2 link go wait:3 S:1:5000 waitc:1 D wait:4 S:2:5000 waitc:2 E wait:5 serve:off S:3:30 waitc:3 X done',
     'sD sW20000000 sO sD sO sS|c1:Ok c2:NoConnection c3:Timeout|done after:Shutdown|',
     [('E', 'f'), ('O', True), ('T', 20 * MS), _S(1), ('F', 0, 'g'), ('D', 'f'), _S(2), ('E', 'f'), _S(3, 30), ('T', 30 * MS), ('X',)]),
    ('sleep:30 X done', 'sD sS||done after:Shutdown|', [('X',)]),
    ('link E wait:2 S:1:5000 waitc:1 H done', 'sD sO sS|c1:Ok|done|', [('O', True), ('E', 'f'), _S(1), ('F', 0, 'g'), ('H',)]),
    ('link E wait:2 S:1:5000 waitc:1 hold:3 unlink hup wait:3 S:2:50 go waitc:2 hold:4 wait:4 link go wait:5 S:3:5000 waitc:3 X done',
     'sD sO sW20000000 sW20000000 sO sS|c1:Ok c2:NoConnection c3:Ok|done after:Shutdown|',
     [('O', True), ('E', 'f'), _S(1), ('F', 0, 'g'), ('O', False), ('Z',), _S(2, 50), ('T', 20 * MS), ('O', True), ('T', 20 * MS), _S(3), ('F', 1, 'g'), ('X',)]),
    ('S:1:50 waitc:1 H done', 'sD sS|c1:NoConnection|done|', [_S(1, 50), ('H',)]),
    ('hold:2 E wait:2 hold:3 go wait:3 hold:4 go wait:4 X go done', 'sD sW20000000 sW40000000 sW40000000 sS||done after:Shutdown|',
     [('E', 'f'), ('T', 20 * MS), ('T', 40 * MS), ('X',)]),
    ('hold:2 E wait:2 D go wait:3 S:1:50 waitc:1 X done', 'sD sW20000000 sD sS|c1:NoConnection|done after:Shutdown|',
     [('E', 'f'), ('D', 'f'), _S(1, 50), ('X',)]),
    ('link serve:off E wait:2 S:1:40 sleep:5 X waitc:1 done', 'sD sO sS|c1:Timeout|done after:Shutdown|',
     [('O', True), ('E', 'f'), _S(1, 40), ('X',), ('T', 40 * MS)]),
    ('link E wait:2 D wait:3 E wait:4 D wait:5 H done', 'sD sO sD sO sD sS||done|',
     [('O', True), ('E', 'f'), ('D', 'f'), ('E', 'f'), ('D', 'f'), ('H',)]),
]

class SerialScenario(Scenario):
    """the same lock-step builder for the real RTU client task on a pty: the environment is whether the port path exists
    (link / unlink), whether the master side answers (serve on / off) and hang-ups"""

    def __init__(self):
        Scenario.__init__(self, 0)
        self.sim = cl.Sim(self.cfg, serial=True)
        self.serving = True

    def connect_outcome(self):
        return []                                  # the open result is applied by the model at once

    def op(self, name, arg=None):
        s = self.sim
        if s.ph == 'Done':
            return
        if name in ('link', 'unlink'):
            # a new pty replaces (and hangs up) the old one: only create one while the task holds no port; removing the
            # path of an open port does not disturb it
            if name == 'link' and (s.open_ok or s.connected()):
                return
            if name == 'unlink' and not s.open_ok:
                return
            self.ops.append(name)
            self.h.append(name)
            self.m.append(('O', name == 'link'))
            s.apply(('O', name == 'link'))
        elif name == 'serve':
            self.ops.append(f'serve:{arg}')
            self.serving = arg == 'on'
            self.h.append(f'serve:{arg}')
        elif name == 'hup':
            if s.ph != 'Idle':
                return
            self.ops.append('hup')
            s.apply(('O', False))
            self.m.append(('O', False))
            self._do(['unlink', 'hup'], [('Z',)])
        elif name == 'submit':
            self.ops.append('submit')
            i = self.nid
            self.nid += 1
            tmo = TMO_SERVED if (s.ph == 'Idle' and self.serving) else TMO
            ev = [('S', i, 'r', tmo * MS, 'f')]
            if s.ph == 'Idle':
                ev.append(('F', s.txid, 'g') if self.serving else ('T', tmo * MS))     # the tx label only steers the replica; RTU frames carry none
            elif s.ph == 'Waiting':
                ev += self.retry_events()
            self._do([f'S:{i}:{tmo}'], ev)
        else:
            Scenario.op(self, name, arg)

    def finish(self):
        self.h.append('sleep:40')
        return (f'rmin={RMS} rmax={2 * RMS} | ' + ' '.join(self.h), self.m)


def gen_serial(r, n):
    out = []
    while len(out) < n:
        sc = SerialScenario()
        if r.random() < 0.6:
            sc.op('link')
        for _ in range(r.choice([3, 5, 8])):
            k = r.random()
            if k < 0.15:
                sc.op(r.choice(['link', 'unlink']))
            elif k < 0.25:
                sc.op('serve', r.choice(['on', 'off']))
            elif k < 0.45:
                sc.op('enable')
            elif k < 0.55:
                sc.op('disable')
            elif k < 0.7:
                sc.op('retry')
            elif k < 0.88:
                sc.op('submit')
            elif k < 0.95:
                sc.op('hup')
            else:
                sc.op(r.choice(['shutdown', 'drop']))
        sc.op(r.choice(['shutdown', 'drop']))
        out.append(sc)
    return out


PCO = {'sD': 'SDisabled', 'sO': 'SOpen', 'sS': 'SShutdown'}


def sevent_coq(st):
    if st[0] == 'O':
        return 'SSetOpen ' + ('true' if st[1] else 'false')
    return 'SEnv (' + cl.step_coq(st) + ')'


def serial(ctx, nrandom=0):
    items = list(SERIAL)
    for sc in gen_serial(ctx.rng, nrandom):
        line, mscript = sc.finish()
        items.append((line.split('| ', 1)[1], None, mscript))       # no hand-written expectation: the serial model is the reference
    return serial_items(ctx, items)


def serial_items(ctx, SERIAL):
    lines = [f'rmin={RMS} rmax={2 * RMS} | {x[0]}' for x in SERIAL]
    if cl.MODEL_OK:
        mod = ctx.coq_eval(cl.REQUIRES + ['Model.SerialTask', 'Model.SerialEager'], 'eval_scase',
                           [f'{{| sk_rmin := {RMS * MS}; sk_rmax := {2 * RMS * MS}; sk_script := [{"; ".join(sevent_coq(e) for e in x[2])}] |}}' for x in SERIAL],
                           case_type='scase')
    else:
        mod = [None] * len(SERIAL)
    impl = ctx.harness('serialcycle', lines, shards=6, timeout=600)
    traces = [i.split('|')[0].split() for i in impl]
    res = ctx.coq_eval(['Base.Show', 'Spec.Lifecycle'], 'fun l : list pstate => show_bool (plegal l)',
                       ['[' + '; '.join(PCO.get(x, 'SWait ' + x[2:]) for x in t) + ']' for t in traces], case_type='list pstate')
    bad = 0
    for (sc, want, mscript), line, i, legal, m in zip(SERIAL, lines, impl, res, mod):
        why = []
        if legal != '1':
            why.append('C13.serial.illegal-port-state-path')
        if want is not None and i != want:
            why.append('C13.serial.outcome-differs-from-the-expected-one')
        if i.split('|')[-1]:
            why.append('C13.serial.' + i.split('|')[-1].replace(' ', '-'))
        if m is not None:
            mt, mc, md = m.split('|')
            it, ic, idone = i.split('|')[:3]
            if (mt, ' '.join(sorted(mc.split())), md) != (it, ic, idone.split()[0] if idone else ''):
                why.append('C13.serial.outcome-differs-from-the-serial-model')
        if why:
            bad += 1
            if bad == 1:
                ctx.violation(why[0], f'serial scenario [{line}]: {", ".join(why)}; impl={i} expected={want} model={m}',
                              {'serial': [[sc, want, [list(e) for e in mscript]]], 'impl': i, 'model': m})
    ctx.oblige('serial:real-rtu-client-task-on-a-pty', bad == 0, f'{bad} of {len(SERIAL)} scenarios')
    return len(SERIAL)


def run(ctx):
    if not cl.prepare(ctx, ['Spec.Lifecycle', 'Model.SerialTask', 'Model.SerialEager']):
        return
    e = getattr(ctx, 'gen_report', {}).get('ClientScope.v', {'ok': False, 'error': 'no such generator'})
    if not ctx.oblige('translator:ClientScope.v', e['ok'], e.get('error', '')):
        ctx.proof_broken.append(f'translator could not regenerate Gen/ClientScope.v: {e.get("error")}')
    if ctx.replay and 'tls_cases' in ctx.replay:
        from checks import c13_tls
        return c13_tls.run_tls(ctx)
    if ctx.replay and 'serial' in ctx.replay:
        serial_items(ctx, [(x[0], x[1], [tuple(e) for e in x[2]]) for x in ctx.replay['serial']])
        return
    if ctx.replay and 'loopback' in ctx.replay:
        judge_loopback(ctx, [(o, l, cl.case_from_json(j)) for o, l, j in ctx.replay['loopback']])
        return
    if ctx.replay and 'cases' in ctx.replay:
        cases = [cl.case_from_json(j) for j in ctx.replay['cases']]
    else:
        cases = gen_scripts(ctx.rng, 3000 if ctx.quick() else 20000)
    impl, model = cl.run_both(ctx, cases)
    n_mis, n_spec = cl.judge(ctx, 'C13', cases, impl, model)
    ctx.oblige('correspondence:client-task-scripts', n_mis == 0 and n_spec == 0, f'{n_mis} model / {n_spec} spec mismatches in {len(cases)} scripts')

    # Lifecycle.legal, evaluated in Coq, on the implementation's own listener traces
    traces = []
    for c, i in zip(cases, impl):
        p = cl.parse(i)
        if p:
            traces.append((c, [t.split('@')[0] for t in p['task'] if t[0] == 'l']))
    distinct = sorted(set(tuple(t) for _, t in traces))
    res = ctx.coq_eval(['Base.Show', 'Spec.Lifecycle'], 'fun l : list cstate => show_bool (legal l && shutdown_last l)',
                       ['[' + '; '.join(lstate_coq(x) for x in t) + ']' for t in distinct], case_type='list cstate', per_shard=400)
    verdict = dict(zip(distinct, res))
    bad = [(c, t) for c, t in traces if verdict[tuple(t)] != '1']
    if bad:
        c, t = bad[0]
        ctx.violation('C13.illegal-listener-path', f'script {cl.to_line(c)}: the listener observed {" ".join(t)}, which Lifecycle.legal rejects',
                      {'cases': [cl.case_json(c)], 'trace': t})
    ctx.oblige('spec:Lifecycle.legal-on-implementation-listener-traces', not bad, f'{len(bad)} illegal of {len(traces)} traces ({len(distinct)} distinct)')

    n_loop, ltraces = (0, [])
    n_serial = 0
    n_opt = 0
    if ctx.replay and 'behaviour' in ctx.replay:
        from checks import c12
        c12.judge_behaviour(ctx, [([(c[0], int(c[1:])) for c in t.split(',') if c and c != '-'], L, k, line, cl.case_from_json(j))
                                  for t, L, k, line, j in ctx.replay['behaviour']], KEYS_OPTIONS)
        return
    if not ctx.replay:
        n_opt = loopback_options(ctx)
        n_loop, ltraces = loopback(ctx, 100 if ctx.quick() else 220)
        n_serial = serial(ctx, 40 if ctx.quick() else 150)
        # TLS channels: the listener path of the real spawn_tls_client_task (lib/checks/c13_tls.py)
        from checks import c13_tls
        c13_tls.run_tls(ctx)
    classes = {}
    for c, i in zip(cases, impl):
        for k in cl.classify(c, i):
            classes[k] = classes.get(k, 0) + 1
    classes['distinct-listener-traces'] = len(distinct)
    classes['loopback-scenarios'] = n_loop
    classes['loopback-options-builder-scenarios'] = n_opt
    classes['serial-pty-scenarios'] = n_serial
    classes['loopback-distinct-listener-traces'] = len(set(tuple(t) for t in ltraces))
    for t in ltraces:
        for x in set(y[:2] for y in t):
            classes['loopback-listener:' + x] = classes.get('loopback-listener:' + x, 0) + 1
    ctx.coverage.update({
        'evaluations': len(cases) + len(distinct) + n_loop + n_serial,
        'distinct_nontrivial': len([t for t in distinct if len(t) >= 3]),
        'rule': 'event scripts biased to enable/disable/connect results/lost connections/shutdown/handle drops (directed list first); non-trivial = distinct listener traces with at least three notifications',
        'samples': [[cl.to_line(c), i] for c, i in list(zip(cases, impl))[:3]],
        'input_classes': dict(sorted(classes.items())),
        'exhaustive': False,
    })
