"""C11 - Replies are matched to requests by transaction id; no cross-talk.

Theorems (coq/theories/Properties/C11.v) about the client task model; correspondence: event scripts
interleaving matching / stale-by-k / future / duplicate / idle-time frames run on the real
ClientLoop (paused time, in-memory transport) and on the model under the eager schedule.
Thorough tier: 70 000 real requests through the in-memory transport to cross the tx-id wrap.
"""
from checks import clientlib as cl
from checks.clientlib import MS


def gen_c11(r, n):
    cases = []
    # directed: k queued requests, the peer answers with stale / future / duplicate / genuine frames
    for k in (1, 2, 3, 5):
        for pattern in ('genuine', 'stale-then-genuine', 'future-then-genuine', 'dup', 'idle-frames', 'late-reply'):
            cfg = {'cap': 16, 'handles': 1, 'mt': 0, 'rmin': 20 * MS, 'rmax': 40 * MS}
            sc = cl.connected_prefix()
            if pattern == 'idle-frames':
                sc += [('F', 0, 'g'), ('F', 7, 'e'), ('P', 0, 'g'), ('Q',)]
            for i in range(k):
                sc.append(('S', i, 'r', 10 * MS, 'fcx'[i % 3]))
            for i in range(k):
                if pattern == 'stale-then-genuine':
                    sc += [('F', (i - 1) % 65536, 'g'), ('F', (i - 2) % 65536, 'e')]
                if pattern == 'future-then-genuine':
                    sc += [('F', i + 1, 'g'), ('F', i + 300, 'b')]
                if pattern == 'late-reply':
                    sc += [('T', 10 * MS), ('F', i, 'g')]          # the reply to i arrives when i+1 is outstanding
                    continue
                sc.append(('F', i, 'geb'[i % 3]))
                if pattern == 'dup':
                    sc.append(('F', i, 'g'))
            cases.append((cfg, sc))
    while len(cases) < n:
        cfg = cl.default_cfg(r, mt=r.choice([0, 0, 0, 2]), handles=1)
        pre = cl.connected_prefix(r.choice('fx'))
        w = {'S': 6, 'F': 8, 'P': 1.5, 'Q': 6, 'T': 3, 'E': 0.3, 'D': 0.2, 'H': 0, 'A': 0.05, 'X': 0.1, 'W': 0.3, 'V': 0.2,
             'Z': 0.2, 'R': 0.2, 'G': 0.2, 'L': 0.2}
        cases.append((cfg, cl.gen_random(r, cfg, r.choice([6, 9, 12]), w, prefix=pre)))
    return cases


def run(ctx):
    if not cl.prepare(ctx):
        return
    if ctx.replay and 'cases' in ctx.replay:
        cases = [cl.case_from_json(j) for j in ctx.replay['cases']]
    else:
        cases = gen_c11(ctx.rng, 4000 if ctx.quick() else 20000)
    impl, model = cl.run_both(ctx, cases)
    n_mis, n_spec = cl.judge(ctx, 'C11', cases, impl, model)
    ctx.oblige('correspondence:client-task-scripts', n_mis == 0 and n_spec == 0, f'{n_mis} model / {n_spec} spec mismatches in {len(cases)} scripts')
    extra = 0
    if ctx.tier == 'thorough' and not ctx.replay:
        extra = wrap_run(ctx)
    classes = {}
    for c, i in zip(cases, impl):
        for k in cl.classify(c, i):
            classes[k] = classes.get(k, 0) + 1
    ctx.coverage.update({
        'evaluations': len(cases) + extra,
        'distinct_nontrivial': len(set(cl.to_line(c) for c, i in zip(cases, impl) if ' w' in i)),
        'rule': 'event scripts (directed stale/future/duplicate/idle-frame patterns, then random scripts steered towards the outstanding tx id); non-trivial = at least one request reached the wire; distinct by script text',
        'samples': [[cl.to_line(c), i] for c, i in list(zip(cases, impl))[:4]],
        'input_classes': dict(sorted(classes.items())),
        'exhaustive': False,
    })


def wrap_run(ctx, n=70000):
    """thorough tier: n real requests over one connection, every one answered with its own tx id"""
    cfg = {'cap': 4, 'handles': 1, 'mt': 0, 'rmin': 20 * MS, 'rmax': 40 * MS}
    script = cl.connected_prefix()
    for k in range(n):
        script.append(('S', k % 65536, 'r', 10 * MS, 'fcx'[k % 3]))
        if k % 1000 == 999:
            script.append(('F', (k - 1) % 65536, 'g'))       # a stale duplicate now and then
        script.append(('F', k % 65536, 'g'))
    out = ctx.harness('client', [cl.to_line((cfg, script))], timeout=1500)[0]
    p = cl.parse(out)
    wires = [t for t in p['task'] if t[0] == 'w']
    ok = len(wires) == n and len(p['comp']) == n
    for k, t in enumerate(wires):
        tx = int(t[1:t.index(':')])
        i = int(t[t.index(':') + 1:].split('@')[0])
        if tx != k % 65536 or i != k % 65536:
            ok = False
            ctx.violation('C11.tx-id-is-not-the-count-of-requests-taken', f'request number {k} was stamped {tx}',
                          {'cases': [], 'wrap_run': n, 'index': k, 'tx': tx})
            break
    if any(c[1] != 'Ok' for c in p['comp']):
        ok = False
    ctx.oblige(f'wrap-run:{n}-requests-stamped-k-mod-65536-and-answered', ok, f'{len(wires)} written, {len(p["comp"])} completed')
    return n
