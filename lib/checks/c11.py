"""C11 - Replies are matched to requests by transaction id; no cross-talk.

Theorems (coq/theories/Properties/C11.v) about the client task model; correspondence: event scripts
interleaving matching / stale-by-k / future / duplicate / idle-time frames run on the real
ClientLoop (paused time, in-memory transport) and on the model under the eager schedule.
Thorough tier: 70 000 real requests through the in-memory transport to cross the tx-id wrap.
"""
from checks import clientlib as cl
from checks.clientlib import MS


def gen_c11(r, n):
    cases = []
    # directed: k queued requests, the peer answers with stale / future / duplicate / genuine frames
    for k in (1, 2, 3, 5):
        for pattern in ('genuine', 'stale-then-genuine', 'future-then-genuine', 'dup', 'idle-frames', 'late-reply'):
            cfg = {'cap': 16, 'handles': 1, 'mt': 0, 'rmin': 20 * MS, 'rmax': 40 * MS}
            sc = cl.connected_prefix()
            if pattern == 'idle-frames':
                sc += [('F', 0, 'g'), ('F', 7, 'e'), ('P', 0, 'g'), ('Q',)]
            for i in range(k):
                sc.append(('S', i, 'r', 10 * MS, 'fcx'[i % 3]))
            for i in range(k):
                if pattern == 'stale-then-genuine':
                    sc += [('F', (i - 1) % 65536, 'g'), ('F', (i - 2) % 65536, 'e')]
                if pattern == 'future-then-genuine':
                    sc += [('F', i + 1, 'g'), ('F', i + 300, 'b')]
                if pattern == 'late-reply':
                    sc += [('T', 10 * MS), ('F', i, 'g')]          # the reply to i arrives when i+1 is outstanding
                    continue
                sc.append(('F', i, 'geb'[i % 3]))
                if pattern == 'dup':
                    sc.append(('F', i, 'g'))
            cases.append((cfg, sc))
    # a reply that is only partially received when the deadline fires: the remainder arrives late and must be consumed
    # as the rest of THAT frame; the next request then gets its own reply
    for _ in range(max(60, n // 20)):
        cfg = {'cap': r.choice([1, 4, 16]), 'handles': 1, 'mt': r.choice([0, 0, 3]), 'rmin': 20 * MS, 'rmax': 40 * MS}
        tmo = r.choice([1 * MS, 10 * MS, 1000 * MS, 1500000])
        sc = cl.connected_prefix(r.choice('fx'))
        if r.random() < 0.4:
            sc.append(('T', r.choice([1, 999999, 3 * MS])))
        sc.append(('S', 0, 'r', tmo, r.choice('fcx')))
        early = r.random() < 0.5
        if early:
            sc.append(('S', 1, 'r', 10 * MS, r.choice('fcx')))
        sc += [('T', r.choice([1, tmo // 2])), ('P', 0, r.choice('geb')), ('T', tmo + r.choice([0, 1, MS])), ('Q',)]
        if not early:
            sc.append(('S', 1, 'r', 10 * MS, r.choice('fcx')))
        sc.append(('T', r.choice([1, MS])))
        sc += [('F', 1, r.choice('ggeb'))]
        if r.random() < 0.5:
            sc += [('S', 2, 'r', 10 * MS, 'f'), ('F', 2, 'g')]
        cases.append((cfg, sc))
    # the 16-bit wrap inside a short script (hook ClientSession::set_next_tx_id): requests with ids ..65534, 65535, 0, 1.. and
    # late replies carrying the PREVIOUS id straddling the wrap (a reply to timed-out 65535 arriving when 0 is outstanding, ...)
    for tx0 in (65533, 65534, 65535):
        for pattern in ('in-order', 'late-previous', 'late-previous-then-genuine', 'dup-across'):
            cfg = {'cap': 16, 'handles': 1, 'mt': 0, 'rmin': 20 * MS, 'rmax': 40 * MS, 'tx0': tx0}
            sc = cl.connected_prefix()
            for i in range(5):
                sc.append(('S', i, 'r', 10 * MS, 'fcx'[i % 3]))
            for i in range(5):
                tx = (tx0 + i) % 65536
                prev = (tx - 1) % 65536
                if pattern == 'in-order':
                    sc.append(('F', tx, 'geb'[i % 3]))
                elif pattern == 'late-previous':
                    sc += [('T', 10 * MS), ('F', tx, 'g')]            # arrives when the NEXT request is outstanding
                elif pattern == 'late-previous-then-genuine':
                    sc += [('F', prev, 'e'), ('F', tx, 'g')]
                else:
                    sc += [('F', tx, 'g'), ('F', tx, 'b'), ('F', prev, 'g')]
            cases.append((cfg, sc))
    # RTU framing (no transaction id): the first frame delivered while a request is outstanding decides it; a late
    # reply to a timed-out request is taken as the reply to the next one
    for k in (1, 2, 3):
        for pattern in ('in-order', 'late-reply-taken-by-next', 'idle-frames', 'split'):
            cfg = {'cap': 16, 'handles': 1, 'mt': 0, 'rmin': 20 * MS, 'rmax': 40 * MS, 'rtu': 1}
            sc = cl.connected_prefix()
            if pattern == 'idle-frames':
                sc += [('F', 0, 'g'), ('P', 0, 'e'), ('Q',)]
            for i in range(k):
                sc.append(('S', i, 'r', 10 * MS, 'fcx'[i % 3]))
            for i in range(k):
                if pattern == 'late-reply-taken-by-next':
                    sc += [('T', 10 * MS), ('F', i, 'geb'[i % 3])]
                elif pattern == 'split':
                    sc += [('P', i, 'geb'[i % 3]), ('T', MS), ('Q',)]
                else:
                    sc.append(('F', i, 'geb'[i % 3]))
            cases.append((cfg, sc))
    while len(cases) < n:
        cfg = cl.default_cfg(r, mt=r.choice([0, 0, 0, 2]), handles=1)
        if r.random() < 0.25:
            cfg['rtu'] = 1
        if r.random() < 0.3:
            cfg['tx0'] = r.choice([65530, 65533, 65534, 65535, 65535])
        pre = cl.connected_prefix(r.choice('fx'))
        w = {'S': 6, 'F': 8, 'P': 1.5, 'Q': 6, 'T': 3, 'E': 0.3, 'D': 0.2, 'H': 0, 'A': 0.05, 'X': 0.1, 'W': 0.3, 'V': 0.2,
             'Z': 0.2, 'R': 0.2, 'G': 0.2, 'L': 0.2}
        cases.append((cfg, cl.gen_random(r, cfg, r.choice([6, 9, 12]), w, prefix=pre)))
    return cases


def run(ctx):
    if not cl.prepare(ctx):
        return
    if ctx.replay and 'late_partial' in ctx.replay:
        line, want = ctx.replay['late_partial'][0], ctx.replay['spec_for_second_request']
        i = ctx.harness('client', [line])[0]
        p = cl.parse(cl.canon(i))
        got = {cid: cls for cid, cls, _ in p['comp']} if p else {}
        ok = got.get(100) == 'Timeout' and got.get(200, 'Pending') == want and not [t for t in p['task'] if t[0] == 'e']
        if not ok:
            ctx.violation('C11.late-remainder-of-a-timed-out-reply-disturbs-the-next-request', f'[{line}] impl={i} spec for request 200: {want}',
                          {'late_partial': [line], 'impl': i, 'spec_for_second_request': want})
        ctx.oblige('replay:late-partial', ok, i)
        return
    if ctx.replay and 'bytes_cases' in ctx.replay:
        bytes_family(ctx, 0, ctx.replay['bytes_cases'])
        return
    if ctx.replay and 'reconnect' in ctx.replay:
        reconnect_family(ctx, 0, ctx.replay['reconnect'])
        return
    if ctx.replay and 'straddle' in ctx.replay:
        straddle_family(ctx, 0, ctx.replay['straddle'])
        return
    if ctx.replay and 'cases' in ctx.replay:
        cases = [cl.case_from_json(j) for j in ctx.replay['cases']]
    else:
        cases = gen_c11(ctx.rng, 4000 if ctx.quick() else 20000)
        large = cl.gen_large(ctx.rng)                   # large replies behind stale frames in one read chunk (shared with C10 / C12)
        cases = [c for c, _ in large] + cases
    impl, model = cl.run_both(ctx, cases)
    n_mis, n_spec = cl.judge(ctx, 'C11', cases, impl, model)
    ctx.oblige('correspondence:client-task-scripts', n_mis == 0 and n_spec == 0, f'{n_mis} model / {n_spec} spec mismatches in {len(cases)} scripts')
    if not ctx.replay:
        nexp = cl.check_expectations(ctx, 'C11.request-not-completed-by-the-frame-that-carried-its-transaction-id', large, impl[:len(large)])
        ctx.oblige('spec:directed-large-frame-expectations', nexp == 0, f'{nexp} failed of {len(large)}')
    extra = 0
    if ctx.tier == 'thorough' and not ctx.replay:
        extra = wrap_run(ctx)
    n_bytes, bytes_classes = (0, {})
    if not ctx.replay:
        n_bytes, bytes_classes = bytes_family(ctx, 1500 if ctx.quick() else 15000)
        n_late = late_partial_family(ctx, 200 if ctx.quick() else 2000)
        n_bytes += n_late
        bytes_classes['bytes:late-partial-then-next-request'] = n_late
        n_str = straddle_family(ctx, 150 if ctx.quick() else 1500)
        n_bytes += n_str
        bytes_classes['bytes:frame-straddling-a-260-byte-read'] = n_str
        n_rec = reconnect_family(ctx, 150 if ctx.quick() else 1500)
        n_bytes += n_rec
        bytes_classes['bytes:connection-ends-after-a-bare-header-then-reconnect'] = n_rec
    classes = {}
    for c, i in zip(cases, impl):
        for k in cl.classify(c, i):
            classes[k] = classes.get(k, 0) + 1
    ctx.coverage.update({
        'evaluations': len(cases) + extra + n_bytes,
        'distinct_nontrivial': len(set(cl.to_line(c) for c, i in zip(cases, impl) if ' w' in i)),
        'rule': 'event scripts (directed stale/future/duplicate/idle-frame patterns, then random scripts steered towards the outstanding tx id); non-trivial = at least one request reached the wire; distinct by script text',
        'samples': [[cl.to_line(c), i] for c, i in list(zip(cases, impl))[:4]],
        'input_classes': dict(sorted(list(classes.items()) + list(bytes_classes.items()))),
        'exhaustive': False,
    })


def wrap_run(ctx, n=70000):
    """thorough tier: n real requests over one connection, every one answered with its own tx id"""
    cfg = {'cap': 4, 'handles': 1, 'mt': 0, 'rmin': 20 * MS, 'rmax': 40 * MS}
    script = cl.connected_prefix()
    for k in range(n):
        script.append(('S', k % 65536, 'r', 10 * MS, 'fcx'[k % 3]))
        if k % 1000 == 999:
            script.append(('F', (k - 1) % 65536, 'g'))       # a stale duplicate now and then
        script.append(('F', k % 65536, 'g'))
    out = ctx.harness('client', [cl.to_line((cfg, script))], timeout=1500)[0]
    p = cl.parse(out)
    wires = [t for t in p['task'] if t[0] == 'w']
    ok = len(wires) == n and len(p['comp']) == n
    for k, t in enumerate(wires):
        tx = int(t[1:t.index(':')])
        i = int(t[t.index(':') + 1:].split('@')[0])
        if tx != k % 65536 or i != k % 65536:
            ok = False
            ctx.violation('C11.tx-id-is-not-the-count-of-requests-taken', f'request number {k} was stamped {tx}',
                          {'cases': [], 'wrap_run': n, 'index': k, 'tx': tx})
            break
    if any(c[1] != 'Ok' for c in p['comp']):
        ok = False
    ctx.oblige(f'wrap-run:{n}-requests-stamped-k-mod-65536-and-answered', ok, f'{len(wires)} written, {len(p["comp"])} completed')
    return n


# ------------------------------------------------------------------------------- end to end, at the level of bytes
def mbap(tx, pdu, unit=1, proto=0, length=None):
    ln = len(pdu) + 1 if length is None else length
    return [tx >> 8, tx & 255, proto >> 8, proto & 255, ln >> 8, ln & 255, unit] + list(pdu)


def gen_bytes_cases(r, n):
    """the first request of a connection (transaction id 0) and a peer byte stream: stale / unsolicited frames with other
    ids, then a genuine / exception / malformed reply, a header that breaks the framing rules, or a truncated frame and the
    end of the stream - cut into random non-empty read chunks"""
    cases = []
    while len(cases) < n:
        tx0 = r.choice([0, 0, 65535, 65534, 1, 40000])
        coils = r.random() < 0.4
        start = r.choice([0, 1, 16, 1000, 65530])
        count = r.choice([1, 1, 2, 3, 7, 8, 9, 16, 17]) if coils else r.choice([1, 1, 2, 3, 5])
        if start + count > 65536:
            count = 65536 - start
        fc = 1 if coils else 3
        nbytes = (count + 7) // 8 if coils else 2 * count
        stream = []
        for _ in range(r.choice([0, 0, 1, 2, 3])):                      # frames with other transaction ids
            tx = (tx0 + r.choice([1, 2, 7, 255, 256, 65535, 65534])) % 65536
            kind = r.random()
            if kind < 0.4:
                stream += mbap(tx, [fc, nbytes] + [r.randrange(256) for _ in range(nbytes)])
            elif kind < 0.6:
                stream += mbap(tx, [fc | 0x80, r.randrange(1, 12)])
            else:
                stream += mbap(tx, [r.randrange(256) for _ in range(r.choice([0, 1, 2, 5, 20]))])
        decisive = r.choice(['genuine', 'genuine', 'genuine-odd-bytecount', 'exception', 'exception', 'exception-trailing', 'wrong-fc',
                             'too-short', 'too-long', 'empty-pdu', 'bad-proto', 'len-zero', 'len-big', 'truncated', 'none'])
        fin = 'P'
        if decisive == 'genuine':
            stream += mbap(tx0, [fc, nbytes] + [r.randrange(256) for _ in range(nbytes)])
        elif decisive == 'genuine-odd-bytecount':
            stream += mbap(tx0, [fc, r.randrange(256)] + [r.randrange(256) for _ in range(nbytes)])
        elif decisive == 'exception':
            stream += mbap(tx0, [fc | 0x80, r.choice([1, 2, 3, 4, 5, 6, 8, 10, 11, 0, 7, 200])])
        elif decisive == 'exception-trailing':
            stream += mbap(tx0, [fc | 0x80, 2, 0])
        elif decisive == 'wrong-fc':
            stream += mbap(tx0, [r.choice([2, 4, 5, 16, 0x84]), nbytes] + [0] * nbytes)
        elif decisive == 'too-short':
            stream += mbap(tx0, [fc, nbytes] + [0] * (nbytes - 1))
        elif decisive == 'too-long':
            stream += mbap(tx0, [fc, nbytes] + [0] * (nbytes + 1))
        elif decisive == 'empty-pdu':
            stream += mbap(tx0, [])
        elif decisive == 'bad-proto':
            stream += mbap(tx0, [fc, nbytes] + [0] * nbytes, proto=r.choice([1, 5, 256]))
        elif decisive == 'len-zero':
            stream += mbap(tx0, [], length=0)
        elif decisive == 'len-big':
            stream += mbap(tx0, [fc], length=r.choice([255, 300, 65535]))
        elif decisive == 'truncated':
            full = mbap(tx0, [fc, nbytes] + [0] * nbytes)
            stream += full[:r.randrange(1, len(full))]
            fin = r.choice('PZR')
        else:
            fin = r.choice('PZR')
        if decisive not in ('truncated', 'none') and r.random() < 0.3:     # whatever follows the decisive frame
            stream += r.choice([mbap(tx0, [fc, nbytes] + [1] * nbytes), mbap((tx0 + 3) % 65536, [1, 2, 3]), [0, 0, 0, 9], mbap(tx0, [fc | 0x80, 4])])
            if r.random() < 0.3:
                fin = r.choice('PZR')
        if not stream and fin == 'P':
            continue
        chunks = []
        i = 0
        mode = r.choice(['one', 'bytes', 'random', 'random', 'headers'])
        while i < len(stream):
            k = {'one': len(stream), 'bytes': 1, 'headers': r.choice([6, 7, 1, 8])}.get(mode) or r.randrange(1, 12)
            chunks.append(stream[i:i + k])
            i += k
        cases.append({'coils': coils, 'start': start, 'count': count, 'chunks': chunks, 'fin': fin, 'decisive': decisive, 'tx0': tx0})
    return cases


def bytes_line(c):
    kind = ('c' if c['coils'] else 'h') + str(c['count'])
    steps = ['E:f', 'CO', f'S:{c["start"]}:{kind}:1000000000:f'] + ['B:' + ''.join('%02X' % b for b in ch) for ch in c['chunks']]
    if c['fin'] != 'P':
        steps.append(c['fin'])
    return f'cap=4 handles=1 mt=0 rmin=20000000 rmax=40000000{" tx0=" + str(c["tx0"]) if c.get("tx0") else ""} | ' + ' '.join(steps)


def bytes_coq(c):
    req = ('RReadCoils' if c['coils'] else 'RReadHoldingRegisters') + f' ({c["start"]}, {c["count"]})'
    fin = {'P': 'FinPending', 'Z': 'FinEof', 'R': 'FinErr'}[c['fin']]
    chunks = '[' + '; '.join('[' + ';'.join(str(b) for b in ch) + ']' for ch in c['chunks']) + ']'
    return f'{{| y_req := Base.ClientTypes.{req}; y_tx0 := {c.get("tx0", 0)}; y_chunks := {chunks}; y_fin := Base.Frame.{fin} |}}'


def late_partial_family(ctx, n):
    """byte level: reply 0 is half received when the deadline of request 0 fires; its remainder - crafted to look like a
    complete frame for the NEXT transaction id carrying 0xBEEF - arrives late; then request 1 is sent and answered.
    Spec for request 1: the first frame with transaction id 1 that the MBAP length fields cut from the WHOLE stream of the
    connection (Spec ref_client_result evaluated in Coq on the concatenated bytes)."""
    r = ctx.rng
    lines, terms, wants, sess = [], [], [], []
    for _ in range(n):
        tx0 = r.choice([0, 0, 65535, 65535, 65534, 12345])
        tx1 = (tx0 + 1) % 65536
        fake = mbap(tx1, [3, 2, 0xBE, 0xEF])                                  # 11 bytes that look like a reply to tx 1
        pad = [r.randrange(256) for _ in range(r.choice([1, 3, 5]))]
        data0 = pad + fake                                                    # register data of reply 0 (even length)
        n0 = len(data0) // 2
        reply0 = mbap(tx0, [3, len(data0)] + data0)
        cut = len(reply0) - len(fake) - r.choice([0, 0, 1])                   # usually exactly in front of the fake header
        val = [r.randrange(256), r.randrange(256)]
        kind1 = r.choice(['genuine', 'genuine', 'exception', 'silent'])
        reply1 = mbap(tx1, [3, 2] + val) if kind1 == 'genuine' else mbap(tx1, [0x83, 2]) if kind1 == 'exception' else []
        tmo = r.choice([2, 10, 1000]) * MS
        hexs = lambda b: ''.join('%02X' % x for x in b)
        steps = ['E:f', 'CO', f'S:100:h{n0}:{tmo}:f', f'T:{tmo // 2}', 'B:' + hexs(reply0[:cut]), f'T:{tmo}', 'B:' + hexs(reply0[cut:]),
                 'S:200:h1:1000000000:f']
        i = 0
        while i < len(reply1):
            k = r.randrange(1, 8)
            steps.append('B:' + hexs(reply1[i:i + k]))
            i += k
        lines.append(f'cap=4 handles=1 mt=0 rmin=20000000 rmax=40000000{" tx0=" + str(tx0) if tx0 else ""} | ' + ' '.join(steps))
        stream = reply0 + reply1
        terms.append(f'(Base.ClientTypes.RReadHoldingRegisters (200, 1), {tx1}, [{";".join(str(b) for b in stream)}], Base.Frame.FinPending)')
        nl = lambda b: '[' + ';'.join(str(x) for x in b) + ']'
        ch1 = [reply0[cut:]] + [bytes.fromhex(x[2:]) for x in steps[8:]]
        sess.append(f'({tx0}, [(Base.ClientTypes.RReadHoldingRegisters (100, {n0}), [{nl(reply0[:cut])}]); (Base.ClientTypes.RReadHoldingRegisters (200, 1), [{"; ".join(nl(list(c)) for c in ch1 if len(c))}])])')
    impl = ctx.harness('client', lines, shards=4)
    ctx.build_models(['Spec.SystemClientShow'])
    spec = ctx.coq_eval(['Spec.SystemClientShow', 'Base.ClientTypes', 'Base.Frame'], 'eval_spec', terms,
                        case_type='Base.ClientTypes.request * N * list N * Base.Frame.fin')
    # the same two exchanges through the composed model `client_session` (one reader for the connection) and its Spec
    msess = [None] * len(lines)
    if cl.MODEL_OK and ctx.build_models(['Model.SystemClientEval']):
        msess = ctx.coq_eval(['Model.SystemClientEval', 'Base.ClientTypes'], 'eval_session', sess, case_type='N * list (Base.ClientTypes.request * list (list N))')
    bad = 0
    for line, i, want, ms in zip(lines, impl, spec, msess):
        p = cl.parse(cl.canon(i))
        got = {cid: cls for cid, cls, _ in p['comp']} if p else {}
        ended = [t for t in (p['task'] if p else []) if t[0] == 'e']
        r0, r1 = got.get(100), got.get(200, 'Pending')
        model_ok = ms is None or (ms.split('|')[0] == ms.split('|')[1] and ms.split('|')[0].split() == ['Pending', want])
        if r0 != 'Timeout' or r1 != want or ended or not model_ok:
            bad += 1
            if bad == 1:
                ctx.violation('C11.late-remainder-of-a-timed-out-reply-disturbs-the-next-request',
                              f'[{line}]: request 100 must time out and request 200 (the next transaction id) must see {want} (Spec: first frame with that id in the whole stream), the connection must stay up; '
                              f'the client reports 100 -> {r0}, 200 -> {r1}, session ends {ended}; client_session|ref_session = {ms}; impl={i}',
                              {'late_partial': [line], 'impl': i, 'spec_for_second_request': want})
    ctx.oblige('correspondence:late-remainder-then-next-request-vs-spec-on-the-whole-stream', bad == 0, f'{bad} of {len(lines)}')
    return len(lines)


def gen_straddle(r, n):
    """one read chunk of EXACTLY 260 bytes (the receive buffer) = [frames with the NEXT transaction id][the reply to the
    outstanding request 100][the first k bytes of a frame L with a FOREIGN transaction id]; the rest of L and the genuine
    reply arrive while the next request (200) is outstanding.  Spec: a request completes only with the payload of a frame
    whose transaction id is its own - request 100 with R0's values, request 200 with its own reply, never with L's or the
    early frame's payload."""
    out = []
    hexs = lambda b: ''.join('%02X' % x for x in b)
    regs = lambda vals: [3, 2 * len(vals)] + [b for v in vals for b in (v >> 8, v & 255)]
    show = lambda start, vals: 'Ok=' + ','.join(f'{start + j}:{v}' for j, v in enumerate(vals))
    while len(out) < n:
        tx0 = r.choice([0, 0, 1, 65535, 65534, 12345])
        tx1 = (tx0 + 1) % 65536
        foreign = r.choice([0x7777, (tx1 + 1) % 65536, (tx0 - 1) % 65536, 0xFFFF ^ tx1])
        if foreign in (tx0, tx1):
            continue
        k = r.choice([2, 2, 3, 4, 5, 6])                                       # bytes of L's header inside the first chunk
        n0 = r.choice([60, 60, 40, 20])
        v0 = [r.randrange(65536) for _ in range(n0)]
        r0 = mbap(tx0, regs(v0))
        # frames with the next id in front: one exception frame when k is odd (parity), then a register frame that fills the chunk
        early = mbap(tx1, [0x83, r.choice([1, 2, 3, 4])]) if k % 2 else []
        fill = 260 - k - len(r0) - len(early) - 9
        if fill < 0 or fill % 2:
            continue
        early = mbap(tx1, regs([0xF1F1] * (fill // 2))) + early if r.random() < 0.5 else early + mbap(tx1, regs([0xF1F1] * (fill // 2)))
        lf = mbap(foreign, regs([0xDEAD, 0xBEEF]))
        chunk = early + r0 + lf[:k]
        assert len(chunk) == 260
        n1 = 2
        kind1 = r.choice(['genuine', 'genuine', 'genuine', 'exception', 'silent'])
        v1 = [0x1111, 0x2222]
        reply1 = mbap(tx1, regs(v1)) if kind1 == 'genuine' else mbap(tx1, [0x83, 2]) if kind1 == 'exception' else []
        tmo = 1000 * MS
        steps = ['E:f', 'CO', f'S:100:h{n0}:{tmo}:f', 'B:' + hexs(chunk), f'S:200:h{n1}:{5 * MS}:f']
        rest = lf[k:] + reply1
        chunks1 = []
        i = 0
        mode = r.choice(['one', 'split', 'random'])
        while i < len(rest):
            j = len(rest) if mode == 'one' else (len(lf) - k if (mode == 'split' and i == 0) else r.randrange(1, 9))
            chunks1.append(rest[i:i + j])
            i += j
        steps += ['B:' + hexs(c) for c in chunks1]
        if kind1 == 'silent':
            steps.append(f'T:{5 * MS}')
        line = f'cap=4 handles=1 mt=0 rmin=20000000 rmax=40000000{" tx0=" + str(tx0) if tx0 else ""} | ' + ' '.join(steps)
        want = {100: show(100, v0), 200: show(200, v1) if kind1 == 'genuine' else 'Exception=2' if kind1 == 'exception' else 'Timeout'}
        nl = lambda b: '[' + ';'.join(str(x) for x in b) + ']'
        sess = (f'({tx0}, [(Base.ClientTypes.RReadHoldingRegisters (100, {n0}), [{nl(chunk)}]); '
                f'(Base.ClientTypes.RReadHoldingRegisters (200, {n1}), [{"; ".join(nl(c) for c in chunks1)}])])')
        out.append({'line': line, 'want': {str(a): b for a, b in want.items()}, 'sess': sess if kind1 != 'silent' else None, 'k': k, 'kind1': kind1})
    return out


def straddle_family(ctx, n, items=None):
    items = items or gen_straddle(ctx.rng, n)
    impl = ctx.harness('client', [it['line'] for it in items], shards=4)
    msess = {}
    with_sess = [j for j, it in enumerate(items) if it.get('sess')]
    if cl.MODEL_OK and with_sess and ctx.build_models(['Model.SystemClientEval']):
        res = ctx.coq_eval(['Model.SystemClientEval', 'Base.ClientTypes'], 'eval_session', [items[j]['sess'] for j in with_sess],
                           case_type='N * list (Base.ClientTypes.request * list (list N))')
        msess = dict(zip(with_sess, res))
    bad = 0
    for j, (it, i) in enumerate(zip(items, impl)):
        p = cl.parse(cl.canon(i))
        got = {str(cid): cls for cid, cls, _ in p['comp']} if p else {}
        ended = [t for t in (p['task'] if p else []) if t[0] == 'e']
        ms = msess.get(j)
        why = []
        if got != it['want'] or ended:
            why.append('C11.request-completed-with-the-payload-of-a-frame-that-carried-another-transaction-id'
                       if any(g.startswith('Ok=') and g != it['want'].get(a) for a, g in got.items()) else 'C11.request-not-completed-by-the-frame-that-carried-its-transaction-id')
        if ms is not None:
            m, sp = ms.split('|')
            if sp.split() != [it['want']['100'], it['want']['200']]:
                why.append('spec-evaluation-differs-from-the-expectation-by-construction')
            elif m != sp:
                why.append('model-differs-from-spec')
        if why:
            bad += 1
            if bad == 1:
                ctx.violation(why[0], f'[{it["line"]}]: one 260-byte read = frames with the next id, the reply to request 100, the first {it["k"]} bytes of a frame with a foreign id; '
                              f'required {it["want"]}, the client reports {got}, session ends {ended}; client_session|ref_session = {ms}; impl={i}',
                              {'straddle': [it], 'impl': i}, no_failing_input=not why[0].startswith('C11.'))
    ctx.oblige('correspondence:frame-straddling-the-end-of-the-receive-buffer-vs-spec', bad == 0, f'{bad} of {len(items)}')
    return len(items)


def gen_reconnect(r, n):
    """connection k ends after EXACTLY the 7 header bytes of a frame (not one body byte), the channel reconnects, then traffic on
    connection k+1.  Spec: every connection's bytes are cut into frames separately - nothing of connection k is part of a
    frame of connection k+1; the first request on the new connection completes only with the payload of a frame that
    carried ITS transaction id on THAT connection."""
    out = []
    hexs = lambda b: ''.join('%02X' % x for x in b)
    directed = [(length, same, end, idle) for length in (2, 3, 5, 7, 125, 254) for same in (True, False) for end in ('Z', 'R', 'DE') for idle in (True, False) if idle or end != 'DE']
    r.shuffle(directed)
    while len(out) < n:
        length, same, end, idle = directed.pop() if directed else (r.choice([2, 3, 4, 5, 9, 60, 254]), r.random() < 0.6, r.choice(['Z', 'R', 'DE']), r.random() < 0.5)
        tx0 = r.choice([0, 0, 1, 65534, 65535, 4660])
        nreq = 1 if idle else 0                   # requests taken on connection k before the next connection's first request
        # idle: request 100 is answered, THEN the header arrives with nothing outstanding; else: the header is all request 100 gets
        txn = (tx0 + 1) % 65536                   # id of the first request on the next connection
        htx = txn if same else r.choice([(txn + 1) % 65536, tx0, 0x0302, (txn + 255) % 65536])
        if not same and htx == txn:
            htx = (txn + 2) % 65536
        header = [htx >> 8, htx & 255, 0, 0, length >> 8, length & 255, 1]
        v0, v1 = r.randrange(65536), 0xBEEF
        steps = ['E:f', 'CO', 'S:100:h1:1000000000:f']
        want = {}
        if idle:
            steps.append('B:' + hexs(mbap(tx0, [3, 2, v0 >> 8, v0 & 255])))
            want['100'] = f'Ok=100:{v0}'
        steps.append('B:' + hexs(header))
        if end == 'DE':
            steps += ['D:f', 'E:f']
            if not idle:
                want['100'] = 'Timeout'       # a disable waits for the transaction: left out (request 100 then needs its deadline)
                continue
        else:
            steps += [end, 'T:20000000']
            if not idle:
                want['100'] = 'Io'
        steps += ['CO', 'S:200:h1:1000000000:f']
        # the new connection: possibly a frame nobody asked for first, then the genuine reply (or an exception)
        stream2 = []
        if r.random() < 0.6:
            ftx = r.choice([0x0302, (txn + 7) % 65536, tx0])
            if ftx != txn:
                stream2 += mbap(ftx, [3, 2, 0xDE, 0xAD])
        kind = r.choice(['genuine', 'genuine', 'genuine', 'exception'])
        stream2 += mbap(txn, [3, 2, v1 >> 8, v1 & 255]) if kind == 'genuine' else mbap(txn, [0x83, 4])
        want['200'] = f'Ok=200:{v1}' if kind == 'genuine' else 'Exception=4'
        i = 0
        mode = r.choice(['one', 'random', 'bytes'])
        while i < len(stream2):
            j = len(stream2) if mode == 'one' else 1 if mode == 'bytes' else r.randrange(1, 9)
            steps.append('B:' + hexs(stream2[i:i + j]))
            i += j
        line = f'cap=4 handles=1 mt=0 rmin=20000000 rmax=40000000{" tx0=" + str(tx0) if tx0 else ""} | ' + ' '.join(steps)
        spec = f'(Base.ClientTypes.RReadHoldingRegisters (200, 1), {txn}, [{";".join(str(b) for b in stream2)}], Base.Frame.FinPending)'
        out.append({'line': line, 'want': want, 'spec': spec, 'header_len': length, 'same_id': same, 'end': end, 'idle': idle})
    return out


def reconnect_family(ctx, n, items=None):
    items = items or gen_reconnect(ctx.rng, n)
    impl = ctx.harness('client', [it['line'] for it in items], shards=4)
    ctx.build_models(['Spec.SystemClientShow'])
    spec = ctx.coq_eval(['Spec.SystemClientShow', 'Base.ClientTypes', 'Base.Frame'], 'eval_spec', [it['spec'] for it in items],
                        case_type='Base.ClientTypes.request * N * list N * Base.Frame.fin')
    bad = 0
    seen = set()
    for it, i, sp in zip(items, impl, spec):
        p = cl.parse(cl.canon(i))
        got = {str(cid): cls for cid, cls, _ in p['comp']} if p else {}
        why = []
        if sp != it['want']['200']:
            why.append('spec-evaluation-differs-from-the-expectation-by-construction')
        if got != it['want']:
            g2 = got.get('200', '')
            why.insert(0, 'C11.request-completed-with-bytes-of-a-frame-header-left-over-from-the-previous-connection'
                       if (g2.startswith('Ok=') or g2.startswith('Exception=')) and g2 != it['want']['200']
                       else 'C11.request-on-a-new-connection-not-completed-by-the-frame-that-carried-its-id-on-that-connection')
        if why:
            bad += 1
            if why[0] not in seen:
                seen.add(why[0])
                ctx.violation(why[0], f'[{it["line"]}]: the previous connection ended after exactly the 7 header bytes of a frame (length field {it["header_len"]}, '
                              f'{"the id of the next request" if it["same_id"] else "another id"}); required {it["want"]} (Spec on the new connection\'s bytes alone: {sp}), '
                              f'the client reports {got}; impl={i}', {'reconnect': [it], 'impl': i}, no_failing_input=not why[0].startswith('C11.'))
    ctx.oblige('correspondence:header-only-end-of-a-connection-then-the-next-connection-vs-spec', bad == 0, f'{bad} of {len(items)}')
    return len(items)


def bytes_family(ctx, n, cases=None):
    """the real client fed with byte-level chunked replies vs `client_system` (reader o task o handle_response) and its
    Spec `ref_client_result`, both evaluated in Coq"""
    cases = cases or gen_bytes_cases(ctx.rng, n)
    impl = ctx.harness('client', [bytes_line(c) for c in cases], shards=8)
    if cl.MODEL_OK and ctx.build_models(['Model.SystemClientEval']):
        both = ctx.coq_eval(['Model.SystemClientEval', 'Base.ClientTypes', 'Base.Frame'], 'eval_syscase', [bytes_coq(c) for c in cases], case_type='syscase', per_shard=200)
    else:
        # the model is unavailable: judge the implementation against the oracle alone
        ctx.build_models(['Spec.SystemClientShow'])
        fins = {'P': 'FinPending', 'Z': 'FinEof', 'R': 'FinErr'}
        only = ctx.coq_eval(['Spec.SystemClientShow', 'Base.ClientTypes', 'Base.Frame'], 'eval_spec',
                            [f'(Base.ClientTypes.{"RReadCoils" if c["coils"] else "RReadHoldingRegisters"} ({c["start"]}, {c["count"]}), {c.get("tx0", 0)}, '
                             f'[{";".join(str(b) for ch in c["chunks"] for b in ch)}], Base.Frame.{fins[c["fin"]]})' for c in cases],
                            case_type='Base.ClientTypes.request * N * list N * Base.Frame.fin', per_shard=200)
        both = [x + '|' + x for x in only]
    bad = 0
    classes = {}
    for c, i, b in zip(cases, impl, both):
        p = cl.parse(cl.canon(i))
        got = 'Pending'
        if p:
            for cid, cls, _t in p['comp']:
                if cid == c['start']:
                    got = cls
        else:
            got = 'PANIC'
        classes['bytes:' + c['decisive']] = classes.get('bytes:' + c['decisive'], 0) + 1
        classes['bytes-result:' + got.split('=')[0]] = classes.get('bytes-result:' + got.split('=')[0], 0) + 1
        if b is None:
            continue
        model, spec = b.split('|')
        if got != spec or got != model:
            bad += 1
            if bad == 1:
                key = 'C04-C05-C11.end-to-end-result-differs-from-the-spec' if got != spec else 'model-differs-from-impl'
                ctx.violation(key, f'request {"coils" if c["coils"] else "holding registers"} ({c["start"]},{c["count"]}) with tx id 0, peer bytes in chunks {[bytes(x).hex() for x in c["chunks"]]} then {c["fin"]}: '
                              f'the client reports {got}, Spec ref_client_result says {spec}, client_system says {model} [{bytes_line(c)}]',
                              {'bytes_cases': [c], 'impl': i, 'spec': spec, 'model': model}, no_failing_input=(got == spec))
    ctx.oblige('correspondence:byte-level-replies-vs-client_system-and-its-spec', bad == 0, f'{bad} of {len(cases)}')
    return len(cases), classes
