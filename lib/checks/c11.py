"""C11 - Replies are matched to requests by transaction id; no cross-talk.

Theorems (coq/theories/Properties/C11.v) about the client task model; correspondence: event scripts
interleaving matching / stale-by-k / future / duplicate / idle-time frames run on the real
ClientLoop (paused time, in-memory transport) and on the model under the eager schedule.
Thorough tier: 70 000 real requests through the in-memory transport to cross the tx-id wrap.
"""
from checks import clientlib as cl
from checks.clientlib import MS


def gen_c11(r, n):
    cases = []
    # directed: k queued requests, the peer answers with stale / future / duplicate / genuine frames
    for k in (1, 2, 3, 5):
        for pattern in ('genuine', 'stale-then-genuine', 'future-then-genuine', 'dup', 'idle-frames', 'late-reply'):
            cfg = {'cap': 16, 'handles': 1, 'mt': 0, 'rmin': 20 * MS, 'rmax': 40 * MS}
            sc = cl.connected_prefix()
            if pattern == 'idle-frames':
                sc += [('F', 0, 'g'), ('F', 7, 'e'), ('P', 0, 'g'), ('Q',)]
            for i in range(k):
                sc.append(('S', i, 'r', 10 * MS, 'fcx'[i % 3]))
            for i in range(k):
                if pattern == 'stale-then-genuine':
                    sc += [('F', (i - 1) % 65536, 'g'), ('F', (i - 2) % 65536, 'e')]
                if pattern == 'future-then-genuine':
                    sc += [('F', i + 1, 'g'), ('F', i + 300, 'b')]
                if pattern == 'late-reply':
                    sc += [('T', 10 * MS), ('F', i, 'g')]          # the reply to i arrives when i+1 is outstanding
                    continue
                sc.append(('F', i, 'geb'[i % 3]))
                if pattern == 'dup':
                    sc.append(('F', i, 'g'))
            cases.append((cfg, sc))
    while len(cases) < n:
        cfg = cl.default_cfg(r, mt=r.choice([0, 0, 0, 2]), handles=1)
        pre = cl.connected_prefix(r.choice('fx'))
        w = {'S': 6, 'F': 8, 'P': 1.5, 'Q': 6, 'T': 3, 'E': 0.3, 'D': 0.2, 'H': 0, 'A': 0.05, 'X': 0.1, 'W': 0.3, 'V': 0.2,
             'Z': 0.2, 'R': 0.2, 'G': 0.2, 'L': 0.2}
        cases.append((cfg, cl.gen_random(r, cfg, r.choice([6, 9, 12]), w, prefix=pre)))
    return cases


def run(ctx):
    if not cl.prepare(ctx):
        return
    if ctx.replay and 'bytes_cases' in ctx.replay:
        bytes_family(ctx, 0, ctx.replay['bytes_cases'])
        return
    if ctx.replay and 'cases' in ctx.replay:
        cases = [cl.case_from_json(j) for j in ctx.replay['cases']]
    else:
        cases = gen_c11(ctx.rng, 4000 if ctx.quick() else 20000)
    impl, model = cl.run_both(ctx, cases)
    n_mis, n_spec = cl.judge(ctx, 'C11', cases, impl, model)
    ctx.oblige('correspondence:client-task-scripts', n_mis == 0 and n_spec == 0, f'{n_mis} model / {n_spec} spec mismatches in {len(cases)} scripts')
    extra = 0
    if ctx.tier == 'thorough' and not ctx.replay:
        extra = wrap_run(ctx)
    n_bytes, bytes_classes = (0, {})
    if not ctx.replay:
        n_bytes, bytes_classes = bytes_family(ctx, 1500 if ctx.quick() else 15000)
    classes = {}
    for c, i in zip(cases, impl):
        for k in cl.classify(c, i):
            classes[k] = classes.get(k, 0) + 1
    ctx.coverage.update({
        'evaluations': len(cases) + extra + n_bytes,
        'distinct_nontrivial': len(set(cl.to_line(c) for c, i in zip(cases, impl) if ' w' in i)),
        'rule': 'event scripts (directed stale/future/duplicate/idle-frame patterns, then random scripts steered towards the outstanding tx id); non-trivial = at least one request reached the wire; distinct by script text',
        'samples': [[cl.to_line(c), i] for c, i in list(zip(cases, impl))[:4]],
        'input_classes': dict(sorted(list(classes.items()) + list(bytes_classes.items()))),
        'exhaustive': False,
    })


def wrap_run(ctx, n=70000):
    """thorough tier: n real requests over one connection, every one answered with its own tx id"""
    cfg = {'cap': 4, 'handles': 1, 'mt': 0, 'rmin': 20 * MS, 'rmax': 40 * MS}
    script = cl.connected_prefix()
    for k in range(n):
        script.append(('S', k % 65536, 'r', 10 * MS, 'fcx'[k % 3]))
        if k % 1000 == 999:
            script.append(('F', (k - 1) % 65536, 'g'))       # a stale duplicate now and then
        script.append(('F', k % 65536, 'g'))
    out = ctx.harness('client', [cl.to_line((cfg, script))], timeout=1500)[0]
    p = cl.parse(out)
    wires = [t for t in p['task'] if t[0] == 'w']
    ok = len(wires) == n and len(p['comp']) == n
    for k, t in enumerate(wires):
        tx = int(t[1:t.index(':')])
        i = int(t[t.index(':') + 1:].split('@')[0])
        if tx != k % 65536 or i != k % 65536:
            ok = False
            ctx.violation('C11.tx-id-is-not-the-count-of-requests-taken', f'request number {k} was stamped {tx}',
                          {'cases': [], 'wrap_run': n, 'index': k, 'tx': tx})
            break
    if any(c[1] != 'Ok' for c in p['comp']):
        ok = False
    ctx.oblige(f'wrap-run:{n}-requests-stamped-k-mod-65536-and-answered', ok, f'{len(wires)} written, {len(p["comp"])} completed')
    return n


# ------------------------------------------------------------------------------- end to end, at the level of bytes
def mbap(tx, pdu, unit=1, proto=0, length=None):
    ln = len(pdu) + 1 if length is None else length
    return [tx >> 8, tx & 255, proto >> 8, proto & 255, ln >> 8, ln & 255, unit] + list(pdu)


def gen_bytes_cases(r, n):
    """the first request of a connection (transaction id 0) and a peer byte stream: stale / unsolicited frames with other
    ids, then a genuine / exception / malformed reply, a header that breaks the framing rules, or a truncated frame and the
    end of the stream - cut into random non-empty read chunks"""
    cases = []
    while len(cases) < n:
        coils = r.random() < 0.4
        start = r.choice([0, 1, 16, 1000, 65530])
        count = r.choice([1, 1, 2, 3, 7, 8, 9, 16, 17]) if coils else r.choice([1, 1, 2, 3, 5])
        if start + count > 65536:
            count = 65536 - start
        fc = 1 if coils else 3
        nbytes = (count + 7) // 8 if coils else 2 * count
        stream = []
        for _ in range(r.choice([0, 0, 1, 2, 3])):                      # frames with other transaction ids
            tx = r.choice([1, 2, 7, 255, 256, 65535])
            kind = r.random()
            if kind < 0.4:
                stream += mbap(tx, [fc, nbytes] + [r.randrange(256) for _ in range(nbytes)])
            elif kind < 0.6:
                stream += mbap(tx, [fc | 0x80, r.randrange(1, 12)])
            else:
                stream += mbap(tx, [r.randrange(256) for _ in range(r.choice([0, 1, 2, 5, 20]))])
        decisive = r.choice(['genuine', 'genuine', 'genuine-odd-bytecount', 'exception', 'exception', 'exception-trailing', 'wrong-fc',
                             'too-short', 'too-long', 'empty-pdu', 'bad-proto', 'len-zero', 'len-big', 'truncated', 'none'])
        fin = 'P'
        if decisive == 'genuine':
            stream += mbap(0, [fc, nbytes] + [r.randrange(256) for _ in range(nbytes)])
        elif decisive == 'genuine-odd-bytecount':
            stream += mbap(0, [fc, r.randrange(256)] + [r.randrange(256) for _ in range(nbytes)])
        elif decisive == 'exception':
            stream += mbap(0, [fc | 0x80, r.choice([1, 2, 3, 4, 5, 6, 8, 10, 11, 0, 7, 200])])
        elif decisive == 'exception-trailing':
            stream += mbap(0, [fc | 0x80, 2, 0])
        elif decisive == 'wrong-fc':
            stream += mbap(0, [r.choice([2, 4, 5, 16, 0x84]), nbytes] + [0] * nbytes)
        elif decisive == 'too-short':
            stream += mbap(0, [fc, nbytes] + [0] * (nbytes - 1))
        elif decisive == 'too-long':
            stream += mbap(0, [fc, nbytes] + [0] * (nbytes + 1))
        elif decisive == 'empty-pdu':
            stream += mbap(0, [])
        elif decisive == 'bad-proto':
            stream += mbap(0, [fc, nbytes] + [0] * nbytes, proto=r.choice([1, 5, 256]))
        elif decisive == 'len-zero':
            stream += mbap(0, [], length=0)
        elif decisive == 'len-big':
            stream += mbap(0, [fc], length=r.choice([255, 300, 65535]))
        elif decisive == 'truncated':
            full = mbap(0, [fc, nbytes] + [0] * nbytes)
            stream += full[:r.randrange(1, len(full))]
            fin = r.choice('PZR')
        else:
            fin = r.choice('PZR')
        if decisive not in ('truncated', 'none') and r.random() < 0.3:     # whatever follows the decisive frame
            stream += r.choice([mbap(0, [fc, nbytes] + [1] * nbytes), mbap(3, [1, 2, 3]), [0, 0, 0, 9], mbap(0, [fc | 0x80, 4])])
            if r.random() < 0.3:
                fin = r.choice('PZR')
        if not stream and fin == 'P':
            continue
        chunks = []
        i = 0
        mode = r.choice(['one', 'bytes', 'random', 'random', 'headers'])
        while i < len(stream):
            k = {'one': len(stream), 'bytes': 1, 'headers': r.choice([6, 7, 1, 8])}.get(mode) or r.randrange(1, 12)
            chunks.append(stream[i:i + k])
            i += k
        cases.append({'coils': coils, 'start': start, 'count': count, 'chunks': chunks, 'fin': fin, 'decisive': decisive})
    return cases


def bytes_line(c):
    kind = ('c' if c['coils'] else 'h') + str(c['count'])
    steps = ['E:f', 'CO', f'S:{c["start"]}:{kind}:1000000000:f'] + ['B:' + ''.join('%02X' % b for b in ch) for ch in c['chunks']]
    if c['fin'] != 'P':
        steps.append(c['fin'])
    return 'cap=4 handles=1 mt=0 rmin=20000000 rmax=40000000 | ' + ' '.join(steps)


def bytes_coq(c):
    req = ('RReadCoils' if c['coils'] else 'RReadHoldingRegisters') + f' ({c["start"]}, {c["count"]})'
    fin = {'P': 'FinPending', 'Z': 'FinEof', 'R': 'FinErr'}[c['fin']]
    chunks = '[' + '; '.join('[' + ';'.join(str(b) for b in ch) + ']' for ch in c['chunks']) + ']'
    return f'{{| y_req := Base.ClientTypes.{req}; y_chunks := {chunks}; y_fin := Base.Frame.{fin} |}}'


def bytes_family(ctx, n, cases=None):
    """the real client fed with byte-level chunked replies vs `client_system` (reader o task o handle_response) and its
    Spec `ref_client_result`, both evaluated in Coq"""
    cases = cases or gen_bytes_cases(ctx.rng, n)
    impl = ctx.harness('client', [bytes_line(c) for c in cases], shards=8)
    if cl.MODEL_OK and ctx.build_models(['Model.SystemClientEval']):
        both = ctx.coq_eval(['Model.SystemClientEval', 'Base.ClientTypes', 'Base.Frame'], 'eval_syscase', [bytes_coq(c) for c in cases], case_type='syscase', per_shard=200)
    else:
        both = [None] * len(cases)
    bad = 0
    classes = {}
    for c, i, b in zip(cases, impl, both):
        p = cl.parse(cl.canon(i))
        got = 'Pending'
        if p:
            for cid, cls, _t in p['comp']:
                if cid == c['start']:
                    got = cls
        else:
            got = 'PANIC'
        classes['bytes:' + c['decisive']] = classes.get('bytes:' + c['decisive'], 0) + 1
        classes['bytes-result:' + got.split('=')[0]] = classes.get('bytes-result:' + got.split('=')[0], 0) + 1
        if b is None:
            continue
        model, spec = b.split('|')
        if got != spec or got != model:
            bad += 1
            if bad == 1:
                key = 'C04-C05-C11.end-to-end-result-differs-from-the-spec' if got != spec else 'model-differs-from-impl'
                ctx.violation(key, f'request {"coils" if c["coils"] else "holding registers"} ({c["start"]},{c["count"]}) with tx id 0, peer bytes in chunks {[bytes(x).hex() for x in c["chunks"]]} then {c["fin"]}: '
                              f'the client reports {got}, Spec ref_client_result says {spec}, client_system says {model} [{bytes_line(c)}]',
                              {'bytes_cases': [c], 'impl': i, 'spec': spec, 'model': model}, no_failing_input=(got == spec))
    ctx.oblige('correspondence:byte-level-replies-vs-client_system-and-its-spec', bad == 0, f'{bad} of {len(cases)}')
    return len(cases), classes
