"""C05 - MBAP framing is segmentation-independent and rejects malformed headers.

Theorems (coq/theories/Properties/C05.v): for every byte stream and every chunk schedule the
reader model (ReadBuffer + MbapParser + next_frame loop) delivers exactly the frames / terminal
error of the Spec `ref_frames` (cut by the length field only); malformed headers end the run
exactly there; no byte lost or re-read (invariant); a waiting parser always leaves room in the
buffer; the client resets the reader at every connection start.
Correspondence: the production FramedReader of the repo over the scripted transport vs. the model
(every case) and vs. the Spec (every stop-mode case), both evaluated inside Coq; plus the
production ClientLoop over two or three consecutive connections (finding F5).
"""
import vlib
from checks import framing_common as fc


def gen_cases(ctx, n_streams):
    r = ctx.rng
    cases, tags = [], []
    # directed: the crate's own vectors and the 1.5.0 buffer-shift class
    big = fc.mbap(2, 9, bytes(range(253)))
    directed = [
        [bytes.fromhex('000700'), bytes.fromhex('0000042A01CA'), bytes.fromhex('FE000800000001'), bytes.fromhex('09'), bytes.fromhex('0009')],
        [fc.mbap(1, 1, b'\x05') + big[:252], big[252:] + fc.mbap(3, 3, b'\x01\x02')],
        [fc.mbap(1, 1, b'') + big[:253], big[253:]],
        [fc.mbap(1, 1, b'') + big[:253], big[253:254], big[254:]],
        [fc.mbap(1, 1, b'') + big[:100], big[100:253], big[253:] + fc.mbap(5, 5, b'\x09')],
        [b'\x00' * 260, b'\x00' * 7],
        [fc.mbap(7, 1, b'\x03', proto=5)],
        [fc.mbap(7, 1, b'\x03', length=0)],
        [fc.mbap(7, 1, b'', length=255)],
        [fc.mbap(7, 1, bytes(253), length=254)],
        [fc.mbap(7, 1, b'', length=65535)],
        [bytes.fromhex('0001'), b'', bytes.fromhex('00000002')],
        [],
    ]
    for line in fc.load_corpus('C05', 'reader.txt'):
        cases.append(fc.case_from_line(line))
        tags.append(({'corpus'}, 'corpus'))
    for d in directed:
        for fin in ['eof', 'pending', 'err']:
            for mode in ['stop', 'cancel']:
                cases.append(('tcp', mode, fin, d))
                tags.append(({'directed'}, 'directed'))
    for _ in range(n_streams):
        s, bounds, t = fc.gen_mbap_stream(r)
        for sched_tag, chunks in fc.schedules(r, s, bounds, want=3 if len(s) < 400 else 2):
            fin = r.choice(['eof', 'pending', 'err'])
            k = r.random()
            mode = 'resume' if k < 0.15 else 'cancel' if k < 0.40 else 'stop'
            cases.append(('tcp', mode, fin, chunks))
            tags.append((t, sched_tag))
    return cases, tags


# ---------------------------------------------------------------- the client over several connections (F5)
def gen_client_cases(ctx, n):
    """each case: list of connections; a connection = (chunks, fin). On each connection the client
    has one read-holding-registers(unit 1, start 0, count 1) request in flight (tx id = index of
    the connection); the stream is what the server sends back."""
    r = ctx.rng
    reply = lambda tx, v=0x1234: fc.mbap(tx, 1, bytes([3, 2, v >> 8, v & 255]))
    exc = lambda tx, code=2: fc.mbap(tx, 1, bytes([0x83, code]))
    cases = [
        # the F5 history: connection 1 dies after 9 of 11 reply bytes, connection 2 gets a correct reply
        [([reply(0)[:9]], 'eof'), ([reply(1)], 'pending')],
        [([reply(0)[:3]], 'eof'), ([reply(1)], 'pending')],
        [([reply(0)[:7]], 'err'), ([reply(1)], 'pending'), ([exc(2)], 'pending')],
        [([reply(0)], 'eof'), ([reply(1)], 'eof')],
    ]
    for line in fc.load_corpus('C05', 'client.txt'):
        conns = []
        for conn in line.split('/'):
            parts = conn.split()
            conns.append(([bytes.fromhex(x) for x in parts[1:]], parts[0]))
        cases.append(conns)
    while len(cases) < n:
        conns = []
        for k in range(r.choice([1, 2, 2, 2, 3])):
            parts = []
            if r.random() < 0.3:
                parts.append(fc.mbap(r.choice([k + 1, 999, 65535]), 1, bytes([3, 2, 0, 1])))   # stale / foreign tx id first
            kind = r.random()
            if kind < 0.5:
                parts.append(reply(k, r.randrange(65536)))
            elif kind < 0.65:
                parts.append(exc(k, r.choice([1, 2, 3, 4, 6])))
            elif kind < 0.8:
                parts.append(fc.mbap(k, 1, bytes([3, 2, 0, 1]), proto=r.randrange(1, 65536)))
            elif kind < 0.9:
                parts.append(fc.mbap(k, 1, b'', length=r.choice([0, 255, 65535])))
            else:
                parts.append(b'')
            s = b''.join(parts)
            last = k == 2 or r.random() < 0.3
            if r.random() < 0.5 and len(s) > 1:
                s = s[:r.randrange(1, len(s))]                      # connection dies mid-frame
                fin = r.choice(['eof', 'err'])
            else:
                fin = r.choice(['eof', 'err', 'pending'])
            cuts = [r.randrange(1, max(2, len(s))) for _ in range(r.choice([0, 1, 2]))]
            conns.append((fc.split_at(s, cuts), fin))
        cases.append(conns)
    return cases


# ---------------------------------------------------------------- several exchanges on one connection
def gen_exchange_cases(ctx, n):
    """a case = list of connections; a connection = (phases, fin); a phase = (kind, chunks): kind 'req' = the chunks
    arrive while the request of that exchange is in flight (one read-holding-registers per exchange; transaction ids
    count up over the whole case), kind 'idle' = they arrive while nothing is in flight. Bytes never get lost between
    exchanges, and a malformed header (protocol id <> 0, length 0, length > 254) ENDS the connection, in flight or
    idle: whatever follows it - more bytes, more requests - is not interpreted (the later exchanges never run)."""
    r = ctx.rng
    reply = lambda tx, v: fc.mbap(tx, 1, bytes([3, 2, v >> 8, v & 255]))
    # the three kinds of malformed header; behind a too-long one the bytes it announced, laid out as a reply to the NEXT request
    bad = {'proto': lambda tx: fc.mbap(tx, 1, b'', proto=5), 'len0': lambda tx: fc.mbap(tx, 1, b'', length=0),
           'len255': lambda tx: fc.mbap(tx, 1, b'', length=255), 'len256': lambda tx: fc.mbap(tx, 1, b'', length=256), 'len65535': lambda tx: fc.mbap(tx, 1, b'', length=65535)}
    cases = [
        [([('req', [reply(0, 7)[:9]]), ('req', [reply(0, 7)[9:] + reply(1, 9)])], 'pending')],            # timeout mid-reply, then the late rest + the next reply
        [([('req', [reply(0, 7)[:3]]), ('req', [reply(0, 7)[3:8]]), ('req', [reply(0, 7)[8:], reply(2, 5)])], 'pending')],
        [([('req', [reply(0, 1)]), ('req', [reply(1, 2)]), ('req', [reply(2, 3)])], 'eof')],
    ]
    for kind in bad:                                   # in flight, then traffic that would answer the next request; and idle
        cases.append([([('req', [bad[kind](0)]), ('req', [reply(1, 0xBEEF)]), ('req', [reply(2, 3)])], 'pending')])
        cases.append([([('idle', [bad[kind](0)]), ('req', [reply(0, 0xBEEF)])], 'pending')])
        cases.append([([('req', [reply(0, 1)]), ('idle', [bad[kind](9)[:4], bad[kind](9)[4:]]), ('req', [reply(1, 2)]), ('req', [reply(2, 3)])], 'pending')])
    while len(cases) < n:
        tx = 0
        conns = []
        for _ in range(r.choice([1, 1, 2])):
            phases, carry, dead = [], b'', False
            for _ in range(r.choice([2, 2, 3, 4])):
                k = r.random()
                kind = 'req'
                body = carry
                carry = b''
                if dead:                                           # traffic behind a malformed header: must not be interpreted
                    body += reply(tx, 0xBEEF) if r.random() < 0.7 else bytes(r.randrange(256) for _ in range(r.randrange(1, 20)))
                elif k < 0.30:
                    body += reply(tx, r.randrange(65536))
                elif k < 0.50:                                     # only part of the reply makes it before the timeout
                    f = reply(tx, r.randrange(65536))
                    cut = r.randrange(1, len(f))
                    body += f[:cut]
                    carry = f[cut:]
                elif k < 0.62:                                     # a stale frame first
                    body += reply(r.choice([tx + 5, 65535]), 1) + reply(tx, r.randrange(65536))
                elif k < 0.70:
                    body += fc.mbap(tx, 1, bytes([0x83, r.choice([1, 2, 3, 4])]))
                elif k < 0.76:
                    pass                                           # nothing arrives
                elif k < 0.82:                                     # unsolicited frames while idle
                    kind = 'idle'
                    body += reply(r.choice([tx, 999]), 4)
                else:
                    kind = r.choice(['req', 'idle'])
                    body += bad[r.choice(list(bad))](tx)
                    dead = True
                cuts = [r.randrange(1, max(2, len(body))) for _ in range(r.choice([0, 1, 2]))]
                phases.append((kind, fc.split_at(body, cuts)))
                tx += 1 if kind == 'req' else 0
            conns.append((phases, r.choice(['pending', 'pending', 'eof', 'err'])))
        cases.append(conns)
    return cases


def exch_line(case):
    return ' / '.join(fin + ' ' + ' | '.join(' '.join((['idle'] if k == 'idle' else []) + [c.hex() for c in ph]) for k, ph in phases) for phases, fin in case)


def exch_coq(case):
    return '[' + ';'.join('([%s], %s)' % (';'.join(vlib.coq_N_list(c) for k, ph in phases for c in ph), fc.FIN[fin]) for phases, fin in case) + ']'


def expected_exchanges(case, spec_str):
    """per connection and exchange: what the request must end as, from the frames the Spec cuts out of that
    connection's stream and the exchange during which each of them becomes complete. The connection ends at the
    first malformed header (during whichever exchange its seventh byte arrives): later exchanges never run."""
    out, tx = [], 0
    for (phases, fin), conn in zip(case, spec_str.split(' / ')):
        frames, pos, err_at = [], 0, None
        for it in conn.split(' '):
            if it.startswith('F('):
                t, dest, bc, payload = it[2:-1].split(',')
                pos += 7 + len(payload) // 2
                frames.append((int(t), bytes.fromhex(payload), pos))
            elif it.startswith('BadFrame'):
                err_at = pos + 7
        res, lo, dead = [], 0, False
        for j, (kind, ph) in enumerate(phases):
            hi = lo + sum(len(c) for c in ph)
            if dead:
                res.append('NotRun')
                continue
            here = [f for f in frames if lo < f[2] <= hi]
            bad_here = err_at is not None and lo < err_at <= hi
            last = j + 1 == len(phases)
            if kind == 'idle':
                res.append('Idle')
                dead = bad_here or (last and fin != 'pending')
                lo = hi
                continue
            r = None
            for idx, (t, p, _) in enumerate(here):
                if t == tx:
                    r = ('Ok(%d)' % (p[2] * 256 + p[3]) if len(p) == 4 and p[0] == 3 and p[1] == 2 else
                         'Exception(%d)' % p[1] if len(p) == 2 and p[0] == 0x83 else 'BadResponse')
                    if idx + 1 < len(here) or bad_here:
                        return None                       # something complete behind the reply: who reads it is a race, not judged
                    break
            if r is None:
                if bad_here:
                    r, dead = 'BadFrame', True
                elif last and fin != 'pending':
                    r, dead = 'Io', True
                else:
                    r = 'Timeout'
            elif last and fin != 'pending':
                dead = True
            res.append(r)
            tx += 1
            lo = hi
        out.append(','.join(res))
    return ' / '.join(out)


def run_exchanges(ctx, cases):
    impl = ctx.harness('client_conns', [exch_line(c) for c in cases], shards=8)
    both = fc.coq_pairs(ctx, 'client', [exch_coq(c) for c in cases], 'list (list (list N) * fin)')
    bad = skipped = 0
    for c, i, (_, spec) in zip(cases, impl, both):
        want = expected_exchanges(c, spec)
        if want is None:
            skipped += 1
            continue
        if i != want:
            bad += 1
            if bad == 1:
                ctx.violation('client.exchange-results-differ-from-spec',
                              f'client, several exchanges on one connection `{exch_line(c)[:220]}`: request results {i}; the connection\'s stream, cut by the length '
                              f'fields only, prescribes {want} (frames: {spec[:160]}) - bytes received during an earlier exchange lost or re-read?',
                              {'cases': [{'exchanges': [[[[k, [x.hex() for x in ph]] for k, ph in phases], fin] for phases, fin in c]}], 'impl': i, 'expected': want,
                               'spec_frames': spec, 'harness_line': 'client_conns: ' + exch_line(c)})
    return bad, skipped, impl


def client_line(conns):
    return ' / '.join(' '.join([fin] + [c.hex() for c in chunks]) for chunks, fin in conns)


def client_coq(conns):
    return '[' + ';'.join('([%s], %s)' % (';'.join(vlib.coq_N_list(c) for c in chunks), fc.FIN[fin]) for chunks, fin in conns) + ']'


def expected_client_results(spec_str):
    """what each connection's request must end as, from the frames the Spec prescribes for that
    connection: frames with another tx id are skipped, the first frame with the right tx id is
    the response; if the stream ends before that, the ending decides."""
    out = []
    for k, conn in enumerate(spec_str.split(' / ')):
        items = conn.split(' ')
        res = None
        for it in items:
            if it.startswith('F('):
                tx, dest, bc, payload = it[2:-1].split(',')
                if int(tx) != k:
                    continue
                p = bytes.fromhex(payload)
                if len(p) == 4 and p[0] == 3 and p[1] == 2:
                    res = 'Ok(%d)' % (p[2] * 256 + p[3])
                elif len(p) == 2 and p[0] == 0x83:
                    res = 'Exception(%d)' % p[1]
                else:
                    res = 'BadResponse'
                break
            elif it.startswith('BadFrame'):
                res = 'BadFrame'
            elif it.startswith('Io('):
                res = 'Io'
            elif it == 'Pending':
                res = 'Timeout'
        out.append(res or '?')
    return ' / '.join(out)


def run_client(ctx, cases):
    impl = ctx.harness('client_conns', [client_line(c) for c in cases], shards=8)
    both = fc.coq_pairs(ctx, 'client', [client_coq(c) for c in cases], 'list (list (list N) * fin)')
    bad = 0
    for c, i, (model, spec) in zip(cases, impl, both):
        want_spec = expected_client_results(spec)
        want_model = expected_client_results(model) if model is not None else want_spec
        if i != want_spec:
            bad += 1
            if bad == 1:
                def fails(cs):
                    ii = ctx.harness('client_conns', [client_line(x) for x in cs])
                    bb = fc.coq_pairs(ctx, 'client', [client_coq(x) for x in cs], 'list (list (list N) * fin)')
                    return [a != expected_client_results(y[1]) for a, y in zip(ii, bb)]

                def cands(x):
                    for k in range(len(x)):
                        if len(x) > 1:
                            yield x[:k] + x[k + 1:]
                        chunks, fin = x[k]
                        if len(chunks) > 1:
                            yield x[:k] + [([b''.join(chunks)], fin)] + x[k + 1:]
                small = vlib.shrink_batch(c, fails, cands)
                i2 = ctx.harness('client_conns', [client_line(small)])[0]
                b2 = '|' + fc.coq_pairs(ctx, 'client', [client_coq(small)], 'list (list (list N) * fin)')[0][1]
                ctx.violation('client.connection-results-differ-from-spec',
                              f'client over {len(small)} consecutive connections: request results {i2} but each connection\'s own stream prescribes {expected_client_results(b2.partition("|")[2])} '
                              '(bytes or parser state of an earlier connection leak into a later one?)',
                              {'cases': [{'client': [[[x.hex() for x in ch], fin] for ch, fin in small]}], 'impl': i2, 'spec_frames': b2.partition('|')[2],
                               'expected': expected_client_results(b2.partition('|')[2]), 'harness_line': 'client_conns: ' + client_line(small)})
        elif want_spec != want_model:
            bad += 1
            ctx.violation('client.model-differs-from-spec', f'{client_line(c)}: model {model} spec {spec}',
                          {'cases': [{'client': [[[x.hex() for x in ch], fin] for ch, fin in c]}]}, no_failing_input=True)
    return bad, impl


def run(ctx):
    ctx.translate(['Consts.v', 'RtuLengths.v', 'ParserShape.v', 'ClientFatal.v'])
    models_ok = ctx.build_models(['Base.Show', 'Base.Frame', 'Model.Reader', 'Spec.Framing', 'Model.FramingEval'])
    ctx.prove()
    if ctx.tier == 'thorough':
        ctx.coqchk()
    if not ctx.build_harness():
        return
    fc.MODE['models'] = models_ok
    if not models_ok:
        # a Gen table could not be regenerated / a model file does not compile: the implementation is still judged
        # against the Spec alone (Spec/SpecEval.v imports no Gen file and no model), so a violation keeps its replay
        if not ctx.build_models(['Spec.SpecEval']):
            return
        ctx.notes.append('model not evaluable: correspondence families judged against the Spec only')
    client_cases = None
    server_replay = None
    exchange_cases = None
    if ctx.replay and 'cases' in ctx.replay:
        cs = ctx.replay['cases']
        client_cases = [[([bytes.fromhex(x) for x in ch], fin) for ch, fin in c['client']] for c in cs if isinstance(c, dict) and 'client' in c]
        server_replay = [fc.case_from_json(c['server']) for c in cs if isinstance(c, dict) and 'server' in c]
        exchange_cases = [[([(k, [bytes.fromhex(x) for x in ph]) for k, ph in phases], fin) for phases, fin in c['exchanges']] for c in cs if isinstance(c, dict) and 'exchanges' in c]
        cases = [fc.case_from_json(c) for c in cs if not isinstance(c, dict)]
        tags = [(set(), 'replay')] * len(cases)
    else:
        cases, tags = gen_cases(ctx, 700 if ctx.quick() else 6000)
    decode = (ctx.replay or {}).get('decode', 'min')
    results = fc.evaluate(ctx, cases, decode)
    n_spec, n_model = fc.compare(ctx, cases, results, 'MBAP reader', decode)
    ctx.oblige('correspondence:framed-reader-tcp', n_spec == 0 and n_model == 0, f'{n_model} model / {n_spec} spec mismatches over {len(cases)} cases')
    # the same cases with full protocol decoding switched on: judged against the Spec again (a difference is a
    # concrete violation: at that decode level the reader accepts / rejects something the stream does not prescribe)
    if not ctx.replay:
        sample = cases[:400]
        loud = fc.evaluate_impl_only(ctx, sample, 'max')
        res_max = [(i, r[1], r[2], {}) for i, r in zip(loud, results[:400])]
        ns, nm = fc.compare(ctx, sample, res_max, 'MBAP reader', 'max')
        ctx.oblige('decode-level-does-not-change-framing', ns == 0 and nm == 0, f'{ns} spec / {nm} model mismatches at decode level max over {len(sample)} cases')
    # client, consecutive connections
    if client_cases is None:
        client_cases = gen_client_cases(ctx, 300 if ctx.quick() else 3000)
    bad, client_impl = (0, [])
    if client_cases:
        bad, client_impl = run_client(ctx, client_cases)
        ctx.oblige('correspondence:client-reader-fresh-on-every-connection', bad == 0, f'{bad} mismatches over {len(client_cases)} multi-connection histories')
        if not ctx.replay:
            loud = ctx.harness('client_conns', [client_line(c) for c in client_cases[:100]], args=['--decode', 'max'], shards=4)
            diff = [k for k, (a, b) in enumerate(zip(loud, client_impl[:100])) if a != b]
            ctx.oblige('decode-level-does-not-change-client-results', not diff, f'{len(diff)} of {len(loud)} differ' + (f'; first: {client_line(client_cases[diff[0]])[:160]}' if diff else ''))
    # client role, several exchanges on one connection (timeouts in between): nothing received is lost or re-read
    if exchange_cases is None:
        exchange_cases = gen_exchange_cases(ctx, 300 if ctx.quick() else 3000)
    bad_x, skipped_x, exch_impl = run_exchanges(ctx, exchange_cases) if exchange_cases else (0, 0, [])
    if exchange_cases:
        ctx.oblige('correspondence:client-exchanges-on-one-connection', bad_x == 0, f'{bad_x} mismatches over {len(exchange_cases)} histories ({skipped_x} not judged)')
    # server role: the production SessionTask over the same streams; the session must end as the Spec says and
    # everything it does (handler calls, replies) must be the same for every chunking of the same stream
    n_srv = 0
    if not ctx.replay or server_replay:
        srv_cases = server_replay or [c for c in cases if c[1] == 'stop'][:(900 if ctx.quick() else 9000)]
        srv_specs = {fc.to_line(c): r[2] for c, r in zip(cases, results)} if not server_replay else {}
        if server_replay:
            for c, r in zip(srv_cases, fc.evaluate(ctx, srv_cases)):
                srv_specs[fc.to_line(c)] = r[2]
        srv = ctx.harness('server_session', [' '.join(['tcp', c[2]] + [(x.hex() if x else '-') for x in c[3]]) for c in srv_cases], shards=8)
        by_stream, bad_srv = {}, 0
        for c, line in zip(srv_cases, srv):
            f = dict(kv.split('=', 1) for kv in line.split(' ')) if line not in ('PANIC', 'SPIN') else {'calls': '-1', 'replies': '-', 'end': line}
            spec = srv_specs[fc.to_line(c)]
            has_empty = any(len(x) == 0 for x in c[3])
            key = (b''.join(c[3]), c[2]) if not has_empty else None
            first = by_stream.setdefault(key, (c, line)) if key else (c, line)
            if f['end'] != spec.split(' ')[-1] or (spec.count('F(') == 0 and (f['calls'] != '0' or f['replies'] != '-')) or first[1] != line:
                bad_srv += 1
                if bad_srv == 1:
                    other = '' if first[1] == line else f' but {first[1][:120]} when the same bytes arrive as `{fc.to_line(first[0])[:120]}`'
                    ctx.violation('tcp-server.session-depends-on-chunking' if other else 'tcp-server.session-differs-from-spec',
                                  f'server session on `{fc.to_line(c)[:160]}`: {line[:160]}{other}; the stream prescribes {spec[:120]}',
                                  {'cases': [{'server': fc.case_to_json(c)}] + ([{'server': fc.case_to_json(first[0])}] if other else []), 'impl': line, 'spec': spec})
        n_srv = len(srv_cases)
        if not ctx.replay:
            loud = ctx.harness('server_session', [' '.join(['tcp', c[2]] + [(x.hex() if x else '-') for x in c[3]]) for c in srv_cases[:150]], args=['--decode', 'max'], shards=4)
            diff = [k for k, (a, b) in enumerate(zip(loud, srv[:150])) if a != b]
            ctx.oblige('decode-level-does-not-change-server-session', not diff, f'{len(diff)} of {len(loud)} differ' + (f'; first: {fc.to_line(srv_cases[diff[0]])[:160]}' if diff else ''))
        ctx.oblige('correspondence:tcp-server-session-chunking-independent', bad_srv == 0,
                   f'{bad_srv} mismatches over {n_srv} sessions / {len(by_stream)} distinct streams')
    # measured input classes
    classes = {}
    def bump(k, n=1):
        classes[k] = classes.get(k, 0) + n
    for c, (t, sched), (impl, model, spec, stats) in zip(cases, tags, results):
        bump('schedule:' + sched)
        for x in t:
            bump('stream:' + x)
        bump('ending:' + fc.ending_class(impl))
        bump('mode:' + c[1])
        if c[1] == 'cancel' and len(c[3]) >= 2 and 'F(' in impl:
            bump('cancel:abandoned_mid_frame')       # a frame was delivered although calls were abandoned while it was arriving
        nfr = impl.count('F(')
        bump('frames:' + ('0' if nfr == 0 else '1' if nfr == 1 else '2-4' if nfr <= 4 else '5+'))
        if stats.get('compactions', 0) > 0:
            bump('buffer:compacted')
        if 0 < stats.get('min_compaction', 0) <= 14:
            bump('buffer:full_with_14_consumed')          # the fewest the MBAP parser can have consumed when it is stuck at end == capacity: a 7-byte frame + a header
        if stats.get('resets', 0) > 0:
            bump('buffer:reset_when_empty')
        if sum(len(x) for x in c[3]) > fc.CAP:
            bump('stream:longer_than_buffer')
        if any(len(x) == 1 for x in c[3]):
            bump('schedule:has_1_byte_read')
    for c, i in zip(exchange_cases, exch_impl):
        if 'Timeout,Ok' in i:
            bump('client:ok_after_timeout_on_same_connection')
        if 'BadFrame,NotRun' in i:
            bump('client:malformed_header_in_flight_then_more_traffic')
        if 'Idle,NotRun' in i:
            bump('client:malformed_header_while_idle_then_more_traffic')
        bump('client:exchanges=%d' % min(4, sum(len(ph) for ph, _ in c)))
    for conns, i in zip(client_cases, client_impl):
        bump('client:connections=%d' % len(conns))
        if len(conns) > 1 and conns[0][1] != 'pending' and 0 < sum(len(x) for x in conns[0][0]) and 'Ok' in i.split(' / ')[-1]:
            bump('client:ok_after_dead_connection')
    if not ctx.replay:
        need = ['ending:UnknownProtocolId', 'ending:FrameLengthTooBig', 'ending:MbapLengthZero', 'ending:Io(UnexpectedEof)', 'ending:Pending',
                'buffer:compacted', 'buffer:full_with_14_consumed', 'buffer:reset_when_empty', 'schedule:byte_per_byte', 'schedule:buffer_edge', 'stream:longer_than_buffer',
                'client:ok_after_dead_connection', 'client:ok_after_timeout_on_same_connection', 'client:malformed_header_in_flight_then_more_traffic', 'client:malformed_header_while_idle_then_more_traffic', 'mode:resume', 'mode:cancel', 'cancel:abandoned_mid_frame']
        missing = [k for k in need if classes.get(k, 0) < 3]
        ctx.oblige('generator-reaches-expected-classes', not missing, 'missing: ' + ','.join(missing))
    nontrivial = set(fc.to_line(c) for c, (impl, _, _, _) in zip(cases, results) if len(c[3]) >= 2 and 'F(' in impl)
    ctx.coverage.update({
        'evaluations': len(cases) + len(client_cases) + len(exchange_cases) + n_srv,
        'distinct_nontrivial': len(nontrivial) + len(set(client_line(c) for c in client_cases if len(c) > 1)),
        'rule': 'reader cases (framing, stop/resume, ending, chunk list) from a seeded PRNG: directed list first, then concatenations of valid/invalid MBAP frames '
                'x schedules (all-at-once, byte-per-byte, boundary splits, fixed/random sizes, buffer-edge); non-trivial = at least two reads and at least one frame delivered; '
                'client cases = histories of 1-3 connections; non-trivial = more than one connection; server sessions = the stop-mode cases again through the production SessionTask; distinct by value',
        'samples': [fc.to_line(c)[:160] + ' => ' + r[0][:120] for c, r in list(zip(cases, results))[11:15]] + [client_line(c) + ' => ' + i for c, i in list(zip(client_cases, client_impl))[:2]],
        'input_classes': dict(sorted(classes.items())),
        'exhaustive': False,
    })
