(* Oracle for the RTU client as a whole (one request outstanding on one serial connection), written
   from the property texts C04 / C06: cut the connection's byte stream into frames by the RTU rule
   for RESPONSES (address, PDU whose length follows from function code / byte count, CRC-16 low
   byte first; Spec/Framing.v ref_rtu_frames). There is no transaction id on a serial line, so the
   FIRST frame the stream yields decides: the genuine reply gives its value, the well-formed
   exception reply its code, anything else is a bad reply. If the stream breaks the framing rules
   first - unknown function code, over-long frame, CRC that does not verify - or ends / falls
   silent before a complete frame, that is the outcome. The address byte of the reply is NOT
   compared with the unit the request was sent to (recorded observation: the client does not
   check it; the Spec says what the code does so that the theorem states it).
   Imports only the two layer oracles and the verdict vocabulary of Spec/SystemClientSpec.v. *)
From Coq Require Import NArith List Bool.
From Rodbus Require Base.Frame Base.ClientTypes Spec.Framing Spec.SystemClientSpec.
Import ListNotations.
Module F := Rodbus.Base.Frame.
Module CT := Rodbus.Base.ClientTypes.
Module SS := Rodbus.Spec.SystemClientSpec.

(* request r is in flight; s is everything the line delivers before r's deadline, fi how the
   stream behaves after s *)
Definition ref_client_result_rtu (r : CT.request) (s : list N) (fi : F.fin) : SS.verdict :=
  let '(fs, e) := Framing.ref_rtu_frames Framing.Responses s fi in
  match fs with
  | f :: _ => SS.ref_reply_verdict r (F.f_pdu f)
  | [] => SS.ref_end_verdict e
  end.
