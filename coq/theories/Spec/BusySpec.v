(* Oracle for C15 with sessions inside a slow application handler, written from the property text on top of
   Spec/TrackerSpec.v: a session that is inside a request handler is still a session (it counts towards max_sessions,
   it is the oldest when it is the oldest); level changes, new connections, requests on other sessions and shutdown
   are served at once, however many commands are sent and whatever that handler does; a session that is closed by
   the server (eviction, shutdown, dropped handle) while its handler has not returned keeps nothing but its socket,
   which closes when the handler returns; the parked request of a session that is still served is answered then.
   Only the alphabet `sop` is shared with the model. *)
From Coq Require Import NArith List Bool Arith.
From Rodbus Require Import Model.Tracker Spec.TrackerSpec.
Import ListNotations.
Local Open Scope N_scope.

Record bsstate := { core : sstate; parked : list N }.
Definition bsinit : bsstate := {| core := sinit; parked := [] |}.
Definition is_in (k : N) (l : list N) : bool := existsb (N.eqb k) l.

Definition bsstep (m : nat) (s : bsstate) (o : sop) : bsstate * list (N * bool) :=
  match o with
  | Release => ({| core := core s; parked := [] |}, map (fun k => (k, is_in k (served (core s)))) (rev (parked s)))
  | Park k =>
      (if TrackerSpec.up (core s) && is_in k (served (core s)) && negb (is_in k (parked s))
       then {| core := core s; parked := k :: parked s |} else s, [])
  | ClientClose k | Garbage k =>
      ({| core := sstep m (core s) o; parked := filter (fun j => negb (j =? k)) (parked s) |}, [])     (* the peer itself closed that socket *)
  | _ => ({| core := sstep m (core s) o; parked := parked s |}, [])
  end.

Definition bsview (s : bsstate) (a : list (N * bool)) : list N * bool * N * list (N * bool) :=
  (filter (fun k => is_in k (served (core s)) || is_in k (parked s)) (map N.of_nat (seq 0 (N.to_nat (accepted (core s))))),
   TrackerSpec.up (core s), value (core s), a).

Fixpoint bstrace (m : nat) (s : bsstate) (ops : list sop) : list (list N * bool * N * list (N * bool)) :=
  match ops with
  | [] => []
  | o :: r => let '(s1, a) := bsstep m s o in bsview s1 a :: bstrace m s1 r
  end.
