(* Spec for C11 / C12, written from the property text.  Definitions only; no dependency on the
   model or on Gen. *)
From Coq Require Import NArith List Bool.
Import ListNotations.
Local Open Scope N_scope.

(* ---- C11: the k-th request taken from the queue (k = 0, 1, 2, ...) carries transaction id k mod 2^16 ---- *)
Definition txid_spec (k : N) : N := k mod 65536.

(* `a` is a subsequence of `b` (order preserved): used for "transmitted in submission order" *)
Inductive Subseq {A} : list A -> list A -> Prop :=
| sub_nil : forall l, Subseq [] l
| sub_take : forall x a l, Subseq a l -> Subseq (x :: a) (x :: l)
| sub_skip : forall x a l, Subseq a l -> Subseq a (x :: l).

(* ---- C12: consecutive-timeout limit ---- *)
(* what a finished request means for the limit: only a response timeout counts *)
Inductive outcome := Timeout | Success | Exception | BadReply.
Definition is_timeout (o : outcome) : bool := match o with Timeout => true | _ => false end.

(* 0-based index of the request at which the connection is dropped, if any, for limit m >= 1:
   the first position that completes a run of m timeouts in a row; `seen` = length of the run of
   timeouts immediately before the list (0 at the start of a connection). *)
Fixpoint drop_index (m seen : N) (os : list outcome) : option nat :=
  match os with
  | [] => None
  | o :: r =>
      if is_timeout o then
        if m <=? seen + 1 then Some O else option_map S (drop_index m (seen + 1) r)
      else option_map S (drop_index m 0 r)
  end.

(* without a limit the connection is never dropped because of timeouts *)
Definition drop_index_opt (limit : option N) (os : list outcome) : option nat :=
  match limit with None => None | Some m => drop_index m 0 os end.

(* ---- C12: the instant a timer with resolution `res` fires for a deadline: the first multiple
   of `res` at or after the deadline (res = 1: the deadline itself; tokio's timer wheel: 1 ms) ---- *)
Definition fires_at (res deadline : N) : N :=
  if res =? 0 then deadline else ((deadline + res - 1) / res) * res.
