(* Oracle for C14, written from the property text: after the k-th consecutive failed connect the
   wait is min * 2^(k-1) capped at max, after a lost connection it is min, and the sequence
   restarts at min after any successful connection (reset). *)
From Coq Require Import NArith List.
From Rodbus Require Import Model.Retry.
Import ListNotations.
Local Open Scope N_scope.

(* k = number of consecutive failed connects so far (so the next one is the (k+1)-th) *)
Definition delay_spec (mn mx : N) (k : nat) : N := N.min (mn * 2 ^ N.of_nat k) mx.

Fixpoint spec (mn mx : N) (k : nat) (ops : list op) : list (option N) :=
  match ops with
  | [] => []
  | Reset :: r => None :: spec mn mx 0 r
  | Disc :: r => Some mn :: spec mn mx k r
  | Fail :: r => Some (delay_spec mn mx k) :: spec mn mx (S k) r
  end.
