(* Oracle for C19, written from the property text:
     "The C-ABI point database behaves as one map per point type: add succeeds only for absent
      indices, update and delete only for present ones, get fails for absent ones, and a client
      read touching an absent point is answered with exception 02."
   The state is a partial function per point type.  Depends only on the shared op/result types. *)
From Coq Require Import NArith List Bool.
From Rodbus Require Import Model.DbTypes.
Import ListNotations.
Local Open Scope N_scope.

Definition spec_state := ptype -> N -> option value.

Definition spec_empty : spec_state := fun _ _ => None.

(* s[t, i := o] *)
Definition spec_set (s : spec_state) (t : ptype) (i : N) (o : option value) : spec_state :=
  fun t' i' => if ptype_eqb t t' && N.eqb i i' then o else s t' i'.

Definition present (o : option value) : bool := match o with Some _ => true | None => false end.
Definition values (cells : list (option value)) : list value :=
  flat_map (fun o => match o with Some v => [v] | None => [] end) cells.

(* the points start, start+1, ..., start+count-1 of one type: all present ? their values : exception 02 *)
Definition spec_read (f : N -> option value) (start : N) (count : nat) : list value + N :=
  let cells := map (fun k => f (start + N.of_nat k)) (seq 0 count) in
  if forallb present cells then inl (values cells) else inr 2.

Definition spec_exec (s : spec_state) (o : op) : spec_state * result :=
  match o with
  | Add t i v => if present (s t i) then (s, RBool false) else (spec_set s t i (Some v), RBool true)
  | Update t i v => if present (s t i) then (spec_set s t i (Some v), RBool true) else (s, RBool false)
  | Delete t i => if present (s t i) then (spec_set s t i None, RBool true) else (s, RBool false)
  | Get t i => (s, RGet (s t i))
  | Read t start count => (s, RRead (spec_read (s t) start count))
  end.

Fixpoint spec_run (s : spec_state) (ops : list op) : spec_state * list result :=
  match ops with
  | [] => (s, [])
  | o :: r =>
      let (s1, x) := spec_exec s o in
      let (s2, xs) := spec_run s1 r in
      (s2, x :: xs)
  end.
