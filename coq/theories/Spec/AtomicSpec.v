(* C19 atomicity: the observable statement.  DEFINITIONS ONLY.
   Nothing here mentions threads, locks, schedules or steps. *)
From Coq Require Import NArith List Lia Bool Arith.
Import ListNotations.

(* point database: association list, newest binding first *)
Definition db := list (N * N).
Definition lookup (d : db) (a : N) : option N :=
  match find (fun p => N.eqb (fst p) a) d with Some p => Some (snd p) | None => None end.
Definition set (d : db) (a v : N) : db := (a, v) :: d.

(* a transaction is its write list, applied left to right *)
Definition apply_txn (d : db) (ws : list (N * N)) : db :=
  fold_left (fun d p => set d (fst p) (snd p)) ws d.
(* the state after a list of complete transactions, oldest first *)
Definition apply_all (d : db) (txs : list (list (N * N))) : db := fold_left apply_txn txs d.

(* "the request observed the database exactly as it is after a PREFIX of the complete
   transactions, in commit order": no torn read, no partially applied transaction. *)
Definition atomic_obs (d0 : db) (order : list (list (N * N))) (addrs : list N)
           (obs : list (option N)) : Prop :=
  exists k, k <= length order /\ obs = map (lookup (apply_all d0 (firstn k order))) addrs.
