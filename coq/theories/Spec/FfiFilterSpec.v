(* C18: building an address filter through the C ABI = building the Rust API's AddressFilter the documented way.
   rodbus_address_filter_create(s): "s" is an IP address (then the filter is the one-element set, which
   rodbus_address_filter_add can extend) or else an IPv4 wildcard pattern; rodbus_address_filter_add(a): only a set can
   be extended; every other call fails with InvalidIpAddress and leaves the filter as it was.
   The IPv4 literal / wildcard grammars are those of C16 (Model/Filter.v parse_ipv4, parse_wildcard); the standard
   library's IPv6 literal parser is a parameter. Definitions only. *)
From Coq Require Import NArith List Bool.
From Rodbus Require Import Model.Filter.
Import ListNotations.

Section WithV6.
  Variable parse_v6 : str -> option ip.
  Definition parse_ip (s : str) : option ip := match parse_ipv4 s with Some a => Some a | None => parse_v6 s end.

  Definition filter_create_spec (s : str) : option afilter :=
    match parse_ip s with
    | Some a => Some (AnyOf [a])
    | None => option_map WildcardIpv4 (parse_wildcard s)
    end.
  (* the filter afterwards and whether the call returned Ok *)
  Definition filter_add_spec (f : afilter) (s : str) : afilter * bool :=
    match parse_ip s, f with
    | Some a, AnyOf set => (AnyOf (set ++ [a]), true)
    | _, _ => (f, false)
    end.
  Fixpoint adds_with (add : afilter -> str -> afilter * bool) (f : afilter) (adds : list str) : afilter * list bool :=
    match adds with
    | [] => (f, [])
    | a :: rest => let '(f1, ok) := add f a in let '(f2, oks) := adds_with add f1 rest in (f2, ok :: oks)
    end.
  (* create, then the adds in order: the final filter and the outcome of every add; None = create failed *)
  Definition filter_build_spec (s : str) (adds : list str) : option (afilter * list bool) :=
    option_map (fun f => adds_with filter_add_spec f adds) (filter_create_spec s).
End WithV6.
