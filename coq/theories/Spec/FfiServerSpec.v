(* What a C-ABI server must put on the wire, written from the property texts - not from the code:

     C19: "... a client read touching an absent point is answered with exception 02"
          (otherwise with the values the database holds, in ascending address order);
     C18: "The result (success, standard exception or raw exception code) returned by an
          application write callback is what the client receives for all four write functions".

   The database is seen as the partial function `N -> option value` of its point type
   (Spec/MapSpec.v), the callback's WriteResult as (success, exception NAME, raw code)
   (Spec/FfiSpec.v). Response layouts are those of the MODBUS application protocol (Spec/Modbus.v:
   packed bits / big-endian registers / echoed write / exception PDU).
   Definitions only; depends on no generated table and on no model. *)
From Coq Require Import NArith List String Bool.
From Rodbus Require Import Base.ServerTypes Spec.Modbus Spec.MapSpec Spec.FfiSpec Model.DbTypes.
Import ListNotations.
Local Open Scope N_scope.

(* ---------------------------------------------------------------- reads (C19) *)
(* the map and the address range a read request consults *)
Definition read_target (r : Modbus.request) : option (ptype * N * N) :=
  match r with
  | ReadCoils s n => Some (Coil, s, n)
  | ReadDiscreteInputs s n => Some (Discrete, s, n)
  | ReadHoldingRegisters s n => Some (Holding, s, n)
  | ReadInputRegisters s n => Some (Input, s, n)
  | _ => None
  end.

Definition bit_payload (vs : list value) : list bool :=
  flat_map (fun v => match v with VBit b => [b] | VReg _ => [] end) vs.
Definition reg_payload (vs : list value) : list N :=
  flat_map (fun v => match v with VReg x => [x] | VBit _ => [] end) vs.

(* positive read response carrying the values vs of point type t *)
Definition values_pdu (fc : N) (t : ptype) (vs : list value) : list N :=
  match t with
  | Coil | Discrete => let data := pack (bit_payload vs) in fc :: N.of_nat (List.length data) :: data
  | Holding | Input => let regs := reg_payload vs in fc :: 2 * N.of_nat (List.length regs) :: flat_map be regs
  end.

(* the response PDU to "read n points of type t from s" when the map of type t is f:
   all n points present ? their values : exception 02 *)
Definition read_pdu (fc : N) (t : ptype) (f : N -> option value) (s n : N) : list N :=
  match spec_read f s (N.to_nat n) with
  | inr e => exception_pdu fc e
  | inl vs => values_pdu fc t vs
  end.

(* ---------------------------------------------------------------- writes (C18) *)
(* body of the positive response to a write: address and value / start and quantity *)
Definition write_echo (r : Modbus.request) : list N :=
  match r with
  | WriteSingleCoil a v => be a ++ be (if v then 0xFF00 else 0)
  | WriteSingleRegister a v => be a ++ be v
  | WriteMultipleCoils s vs => be s ++ be (N.of_nat (List.length vs))
  | WriteMultipleRegisters s vs => be s ++ be (N.of_nat (List.length vs))
  | _ => []
  end.

(* the response PDU to the write r given what the application's callback returned:
   None = the application registered no callback for this function (exception 01, illegal function);
   Some (success, exception name, raw code) = its WriteResult.
   A WriteResult naming an exception the protocol does not know has no prescribed reply ([]). *)
Definition write_pdu (fc : N) (r : Modbus.request) (outcome : option (bool * string * N)) : list N :=
  match outcome with
  | None => exception_pdu fc 1
  | Some (success, exception_name, raw) =>
      match write_result_spec success exception_name raw with
      | Some None => fc :: write_echo r
      | Some (Some b) => exception_pdu fc b
      | None => []
      end
  end.
