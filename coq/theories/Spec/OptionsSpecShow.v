(* printing of Spec/OptionsSpec.v values for the checks (no dependency on the generated table) *)
From Coq Require Import NArith List String.
From Rodbus Require Import Base.Show Spec.OptionsSpec.
Import ListNotations.
Local Open Scope string_scope.

Definition option_names : list string := ["channel_logging"; "max_queued_requests"; "decode_level"; "max_timeouts"].
Definition show_spec_options (cs : list (string * N)) : string :=
  String.concat " " (map (fun n => n ++ "=" ++ show_N (spec_value cs n)) option_names)
  ++ " limit=" ++ show_option show_N "-" (spec_limit cs).
