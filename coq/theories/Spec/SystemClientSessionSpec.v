(* Oracle for a SEQUENCE of requests on one connection (TCP / TLS), written from C04 / C05 / C11:
   exchange k = request r_k written with transaction id t_k, and the bytes s_k the peer sends from
   then on until the exchange is over (before r_k's deadline).  The connection's bytes are cut into
   frames by the MBAP length field alone; what is left of an incomplete frame when exchange k ends
   (`Framing.mbap_tail`) is the beginning of the bytes of exchange k+1.  Request k is decided by the
   FIRST frame with transaction id t_k completed after it was written; frames with other ids -
   among them late replies to earlier, timed-out requests - are skipped; a framing error ends the
   connection (no further exchange on it).  Imports only the layer oracles. *)
From Coq Require Import NArith List Bool.
From Rodbus Require Base.Frame Base.ClientTypes Spec.Framing Spec.ClientCodecSpec Spec.SystemClientSpec.
Import ListNotations.
Module F := Rodbus.Base.Frame.
Module CT := Rodbus.Base.ClientTypes.
Module SS := Rodbus.Spec.SystemClientSpec.

(* (request, its transaction id, the bytes that arrive during the exchange) *)
Definition exchange := (CT.request * N * list N)%type.

(* `left` = bytes of an incomplete frame received so far *)
Fixpoint ref_session (left : list N) (xs : list exchange) : list SS.verdict :=
  match xs with
  | [] => []
  | (r, t, s) :: rest =>
      SS.ref_client_result r t (left ++ s) F.FinPending ::
      match snd (Framing.ref_frames (left ++ s) F.FinPending) with
      | F.EndPending => ref_session (Framing.mbap_tail (left ++ s)) rest
      | _ => []                      (* the connection has ended *)
      end
  end.

(* ---- several connections of one channel ----
   An exchange may now also see the connection's stream END (EOF / I/O error) instead of merely falling
   silent; the connection is then over.  Every connection is cut on its own: nothing received on an
   earlier connection - in particular not the beginning of a frame it died in - is part of it. *)
Definition exchange_fi := (CT.request * N * list N * F.fin)%type.

Fixpoint ref_session_fi (left : list N) (xs : list exchange_fi) : list SS.verdict :=
  match xs with
  | [] => []
  | (r, t, s, fi) :: rest =>
      SS.ref_client_result r t (left ++ s) fi ::
      match fi, snd (Framing.ref_frames (left ++ s) fi) with
      | F.FinPending, F.EndPending => ref_session_fi (Framing.mbap_tail (left ++ s)) rest
      | _, _ => []
      end
  end.

Definition ref_connections (conns : list (list exchange_fi)) : list (list SS.verdict) :=
  map (ref_session_fi []) conns.
