(* Spec-only rendering for lib/checks/c03.py: when the model does not compile (a lost translator tie)
   the implementation is still judged against the oracle alone. Imports no model and no Gen file. *)
From Coq Require Import NArith List Bool String.
From Rodbus Require Import Base.Show Base.ClientTypes Base.CaseGen Spec.ClientCodecSpec.
From Rodbus Require Base.Frame Spec.SystemClientSpec Spec.SystemClientSessionSpec.
Module F := Rodbus.Base.Frame.
Module SS := Rodbus.Spec.SystemClientSpec.
Module XS := Rodbus.Spec.SystemClientSessionSpec.
Import ListNotations.
Local Open Scope string_scope.
Local Open Scope N_scope.

(* same case type as Model/ClientShow.v stream_case *)
Definition stream_case_spec := (bool * N * list (N * N * N * N * N * vals * N * bool))%type.
Definition run_stream_spec (x : stream_case_spec) : string :=
  let '(tcp, first_id, l) := x in
  let spec := map (fun y : N * N * N * N * N * vals * N * bool => let '(style, kind, uid, s, c, v, cut, lost) := y in
                      (uid, mk_call kind s c v,
                       {| cut_after := (if cut =? 0 then None else Some (N.to_nat (cut - 1))); connection_lost := lost |})) l in
  let r := show_bytes (ref_session_stream tcp first_id spec) in r ++ "|" ++ r.

(* ---- consecutive connections (lib/checks/c04.py connections_family), Spec only: same case type as
   Model/SystemClientConnEval.v conn_case; the requests of these cases are valid by construction ---- *)
Definition show_verdict_spec (v : SS.verdict) : string :=
  match v with
  | SS.VValue x => show_response x
  | SS.VException c => "ERR Exception(" ++ show_N c ++ ")"
  | SS.VBadReply => "ERR other"
  | SS.VBadFrame => "ERR BadFrame"
  | SS.VIo => "ERR Io"
  | SS.VPending => "ERR ResponseTimeout"
  | SS.VCrash => "PANIC"
  end.
Definition xcase_spec := (N * N * N * N * list (nat * N) * N)%type.
Definition req_of_spec (kind s c : N) : request :=
  match kind with
  | 1 => RReadCoils (s, c) | 2 => RReadDiscreteInputs (s, c) | 3 => RReadHoldingRegisters (s, c) | 4 => RReadInputRegisters (s, c)
  | 5 => RWriteSingleCoil s (negb (c =? 0)) | 6 => RWriteSingleRegister s c
  | 15 => RWriteMultipleCoils (s, c) (repeat false (N.to_nat c)) | _ => RWriteMultipleRegisters (s, c) (repeat 0 (N.to_nat c))
  end.
Definition eval_conn_spec (cs : list (list xcase_spec)) : string :=
  let spec_conns := map (map (fun x : xcase_spec => let '(kind, s, c, tx, chunks, fin) := x in
                                 (req_of_spec kind s c, tx, List.concat (map (fun ch => bytes_of (fst ch) (snd ch)) chunks),
                                  match fin with 0 => F.FinPending | 1 => F.FinEof | _ => F.FinErr end))) cs in
  let r := show_list (show_list show_verdict_spec ";") "/" (XS.ref_connections spec_conns) in r ++ "|" ++ r.
