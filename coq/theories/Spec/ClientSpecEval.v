(* Spec-only rendering for lib/checks/c03.py: when the model does not compile (a lost translator tie)
   the implementation is still judged against the oracle alone. Imports no model and no Gen file. *)
From Coq Require Import NArith List Bool String.
From Rodbus Require Import Base.Show Base.ClientTypes Base.CaseGen Spec.ClientCodecSpec.
Import ListNotations.
Local Open Scope string_scope.
Local Open Scope N_scope.

(* same case type as Model/ClientShow.v stream_case *)
Definition stream_case_spec := (bool * N * list (N * N * N * N * N * vals * N * bool))%type.
Definition run_stream_spec (x : stream_case_spec) : string :=
  let '(tcp, first_id, l) := x in
  let spec := map (fun y : N * N * N * N * N * vals * N * bool => let '(style, kind, uid, s, c, v, cut, lost) := y in
                      (uid, mk_call kind s c v,
                       {| cut_after := (if cut =? 0 then None else Some (N.to_nat (cut - 1))); connection_lost := lost |})) l in
  let r := show_bytes (ref_session_stream tcp first_id spec) in r ++ "|" ++ r.
