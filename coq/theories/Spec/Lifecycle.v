(* Spec for C13: the legal paths of the connection life-cycle listener, written from the property
   text.  `cstate` mirrors rodbus::client::ClientState (TCP/TLS), `pstate` mirrors PortState
   (serial).  Definitions only; no dependency on the model or on Gen. *)
From Coq Require Import NArith List Bool.
Import ListNotations.

(* ---- TCP / TLS: ClientState ---- *)
Inductive cstate :=
| LDisabled | LConnecting | LConnected
| LWaitFailed (delay : N)        (* WaitAfterFailedConnect(delay) *)
| LWaitDisc (delay : N)          (* WaitAfterDisconnect(delay) *)
| LShutdown.

(* one listener notification `b` directly after `a`:
   - Shutdown is last (nothing follows it) and reachable from every live state;
   - Connecting only from Disabled (an enable) or from a wait state (the retry);
   - Connected only directly after Connecting;
   - after Connecting that is not followed by Connected: the failed-connect wait, or Disabled;
   - after Connected: the lost-connection wait, or Disabled (a disable closes the connection);
   - a wait state ends in Connecting or, on a disable, in Disabled. *)
Definition edge (a b : cstate) : bool :=
  match a, b with
  | LShutdown, _ => false
  | _, LShutdown => true
  | LDisabled, LConnecting => true
  | LConnecting, (LConnected | LWaitFailed _ | LDisabled) => true
  | LConnected, (LWaitDisc _ | LDisabled) => true
  | (LWaitFailed _ | LWaitDisc _), (LConnecting | LDisabled) => true
  | _, _ => false
  end.

Fixpoint path (last : cstate) (l : list cstate) : bool :=
  match l with [] => true | x :: r => edge last x && path x r end.

(* a complete listener trace is legal when it starts with Disabled and every consecutive pair is an edge *)
Definition legal (l : list cstate) : bool :=
  match l with
  | LDisabled :: r => path LDisabled r
  | _ => false
  end.

(* Shutdown occurs at most once, and only as the last element *)
Fixpoint shutdown_last (l : list cstate) : bool :=
  match l with
  | [] => true
  | LShutdown :: r => match r with [] => true | _ => false end
  | _ :: r => shutdown_last r
  end.

(* ---- serial: PortState ---- *)
Inductive pstate := SDisabled | SWait (delay : N) | SOpen | SShutdown.

Definition pedge (a b : pstate) : bool :=
  match a, b with
  | SShutdown, _ => false
  | _, SShutdown => true
  | SDisabled, (SOpen | SWait _) => true           (* enabled: the port opens, or the open fails *)
  | SOpen, (SWait _ | SDisabled) => true           (* lost, or disabled (which closes the port) *)
  | SWait _, (SOpen | SWait _ | SDisabled) => true (* retry succeeds / fails again / disabled *)
  | _, _ => false
  end.

Fixpoint ppath (last : pstate) (l : list pstate) : bool :=
  match l with [] => true | x :: r => pedge last x && ppath x r end.

Definition plegal (l : list pstate) : bool :=
  match l with
  | SDisabled :: r => ppath SDisabled r
  | _ => false
  end.

