(* Spec for the connection life-cycle of a TLS client channel (C13 read for TLS), written from the property text:
   "Connected" is announced only once the TLS handshake has been completed with an admitted peer; a failed handshake is
   a failed connect (the failed-connect wait follows); while the handshake is pending the channel still honours
   disable and shutdown, and requests fail fast. Definitions only; depends on Spec/Lifecycle.v (C13's automaton), not
   on any model or generated table. *)
From Coq Require Import NArith List Bool.
From Rodbus Require Import Spec.Lifecycle.
Import ListNotations.

(* what the application does while the peer keeps the handshake pending *)
Inductive meanwhile := MNothing | MRequest | MDisable | MShutdown.

(* what one connect attempt meets *)
Inductive attempt :=
| ARefused                       (* the TCP connect fails *)
| AHandshakeFails                (* the peer closes, or presents a certificate the client must refuse *)
| AHandshakePending (m : meanwhile)   (* the peer accepts the TCP connection and stays silent; later it closes *)
| AEstablished (request : bool). (* the handshake completes (optionally a request is served); later the peer goes away *)

Inductive lkind := KDisabled | KConnecting | KConnected | KWaitFailed | KWaitDisc | KShutdown.
Definition kind_of (c : cstate) : lkind :=
  match c with
  | LDisabled => KDisabled | LConnecting => KConnecting | LConnected => KConnected
  | LWaitFailed _ => KWaitFailed | LWaitDisc _ => KWaitDisc | LShutdown => KShutdown
  end.
Definition lkind_eqb (a b : lkind) : bool :=
  match a, b with
  | KDisabled, KDisabled | KConnecting, KConnecting | KConnected, KConnected
  | KWaitFailed, KWaitFailed | KWaitDisc, KWaitDisc | KShutdown, KShutdown => true
  | _, _ => false
  end.
Fixpoint kinds_eqb (a b : list lkind) : bool :=
  match a, b with
  | [], [] => true
  | x :: a', y :: b' => lkind_eqb x y && kinds_eqb a' b'
  | _, _ => false
  end.

(* the notifications from the first Connecting on, for a channel that is enabled, meets the attempts in order (after a
   disable it is enabled again at once) and is shut down while the attempt after the last one is being made (that
   attempt meets a silent peer: the shutdown arrives while its handshake is pending) *)
Fixpoint expected (l : list attempt) : list lkind :=
  match l with
  | [] => [KConnecting; KShutdown]
  | a :: r =>
      match a with
      | ARefused | AHandshakeFails | AHandshakePending MNothing | AHandshakePending MRequest =>
          KConnecting :: KWaitFailed :: expected r       (* never Connected: the handshake was not completed *)
      | AHandshakePending MDisable => KConnecting :: KDisabled :: expected r
      | AHandshakePending MShutdown => [KConnecting; KShutdown]
      | AEstablished _ => KConnecting :: KConnected :: KWaitDisc :: expected r
      end
  end.
Definition expected_path (l : list attempt) : list lkind := KDisabled :: expected l.

(* how many attempts complete their handshake before the channel is shut down *)
Fixpoint established_before_shutdown (l : list attempt) : nat :=
  match l with
  | [] => 0
  | AHandshakePending MShutdown :: _ => 0
  | AEstablished _ :: r => S (established_before_shutdown r)
  | _ :: r => established_before_shutdown r
  end.

(* how the requests made along the way complete: while the handshake is pending a request fails at once with
   NoConnection (not when the peer finally closes); through an established connection it is answered *)
Inductive req_outcome := QFailsFastNoConnection | QAnswered.
Fixpoint expected_requests (l : list attempt) : list req_outcome :=
  match l with
  | [] => []
  | AHandshakePending MShutdown :: _ => []
  | AHandshakePending MRequest :: r => QFailsFastNoConnection :: expected_requests r
  | AEstablished true :: r => QAnswered :: expected_requests r
  | _ :: r => expected_requests r
  end.

(* the verdict on an observed listener path: a legal path of C13's automaton that ends with Shutdown, of the kinds above *)
Definition judge (l : list attempt) (p : list cstate) : bool :=
  legal p && shutdown_last p && kinds_eqb (map kind_of p) (expected_path l).
