(* The framing oracle, written from the property texts C05/C06 and the Modbus framing rules, not
   from the code: a byte stream is cut into frames by the MBAP length field only (TCP), resp. by
   function code / byte count with the CRC as gate (RTU). No buffer, no parser state, no chunks.
   Does not import Gen/* nor any model file except the mathematical definition of CRC-16/MODBUS. *)
From Coq Require Import NArith List Bool Arith.
From Rodbus Require Import Base.Frame Model.Crc.
Import ListNotations.

(* what an incomplete frame at the end of the stream turns into *)
Definition end_of (fi : fin) : ending :=
  match fi with FinEof => EndIo UnexpectedEof | FinErr => EndIo IoOther | FinPending => EndPending end.

Definition be (hi lo : N) : N := (hi * 256 + lo)%N.

(* ---------------- MBAP: tx(2) proto(2) len(2) unit(1) then len-1 PDU bytes ---------------- *)
Fixpoint ref (fuel : nat) (s : list N) (fi : fin) : list frame * ending :=
  match fuel with
  | O => ([], EndOutOfFuel)
  | S fuel =>
      match s with
      | t1 :: t0 :: p1 :: p0 :: l1 :: l0 :: u :: body =>
          let len := N.to_nat (be l1 l0) in
          if negb (N.eqb (be p1 p0) 0) then ([], EndBad (UnknownProtocolId (be p1 p0)))
          else if Nat.ltb 254 len then ([], EndBad (FrameLengthTooBig len 254))
          else if Nat.eqb len 0 then ([], EndBad MbapLengthZero)
          else if Nat.ltb (length body) (len - 1) then ([], end_of fi)
          else let '(fs, e) := ref fuel (skipn (len - 1) body) fi in
               ({| f_tx := Some (be t1 t0); f_dest := u; f_bcast := false; f_pdu := firstn (len - 1) body |} :: fs, e)
      | _ => ([], end_of fi)
      end
  end.
Definition ref_frames (s : list N) (fi : fin) : list frame * ending := ref (S (length s)) s fi.

(* the client: one stream per connection, each cut on its own *)
Definition ref_connections (conns : list (list N * fin)) : list (list frame * ending) :=
  map (fun c => ref_frames (fst c) (snd c)) conns.

(* ---------------- RTU: address, PDU, CRC-16 low byte first ---------------- *)
Inductive role := Requests | Responses.          (* what is being received *)
Inductive lrule := LFixed (n : nat) | LCount (off : nat) | LUnknown.

(* bytes of the PDU after the function code: fixed, or a byte count at PDU index `off` followed by that many bytes *)
Definition length_rule (r : role) (fc : N) : lrule :=
  match r with
  | Requests =>
      if (N.leb 1 fc && N.leb fc 6)%bool then LFixed 4            (* address + quantity/value *)
      else if (N.eqb fc 15 || N.eqb fc 16)%bool then LCount 5      (* address, quantity, byte count, data *)
      else LUnknown
  | Responses =>
      if N.leb 128 fc then LFixed 1                                (* exception: code *)
      else if (N.leb 1 fc && N.leb fc 4)%bool then LCount 1        (* byte count, data *)
      else if (N.eqb fc 5 || N.eqb fc 6 || N.eqb fc 15 || N.eqb fc 16)%bool then LFixed 4   (* echo *)
      else LUnknown
  end.

(* a PDU of plen bytes starting at t, then the CRC; k continues after the frame *)
Definition ref_rtu_body (k : list N -> list frame * ending) (fi : fin) (addr : N) (plen : nat) (t : list N) : list frame * ending :=
  if Nat.ltb 253 plen then ([], EndBad (FrameLengthTooBig plen 253))
  else if Nat.ltb (length t) (plen + 2) then ([], end_of fi)
  else let pdu := firstn plen t in
       let received := (nth plen t 0 + 256 * nth (plen + 1) t 0)%N in
       if N.eqb received (crc (addr :: pdu))
       then let '(fs, e) := k (skipn (plen + 2) t) in
            ({| f_tx := None; f_dest := addr; f_bcast := N.eqb addr 0; f_pdu := pdu |} :: fs, e)
       else ([], EndBad (CrcValidationFailure received (crc (addr :: pdu)))).

Fixpoint rref (fuel : nat) (r : role) (s : list N) (fi : fin) : list frame * ending :=
  match fuel with
  | O => ([], EndOutOfFuel)
  | S fuel =>
      match s with
      | addr :: fc :: rest =>
          let t := fc :: rest in
          match length_rule r fc with
          | LUnknown => ([], EndBad (UnknownFunctionCode fc))
          | LFixed n => ref_rtu_body (fun s' => rref fuel r s' fi) fi addr (1 + n) t
          | LCount off =>
              if Nat.ltb (length t) (1 + off) then ([], end_of fi)
              else ref_rtu_body (fun s' => rref fuel r s' fi) fi addr (1 + off + N.to_nat (nth off t 0%N)) t
          end
      | _ => ([], end_of fi)
      end
  end.
Definition ref_rtu_frames (r : role) (s : list N) (fi : fin) : list frame * ending := rref (S (length s)) r s fi.

(* ---------------- what a transmitted RTU frame must look like ---------------- *)
Definition rtu_frame_of (addr : N) (pdu : list N) : list N :=
  addr :: pdu ++ [crc (addr :: pdu) mod 256; crc (addr :: pdu) / 256]%N.

(* a received byte string whose trailing two bytes are the CRC of what precedes them *)
Definition crc_verifies (f : list N) : Prop :=
  exists body lo hi, f = body ++ [lo; hi] /\ (lo + 256 * hi)%N = crc body.

(* ---------------- the byte stream a chunk schedule delivers ---------------- *)
(* chunks are handed over in order; an empty chunk is a 0-byte read, which IS end-of-file *)
Fixpoint sched_stream (n : list (list N)) (fi : fin) : list N * fin :=
  match n with
  | [] => ([], fi)
  | [] :: _ => ([], FinEof)
  | c :: n' => let '(s, f) := sched_stream n' fi in (c ++ s, f)
  end.
