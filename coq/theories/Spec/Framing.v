(* The framing oracle, written from the property texts C05/C06 and the Modbus framing rules, not
   from the code: a byte stream is cut into frames by the MBAP length field only (TCP), resp. by
   function code / byte count with the CRC as gate (RTU). No buffer, no parser state, no chunks.
   Does not import Gen/* nor any model file except the mathematical definition of CRC-16/MODBUS. *)
From Coq Require Import NArith List Bool Arith.
From Rodbus Require Import Base.Frame Model.Crc.
Import ListNotations.

(* what an incomplete frame at the end of the stream turns into *)
Definition end_of (fi : fin) : ending :=
  match fi with FinEof => EndIo UnexpectedEof | FinErr => EndIo IoOther | FinPending => EndPending end.

Definition be (hi lo : N) : N := (hi * 256 + lo)%N.

(* ---------------- MBAP: tx(2) proto(2) len(2) unit(1) then len-1 PDU bytes ---------------- *)
Fixpoint ref (fuel : nat) (s : list N) (fi : fin) : list frame * ending :=
  match fuel with
  | O => ([], EndOutOfFuel)
  | S fuel =>
      match s with
      | t1 :: t0 :: p1 :: p0 :: l1 :: l0 :: u :: body =>
          let len := N.to_nat (be l1 l0) in
          if negb (N.eqb (be p1 p0) 0) then ([], EndBad (UnknownProtocolId (be p1 p0)))
          else if Nat.ltb 254 len then ([], EndBad (FrameLengthTooBig len 254))
          else if Nat.eqb len 0 then ([], EndBad MbapLengthZero)
          else if Nat.ltb (length body) (len - 1) then ([], end_of fi)
          else let '(fs, e) := ref fuel (skipn (len - 1) body) fi in
               ({| f_tx := Some (be t1 t0); f_dest := u; f_bcast := false; f_pdu := firstn (len - 1) body |} :: fs, e)
      | _ => ([], end_of fi)
      end
  end.
Definition ref_frames (s : list N) (fi : fin) : list frame * ending := ref (S (length s)) s fi.

(* the client: one stream per connection, each cut on its own *)
Definition ref_connections (conns : list (list N * fin)) : list (list frame * ending) :=
  map (fun c => ref_frames (fst c) (snd c)) conns.

(* ---------------- RTU: address, PDU, CRC-16 low byte first ---------------- *)
Inductive role := Requests | Responses.          (* what is being received *)
Inductive lrule := LFixed (n : nat) | LCount (off : nat) | LUnknown.

(* bytes of the PDU after the function code: fixed, or a byte count at PDU index `off` followed by that many bytes *)
Definition length_rule (r : role) (fc : N) : lrule :=
  match r with
  | Requests =>
      if (N.leb 1 fc && N.leb fc 6)%bool then LFixed 4            (* address + quantity/value *)
      else if (N.eqb fc 15 || N.eqb fc 16)%bool then LCount 5      (* address, quantity, byte count, data *)
      else LUnknown
  | Responses =>
      if N.leb 128 fc then LFixed 1                                (* exception: code *)
      else if (N.leb 1 fc && N.leb fc 4)%bool then LCount 1        (* byte count, data *)
      else if (N.eqb fc 5 || N.eqb fc 6 || N.eqb fc 15 || N.eqb fc 16)%bool then LFixed 4   (* echo *)
      else LUnknown
  end.

(* a PDU of plen bytes starting at t, then the CRC; k continues after the frame *)
Definition ref_rtu_body (k : list N -> list frame * ending) (fi : fin) (addr : N) (plen : nat) (t : list N) : list frame * ending :=
  if Nat.ltb 253 plen then ([], EndBad (FrameLengthTooBig plen 253))
  else if Nat.ltb (length t) (plen + 2) then ([], end_of fi)
  else let pdu := firstn plen t in
       let received := (nth plen t 0 + 256 * nth (plen + 1) t 0)%N in
       if N.eqb received (crc (addr :: pdu))
       then let '(fs, e) := k (skipn (plen + 2) t) in
            ({| f_tx := None; f_dest := addr; f_bcast := N.eqb addr 0; f_pdu := pdu |} :: fs, e)
       else ([], EndBad (CrcValidationFailure received (crc (addr :: pdu)))).

Fixpoint rref (fuel : nat) (r : role) (s : list N) (fi : fin) : list frame * ending :=
  match fuel with
  | O => ([], EndOutOfFuel)
  | S fuel =>
      match s with
      | addr :: fc :: rest =>
          let t := fc :: rest in
          match length_rule r fc with
          | LUnknown => ([], EndBad (UnknownFunctionCode fc))
          | LFixed n => ref_rtu_body (fun s' => rref fuel r s' fi) fi addr (1 + n) t
          | LCount off =>
              if Nat.ltb (length t) (1 + off) then ([], end_of fi)
              else ref_rtu_body (fun s' => rref fuel r s' fi) fi addr (1 + off + N.to_nat (nth off t 0%N)) t
          end
      | _ => ([], end_of fi)
      end
  end.
Definition ref_rtu_frames (r : role) (s : list N) (fi : fin) : list frame * ending := rref (S (length s)) r s fi.

(* ---------------- what a transmitted RTU frame must look like ---------------- *)
Definition rtu_frame_of (addr : N) (pdu : list N) : list N :=
  addr :: pdu ++ [crc (addr :: pdu) mod 256; crc (addr :: pdu) / 256]%N.

(* a received byte string whose trailing two bytes are the CRC of what precedes them *)
Definition crc_verifies (f : list N) : Prop :=
  exists body lo hi, f = body ++ [lo; hi] /\ (lo + 256 * hi)%N = crc body.

(* ---------------- the byte stream a chunk schedule delivers ---------------- *)
(* chunks are handed over in order; an empty chunk is a 0-byte read, which IS end-of-file *)
Fixpoint sched_stream (n : list (list N)) (fi : fin) : list N * fin :=
  match n with
  | [] => ([], fi)
  | [] :: _ => ([], FinEof)
  | c :: n' => let '(s, f) := sched_stream n' fi in (c ++ s, f)
  end.


(* ---------------- vocabulary of the property statements (C05 / C06) ---------------- *)
(* a byte *)
Definition bytes (l : list N) : Prop := Forall (fun x => (x < 256)%N) l.

(* C05_reject: a stream that starts with complete, well-formed MBAP frames; a malformed header *)
Inductive framed : list N -> list frame -> Prop :=
| framed_nil : framed [] []
| framed_cons t1 t0 l1 l0 u pdu s fs :
    N.to_nat (be l1 l0) = S (length pdu) -> length pdu <= 253 -> framed s fs ->
    framed ([t1; t0; 0; 0; l1; l0; u]%N ++ pdu ++ s) ({| f_tx := Some (be t1 t0); f_dest := u; f_bcast := false; f_pdu := pdu |} :: fs).
Definition bad_header (h : list N) : Prop :=
  exists t1 t0 p1 p0 l1 l0 u, h = [t1; t0; p1; p0; l1; l0; u] /\
    (be p1 p0 <> 0%N \/ be l1 l0 = 0%N \/ (254 < be l1 l0)%N).

(* C06_detect_session: the length rule applied to the PDU gives exactly its length
   (for a corrupted frame: the corruption left function code / byte count meaningful) *)
Definition delimited (r : role) (pdu : list N) : Prop :=
  match pdu with
  | [] => False
  | fcv :: _ =>
      match length_rule r fcv with
      | LFixed n => length pdu = 1 + n
      | LCount off => 1 + off <= length pdu /\ length pdu = 1 + off + N.to_nat (nth off pdu 0%N)
      | LUnknown => False
      end
  end.

(* C06_detect: bits in wire order (byte by byte, least significant bit first; a 16-bit word low byte first) *)
Definition bits8 (b : N) : list bool := map (N.testbit b) (map N.of_nat (seq 0 8)).
Definition bits16 (x : N) : list bool := map (N.testbit x) (map N.of_nat (seq 0 16)).
Definition bits_of (l : list N) : list bool := flat_map bits8 l.
Definition zeros (n : nat) : list bool := repeat false n.
(* the corrupted frame: byte-wise xor with the error pattern *)
Fixpoint xor_bytes (a b : list N) : list N :=
  match a, b with x :: a, y :: b => N.lxor x y :: xor_bytes a b | _, _ => [] end.
(* the error classes, as patterns over the bits of the whole frame (trailer included) *)
Definition err_class (bs : list bool) : Prop :=
  (* one bit *)
  (exists a z, bs = zeros a ++ [true] ++ zeros z) \/
  (* two bits, d apart *)
  (exists a d z, 1 <= d <= 2100 /\ bs = zeros a ++ [true] ++ zeros (d - 1) ++ [true] ++ zeros z) \/
  (* everything inside one 16-bit window *)
  (exists a x z, (x < 65536)%N /\ x <> 0%N /\ bs = zeros a ++ bits16 x ++ zeros z) \/
  (* a burst: every flipped bit lies in a span w of at most 16 bits (the frame itself has at least 16 bits) *)
  (exists a w z, length w <= 16 /\ w <> zeros (length w) /\ 16 <= length bs /\ bs = zeros a ++ w ++ zeros z).

(* ---------------- the incomplete last frame of a stream ---------------- *)
(* what is left after the complete frames, when the stream ends inside (or exactly at the end of)
   a frame: the bytes the next bytes of the connection will be appended to. (If a frame is
   malformed the run has ended anyway and the value is irrelevant: the stream itself.) *)
Fixpoint ref_tail (fuel : nat) (s : list N) : list N :=
  match fuel with
  | O => s
  | S fuel =>
      match s with
      | t1 :: t0 :: p1 :: p0 :: l1 :: l0 :: u :: body =>
          let len := N.to_nat (be l1 l0) in
          if negb (N.eqb (be p1 p0) 0) then s
          else if Nat.ltb 254 len then s
          else if Nat.eqb len 0 then s
          else if Nat.ltb (length body) (len - 1) then s
          else ref_tail fuel (skipn (len - 1) body)
      | _ => s
      end
  end.
Definition mbap_tail (s : list N) : list N := ref_tail (S (length s)) s.

Definition rtu_body_tail (k : list N -> list N) (whole : list N) (addr : N) (plen : nat) (t : list N) : list N :=
  if Nat.ltb 253 plen then whole
  else if Nat.ltb (length t) (plen + 2) then whole
  else if N.eqb (nth plen t 0 + 256 * nth (plen + 1) t 0)%N (crc (addr :: firstn plen t)) then k (skipn (plen + 2) t)
  else whole.
Fixpoint rref_tail (fuel : nat) (r : role) (s : list N) : list N :=
  match fuel with
  | O => s
  | S fuel =>
      match s with
      | addr :: fc :: rest =>
          let t := fc :: rest in
          match length_rule r fc with
          | LUnknown => s
          | LFixed n => rtu_body_tail (rref_tail fuel r) s addr (1 + n) t
          | LCount off =>
              if Nat.ltb (length t) (1 + off) then s
              else rtu_body_tail (rref_tail fuel r) s addr (1 + off + N.to_nat (nth off t 0%N)) t
          end
      | _ => s
      end
  end.
Definition rtu_tail (r : role) (s : list N) : list N := rref_tail (S (length s)) r s.

(* ---------------- the RTU server across port re-opens ---------------- *)
(* serial/server.rs: RtuServerTask keeps ONE SessionTask (one FramedReader) for the life of the
   server. A port session runs until next_frame fails; the task then sleeps (retry delay) and
   re-opens the port with the SAME reader. C06: "a received frame is acted on only if its CRC
   verifies". The lifecycle this Spec prescribes:
     * the bus is one byte stream; a framing error ends the current port session;
     * every port session is cut ON ITS OWN FROM A CLEAN PARSER (the parser does not remember the
       destination or length of the frame that failed);
     * the receive buffer is NOT cleared on the server side (unlike the client, C05_client): bytes
       already received stay in front of the next session. What exactly is in front of it:
         - after a CRC failure the whole failed frame (address .. CRC) is gone;
         - after an unknown function code or a frame that would be too long only the ADDRESS byte
           is gone: the next session starts at the offending function-code byte;
     * a port session that ends by an I/O error / EOF leaves an incomplete frame in place; the
       bytes of the next session are appended to it (same bus). *)
Definition rtu_body_after (k : list N -> list N) (addr : N) (plen : nat) (t : list N) : list N :=
  if Nat.ltb 253 plen then t
  else if Nat.ltb (length t) (plen + 2) then []
  else if N.eqb (nth plen t 0 + 256 * nth (plen + 1) t 0)%N (crc (addr :: firstn plen t)) then k (skipn (plen + 2) t)
  else skipn (plen + 2) t.
(* the stream after the first framing error ([] if there is none) *)
Fixpoint rref_after (fuel : nat) (r : role) (s : list N) : list N :=
  match fuel with
  | O => []
  | S fuel =>
      match s with
      | addr :: fc :: rest =>
          let t := fc :: rest in
          match length_rule r fc with
          | LUnknown => t
          | LFixed n => rtu_body_after (rref_after fuel r) addr (1 + n) t
          | LCount off =>
              if Nat.ltb (length t) (1 + off) then []
              else rtu_body_after (rref_after fuel r) addr (1 + off + N.to_nat (nth off t 0%N)) t
          end
      | _ => []
      end
  end.
(* session after session: frames of a session, its framing error, then a clean start on what is left *)
Fixpoint rref_reopen (fuel : nat) (F : nat) (r : role) (s : list N) (fi : fin) : list item * ending :=
  match fuel with
  | O => ([], EndOutOfFuel)
  | S fuel =>
      let '(fs, e) := rref F r s fi in
      match e with
      | EndBad err => let '(l, e') := rref_reopen fuel F r (rref_after F r s) fi in (map IFrame fs ++ IErr err :: l, e')
      | _ => (map IFrame fs, e)
      end
  end.
Definition ref_rtu_reopen (r : role) (s : list N) (fi : fin) : list item * ending :=
  rref_reopen (S (length s)) (S (length s)) r s fi.
