(* Oracle for C09, written from the property text. Everything cryptographic is ground truth about
   the certificate the peer presents, relative to the endpoint's configuration (booleans below);
   the Spec says what an endpoint must do given that truth.
   No dependency on Gen/* or on the model. *)
From Coq Require Import List String Bool.
Import ListNotations.

Inductive tls_version := TLS12 | TLS13.
Definition vle (a b : tls_version) : bool := match a, b with TLS13, TLS12 => false | _, _ => true end.

Inductive cert_mode := ModeAuthority | ModeSelfSigned.
Inductive side := ClientSide | ServerSide.

(* X.509 v3 extensions as far as this property looks at them *)
Inductive extension := ModbusRole (role : string) | OtherExtension (tag : nat).

Record peer_cert := {
  chains_to_authority : bool;      (* a valid chain to the configured authority *)
  identical_to_configured : bool;  (* byte-identical to the configured self-signed certificate *)
  within_validity : bool;          (* notBefore <= now <= notAfter *)
  name_matches : bool;             (* carries the server name the client expects *)
  cert_exts : option (list extension)
}.

Record peer := { offers12 : bool; offers13 : bool; presented : peer_cert }.

Record endpoint := {
  e_side : side;
  e_min : tls_version;
  e_mode : cert_mode;
  e_authz : bool;          (* server side: authorization mode *)
  e_expects_name : bool    (* client side, authority mode: an expected server name is configured *)
}.

Definition offered (p : peer) (v : tls_version) : bool := match v with TLS12 => offers12 p | TLS13 => offers13 p end.

(* "validates under the configured mode (a chain to the configured authority, with the expected
   server name on the client side, or a byte-identical match of the configured self-signed
   certificate, within its validity period)" *)
Definition cert_valid (e : endpoint) (c : peer_cert) : bool :=
  within_validity c &&
  match e_mode e with
  | ModeAuthority =>
      chains_to_authority c &&
      match e_side e with ClientSide => implb (e_expects_name e) (name_matches c) | ServerSide => true end
  | ModeSelfSigned => identical_to_configured c
  end.

Definition roles_of (l : list extension) : list string :=
  flat_map (fun x => match x with ModbusRole r => [r] | OtherExtension _ => [] end) l.
Definition role_count (l : list extension) : nat := List.length (roles_of l).

(* "the session's role is exactly the single Modbus role extension of the client certificate, and
   certificates carrying no role are refused" *)
Definition single_role (c : peer_cert) : option string :=
  match cert_exts c with
  | Some l => match roles_of l with [r] => Some r | _ => None end
  | None => None
  end.

Definition needs_role (e : endpoint) : bool := match e_side e with ServerSide => e_authz e | ClientSide => false end.

Inductive result := Established (v : tls_version) (role : option string) | Refused.

(* what the property allows as the outcome of one handshake attempt *)
Definition allowed (e : endpoint) (p : peer) (r : result) : Prop :=
  match r with
  | Established v role =>
      cert_valid e (presented p) = true /\ offered p v = true /\ vle (e_min e) v = true /\
      (if needs_role e then role <> None /\ role = single_role (presented p) else role = None)
  | Refused =>
      cert_valid e (presented p) = false \/ (forall v, offered p v = true -> vle (e_min e) v = false) \/
      (needs_role e = true /\ single_role (presented p) = None)
  end.

(* executable oracle: TLS negotiates the highest version both sides support *)
Definition expected (e : endpoint) (p : peer) : result :=
  if cert_valid e (presented p) then
    match (if offers13 p then Some TLS13 else if offers12 p && vle (e_min e) TLS12 then Some TLS12 else None) with
    | None => Refused
    | Some v =>
        if needs_role e then match single_role (presented p) with Some r => Established v (Some r) | None => Refused end
        else Established v None
    end
  else Refused.
