(* The Spec alone, rendered in the harness's output format: the fallback of the correspondence checks when a Gen
   table cannot be regenerated or a model file does not compile (the implementation is then still judged against the
   Spec, so a violation keeps its concrete replay). Imports no Gen file and no model. *)
From Coq Require Import NArith List String Bool.
From Rodbus Require Import Base.Show Base.Frame Spec.Framing.
Import ListNotations.
Local Open Scope string_scope.

(* kind: 0 = MBAP, 1 = RTU requests, 2 = RTU responses *)
Definition spec_case (c : N * bool * fin * list (list N)) : string :=
  let '(k, resume, fi, n) := c in
  let '(s, f) := sched_stream n fi in
  match k, resume with
  | 0%N, false => show_frames (ref_frames s f)
  | 0%N, true => "-"
  | 1%N, false => show_frames (ref_rtu_frames Requests s f)
  | 1%N, true => show_run (ref_rtu_reopen Requests s f)
  | _, false => show_frames (ref_rtu_frames Responses s f)
  | _, true => show_run (ref_rtu_reopen Responses s f)
  end.
Definition spec_client (c : list (list (list N) * fin)) : string :=
  show_list show_frames " / " (ref_connections (map (fun x => sched_stream (fst x) (snd x)) c)).
Definition spec_client_rtu (c : list (list (list N) * fin)) : string :=
  show_list show_frames " / " (map (fun x => let '(s, f) := sched_stream (fst x) (snd x) in ref_rtu_frames Responses s f) c).
Definition spec_emit (c : N * list N) : string := show_bytes (rtu_frame_of (fst c) (snd c)).
