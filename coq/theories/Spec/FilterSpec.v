(* Oracle for C16, written from the property text.

   "an IPv4 wildcard whose four fields are each a literal octet or '*'" ; "Wildcard strings that are
   not four dot-separated fields of '*' or a number 0-255 are rejected."

   Reading of "a number 0-255" (recorded as an observation in DESIGN.md section 7, not a finding): a
   numeral is what Rust's u8::from_str accepts: a non-empty string of ASCII decimal digits, optionally
   preceded by ONE '+', whose value is at most 255; leading zeros are allowed ("007", "+1").

   Only the data types (ip, wildcard, afilter) are shared with the model; nothing here depends on the
   model's functions or on generated files. *)
From Coq Require Import NArith List.
From Rodbus Require Import Model.Filter.
Import ListNotations.
Local Open Scope N_scope.

(* ---------- the grammar of wildcard strings (strings are lists of bytes) ---------- *)
(* byte c is the ASCII decimal digit of value d *)
Definition dec_digit (c d : N) : Prop := 48 <= c /\ c <= 57 /\ d = c - 48.

(* value of a digit sequence, most significant first *)
Fixpoint value (acc : N) (ds : list N) : N :=
  match ds with [] => acc | d :: r => value (acc * 10 + d) r end.

(* field f denotes the pattern p: None = '*', Some v = the literal octet v *)
Inductive field : list N -> option N -> Prop :=
| FStar : field [42] None                                                   (* "*" *)
| FNum f ds : f <> [] -> Forall2 dec_digit f ds -> value 0 ds <= 255 ->
              field f (Some (value 0 ds))                                    (* "0" .. "255", "007" *)
| FPlus f ds : f <> [] -> Forall2 dec_digit f ds -> value 0 ds <= 255 ->
               field (43 :: f) (Some (value 0 ds)).                           (* "+1" *)

Definition nodot (f : list N) : Prop := ~ In 46 f.

(* fields joined by '.' *)
Fixpoint join (fs : list (list N)) : list N :=
  match fs with [] => [] | [f] => f | f :: r => f ++ 46 :: join r end.

(* s is a well-formed wildcard string denoting w *)
Definition wildcard_string (s : list N) (w : wildcard) : Prop :=
  exists f3 f2 f1 f0,
    s = join [f3; f2; f1; f0] /\ nodot f3 /\ nodot f2 /\ nodot f1 /\ nodot f0 /\
    field f3 (b3 w) /\ field f2 (b2 w) /\ field f1 (b1 w) /\ field f0 (b0 w).

(* ---------- which peers a filter admits ---------- *)
Definition octet_ok (pattern : option N) (octet : N) : Prop := pattern = None \/ pattern = Some octet.

Definition admits (f : afilter) (peer : ip) : Prop :=
  match f with
  | Any => True
  | Exact a => peer = a
  | AnyOf s => In peer s
  | WildcardIpv4 w => exists a3 a2 a1 a0, peer = V4 a3 a2 a1 a0 /\
                        octet_ok (b3 w) a3 /\ octet_ok (b2 w) a2 /\ octet_ok (b1 w) a1 /\ octet_ok (b0 w) a0
  end.
