(* Reference for the C18/C19 system correspondence that does NOT depend on any generated table: a C-ABI TCP server
   whose application is the programmable application below, as the reference Modbus server (Spec/Modbus.v) over a
   handler built from the database model and from Spec/FfiSpec.write_result_spec (the property's reading of a
   WriteResult). It stays evaluable when Gen/FfiTables.v cannot be regenerated, so that the implementation can still be
   judged against the Spec. Definitions only.

   The programmable application (mirrored by harness/src/cmd/ffi_wire.rs). Its write callbacks treat every written
   item (address a, value v of the written type t = Coil or Holding) as follows:
     a < 100        : rodbus_database_update_<t>(a, v); success iff the point exists, else IllegalDataAddress
     100 <= a < 110 : no change; failure with the (a-100)-th standard exception (9 = Unknown with raw code 0)
     110 <= a < 366 : no change; failure with Unknown and raw code a-110
     a >= 366       : rodbus_database_add_<t>(a, v) then update; success
   and after an item that SUCCEEDED they mirror it into the read-only point types, by a mod 4:
     1 : add-or-update discrete input a := (v <> 0)
     2 : add-or-update input register a := v (a coil counts as 1 / 0)
     3 : delete discrete input a and input register a
     0 : nothing
   Write-multiple applies this item by item and stops at the first failure (earlier items stay). *)
From Coq Require Import NArith List String Bool.
From Rodbus Require Import Base.ServerTypes Base.Show Model.DbTypes Model.Database Spec.Modbus Spec.FfiSpec.
Import ListNotations.
Local Open Scope N_scope.

Definition sp_result := (bool * string * N)%type.      (* WriteResult: success, exception NAME, raw code *)
Local Open Scope string_scope.
Definition std_names : list string :=
  ["IllegalFunction"; "IllegalDataAddress"; "IllegalDataValue"; "ServerDeviceFailure"; "Acknowledge";
   "ServerDeviceBusy"; "MemoryParityError"; "GatewayPathUnavailable"; "GatewayTargetDeviceFailedToRespond"; "Unknown"].
Definition sp_ok : sp_result := (true, "Unknown", 0%N).
Local Open Scope N_scope.

Definition as_N (v : value) : N := match v with VBit b => N.b2n b | VReg r => r end.
Definition add_or_update (d : database) (t : ptype) (a : N) (v : value) : database :=
  fst (exec (fst (exec d (Add t a v))) (Update t a v)).

Definition mirror (d : database) (a : N) (v : value) : database :=
  match a mod 4 with
  | 1%N => add_or_update d Discrete a (VBit (negb (N.eqb (as_N v) 0)))
  | 2%N => add_or_update d Input a (VReg (as_N v))
  | 3%N => fst (exec (fst (exec d (Delete Discrete a))) (Delete Input a))
  | _ => d
  end.

Definition prog2_point (t : ptype) (d : database) (a : N) (v : value) : database * sp_result :=
  if a <? 100 then
    let '(d', r) := exec d (Update t a v) in
    match r with RBool true => (mirror d' a v, sp_ok) | _ => (d', (false, "IllegalDataAddress", 0%N)) end
  else if a <? 110 then (d, (false, nth (N.to_nat (a - 100)) std_names "Unknown", 0%N))
  else if a <? 366 then (d, (false, "Unknown", a - 110))
  else (mirror (add_or_update d t a v) a v, sp_ok).

Fixpoint prog2_points (t : ptype) (d : database) (items : list (N * value)) : database * sp_result :=
  match items with
  | [] => (d, sp_ok)
  | (a, v) :: rest =>
      let '(d1, r) := prog2_point t d a v in
      match r with (true, _, _) => prog2_points t d1 rest | _ => (d1, r) end
  end.

(* the handler result (exception byte, None = Ok) the property prescribes for a WriteResult *)
Definition spec_byte (r : sp_result) : option N :=
  let '(s, name, raw) := r in
  match write_result_spec s name raw with Some x => x | None => Some 0%N end.

(* unit state: database and number of callback invocations; `set` = the application registered its callbacks *)
Definition spec_handler (set : bool) : handler (database * N) := {|
  ServerTypes.read_coil := fun st a => Database.read_coil (fst st) a;
  ServerTypes.read_discrete_input := fun st a => Database.read_discrete_input (fst st) a;
  ServerTypes.read_holding_register := fun st a => Database.read_holding_register (fst st) a;
  ServerTypes.read_input_register := fun st a => Database.read_input_register (fst st) a;
  ServerTypes.write_single_coil := fun st a v =>
    if set then let '(d, r) := prog2_point Coil (fst st) a (VBit v) in ((d, snd st + 1), spec_byte r) else (st, Some 1);
  ServerTypes.write_single_register := fun st a v =>
    if set then let '(d, r) := prog2_point Holding (fst st) a (VReg v) in ((d, snd st + 1), spec_byte r) else (st, Some 1);
  ServerTypes.write_multiple_coils := fun st _ _ items =>
    if set then let '(d, r) := prog2_points Coil (fst st) (map (fun p => (fst p, VBit (snd p))) items) in ((d, snd st + 1), spec_byte r)
    else (st, Some 1);
  ServerTypes.write_multiple_registers := fun st _ _ items =>
    if set then let '(d, r) := prog2_points Holding (fst st) (map (fun p => (fst p, VReg (snd p))) items) in ((d, snd st + 1), spec_byte r)
    else (st, Some 1)
|}%N.

Inductive item :=
| IOps (ops : list op)               (* a batch of rodbus_database_* calls on unit 1's database *)
| IFrame (u : N) (pdu : list N)      (* one MBAP request addressed to unit u *)
| IDup (ops : list op).              (* rodbus_device_map_add_endpoint AGAIN for unit 1 (before the server exists), its configure
                                        callback running ops: refused - returns false, the callback does not run, nothing changes *)

Definition wire_units := ucfg (database * N).
Definition apply_ops (units : wire_units) (ops : list op) : wire_units * list result :=
  let '(d, n) := u_store units 1 in
  let '(d', rs) := Database.run d ops in (with_store units (sset (u_store units) 1 (d', n)), rs).

Definition show_bytes_or_dash (bs : list N) : string := match bs with [] => "-" | _ => show_bytes bs end.

Fixpoint run_items_spec (set : bool) (units : wire_units) (tx : N) (items : list item) : list string * wire_units :=
  match items with
  | [] => ([], units)
  | IOps ops :: rest =>
      let '(units', rs) := apply_ops units ops in
      let '(out, u') := run_items_spec set units' tx rest in
      (match rs with [] => out | _ => show_results rs :: out end, u')
  | IFrame u pdu :: rest =>
      let fr := {| f_tx := Some tx; f_dest := DUnit u; f_pdu := pdu |} in
      let '(bs, units', _) := ref_handle_frame (spec_handler set) LTcp NoAuth units fr in
      let '(out, u') := run_items_spec set units' (tx + 1)%N rest in
      (show_bytes_or_dash bs :: out, u')
  | IDup _ :: rest =>
      let '(out, u') := run_items_spec set units tx rest in ("dup=F" :: out, u')
  end.

Definition run_wire_spec (set : bool) (items : list item) : string :=
  let '(out, units) := run_items_spec set {| u_map := [(1, 1)]%N; u_store := fun _ => (db_empty, 0%N) |} 1%N items in
  show_list (fun s => s) ";" out ++ ";cb=" ++ show_N (snd (u_store units 1%N)).
