(* Oracle for C15, written from the property text: the server is a bounded queue of sessions with
   oldest-first eviction. Sessions are named by their acceptance number (0 = first connection
   ever accepted). At most max(1, max_sessions) are served; a connection arriving at the limit is
   accepted and the oldest one is closed; closing / garbage on one session removes exactly that
   one; a request on a served session reaches the handler, on a closed one it does not; shutdown or
   dropping the handle closes every session and stops accepting.
   Only the alphabet `sop` is shared with the model. *)
From Coq Require Import NArith List Bool Arith.
From Rodbus Require Import Model.Tracker.
Import ListNotations.
Local Open Scope N_scope.

Record sstate := { served : list N; accepted : N; up : bool; value : N }.

Definition capacity (m : nat) : nat := Nat.max 1 m.

Definition sinit : sstate := {| served := []; accepted := 0; up := true; value := 0 |}.

Definition drop_session (k : N) (l : list N) : list N := filter (fun j => negb (j =? k)) l.

Definition sstep (m : nat) (s : sstate) (o : sop) : sstate :=
  if negb (up s) then s else
  match o with
  | Connect | ConnectSilent =>     (* a connection counts from the moment it is accepted, whatever the peer does next *)
      let kept := if (capacity m <=? length (served s))%nat then tl (served s) else served s in
      {| served := kept ++ [accepted s]; accepted := accepted s + 1; up := true; value := value s |}
  | ClientClose k | Garbage k =>
      {| served := drop_session k (served s); accepted := accepted s; up := true; value := value s |}
  | Req k v =>
      if existsb (N.eqb k) (served s)
      then {| served := served s; accepted := accepted s; up := true; value := v |} else s
  | SetDecode | Flood _ | Park _ | Release => s      (* a busy or misbehaving peer keeps its session until it is evicted or the server stops *)
  | Stop | DropHandle => {| served := []; accepted := accepted s; up := false; value := value s |}
  end.

Definition sview (s : sstate) : list N * bool * N := (served s, up s, value s).

Fixpoint strace (m : nat) (s : sstate) (ops : list sop) : list (list N * bool * N) :=
  match ops with
  | [] => []
  | o :: r => let s1 := sstep m s o in sview s1 :: strace m s1 r
  end.
