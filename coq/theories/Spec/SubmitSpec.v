(* C10 on the submit paths: what a caller of ONE request method must receive, whatever path it used.
   Generic in the result type; definitions only.

   A call is described by: do the arguments pass the pre-queue validation of the method (reads: the range is non-empty,
   does not overflow and respects the per-function count limit; writes have none), does the command reach the channel
   task (the task is alive), and `first` = what the task delivers for it (its first completion; Shutdown if the task
   drops the request - C10's main theorems are about that part).
   EXACTLY ONE completion is delivered, and it is:
     arguments rejected            -> bad request   (delivered although nothing was queued)
     task gone                     -> shutdown
     otherwise                     -> first *)
From Coq Require Import List Bool.
Import ListNotations.

Section Submit.
  Variable R : Type.
  Variables bad_request shutdown : R.
  Definition submit_spec (valid reaches_task : bool) (first : R) : R :=
    if valid then (if reaches_task then first else shutdown) else bad_request.
  Definition delivered_exactly (completions : list R) (r : R) : Prop := completions = [r].
End Submit.

(* the C ABI reports through two channels, the return code and the completion callback: the callback fires at most
   once, exactly once when the call returned Ok, and a call that fires nothing has told the caller through its code *)
Definition c_abi_completion_ok (rc_ok : bool) (n_callbacks : nat) : Prop :=
  n_callbacks <= 1 /\ (rc_ok = true -> n_callbacks = 1) /\ (n_callbacks = 0 -> rc_ok = false).
