(* Rendering of the client-system oracle's verdicts (depends on the Spec and the shared data types
   only, so it stays usable when a Gen table - and with it every model file - is unavailable). *)
From Coq Require Import NArith List Bool String.
From Rodbus Require Import Base.Show.
From Rodbus Require Base.Frame Base.ClientTypes Spec.SystemClientSpec.
Import ListNotations.
Module CT := Rodbus.Base.ClientTypes.
Module SS := Rodbus.Spec.SystemClientSpec.
Local Open Scope string_scope.

Definition show_response (v : CT.response) : string :=
  match v with
  | CT.RespBits l => show_list (fun x => show_N (fst x) ++ ":" ++ show_bool (snd x)) "," l
  | CT.RespRegisters l => show_list (fun x => show_N (fst x) ++ ":" ++ show_N (snd x)) "," l
  | CT.RespCoil i v => show_N i ++ ":" ++ show_bool v
  | CT.RespRegister i v => show_N i ++ ":" ++ show_N v
  | CT.RespRange s n => show_N s ++ "+" ++ show_N n
  end.
Definition show_verdict (v : SS.verdict) : string :=
  match v with
  | SS.VValue r => "Ok=" ++ show_response r
  | SS.VException c => "Exception=" ++ show_N c
  | SS.VBadReply => "BadResponse"
  | SS.VBadFrame => "BadFrame"
  | SS.VIo => "Io"
  | SS.VPending => "Pending"
  | SS.VCrash => "CRASH"
  end.


(* the oracle alone: request, its transaction id, the whole byte stream of the connection *)
Definition eval_spec (c : CT.request * N * list N * Base.Frame.fin) : string :=
  show_verdict (SS.ref_client_result (fst (fst (fst c))) (snd (fst (fst c))) (snd (fst c)) (snd c)).
