(* Oracle for the server as a whole: cut the byte stream into frames by the framing rule alone
   (Spec/Framing.v), apply the reference Modbus server to them in order (Spec/Modbus.v). *)
From Coq Require Import NArith List Bool.
From Rodbus Require Base.Frame Base.ServerTypes Spec.Framing Spec.Modbus Model.SystemServer.
Import ListNotations.
Module F := Rodbus.Base.Frame.
Module S := Rodbus.Base.ServerTypes.

Section Sys.
Context {St : Type}.
Variable H : S.handler St.

Definition ref_cut (l : S.link) (s : list N) (fi : F.fin) : list F.frame * F.ending :=
  match l with
  | S.LTcp => Framing.ref_frames s fi
  | S.LRtu => Framing.ref_rtu_frames Framing.Requests s fi
  end.

Definition ref_server_system (l : S.link) (a : S.auth) (units : S.ucfg St) (s : list N) (fi : F.fin) :=
  let r := ref_cut l s fi in
  (Modbus.ref_session H l a units (map SystemServer.to_server_frame (fst r)), snd r).
Definition ref_server_system_result (l : S.link) (a : S.auth) (units : S.ucfg St) (s : list N) (fi : F.fin) :=
  fst (ref_server_system l a units s fi).
End Sys.
