(* Oracle for the client as a whole (one request outstanding on one connection), written from the
   property texts C04 / C05 / C11: cut the connection's byte stream into frames by the MBAP length
   field alone (Spec/Framing.v); the FIRST frame that carries the request's transaction id decides:
   the genuine reply gives its value, the well-formed exception reply its code, anything else is a
   bad reply; frames with other transaction ids are skipped; if the stream ends - by a framing
   error, an I/O error / EOF, or silence - before such a frame, that is the outcome.
   No buffers, no parser, no chunks, no task state.  Imports only the two layer oracles. *)
From Coq Require Import NArith List Bool.
From Rodbus Require Base.Frame Base.ClientTypes Spec.Framing Spec.ClientCodecSpec.
Import ListNotations.
Module F := Rodbus.Base.Frame.
Module CT := Rodbus.Base.ClientTypes.

Inductive verdict :=
| VValue (v : CT.response)        (* the request succeeds with this value *)
| VException (code : N)           (* Modbus exception with this code byte *)
| VBadReply                       (* a frame with the right transaction id that is neither *)
| VBadFrame                       (* the stream broke the framing rules first: the connection ends *)
| VIo                             (* the stream ended (EOF / I/O error) first: the connection ends *)
| VPending                        (* nothing decisive arrived: the request is still outstanding *)
| VCrash.                         (* not reachable (kept so that the model's panics have an image) *)

(* a frame's transaction id (MBAP frames always carry one) *)
Definition tx_is (t : N) (f : F.frame) : bool :=
  match F.f_tx f with Some x => N.eqb x t | None => true end.

(* what a reply PDU means for request r *)
Definition ref_reply_verdict (r : CT.request) (pdu : list N) : verdict :=
  match ClientCodecSpec.ref_reply r pdu with
  | Some v => VValue v
  | None => match ClientCodecSpec.ref_exception r pdu with Some c => VException c | None => VBadReply end
  end.

Definition ref_end_verdict (e : F.ending) : verdict :=
  match e with
  | F.EndBad _ => VBadFrame
  | F.EndIo _ => VIo
  | F.EndPending => VPending
  | F.EndPanic | F.EndOutOfFuel => VCrash
  end.

(* request r was written with transaction id t; s is everything the peer sends on this connection
   before r's deadline, fi how the stream behaves after s *)
Definition ref_client_result (r : CT.request) (t : N) (s : list N) (fi : F.fin) : verdict :=
  let '(fs, e) := Framing.ref_frames s fi in
  match find (tx_is t) fs with
  | Some f => ref_reply_verdict r (F.f_pdu f)
  | None => ref_end_verdict e
  end.
