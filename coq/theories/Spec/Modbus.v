(* Reference Modbus server, written from the MODBUS Application Protocol (V1.1b3, sections 4-7), the
   MODBUS over serial line / TCP framing rules, and the statements of properties C01, C02, C08 and
   C17 - not from the code. No cursors, no buffers, no error plumbing.

   Readings fixed in DESIGN.md section 6: the byte-count byte of a write-multiple request is not
   among the syntactic checks (any value is accepted when the data length matches the quantity);
   the protocol quantity limits are 2000 bits / 125 registers for reads and 1968 bits / 123
   registers for write-multiple. Definitions only; depends on the shared interface types and on the
   definition of CRC-16/MODBUS, not on the model or on generated tables. *)
From Coq Require Import NArith List Bool Arith.
From Rodbus Require Import Base.ServerTypes Model.Crc.
Import ListNotations.
Local Open Scope N_scope.

Definition word (hi lo : N) : N := hi * 256 + lo.
Definition be (v : N) : list N := [v / 256; v mod 256].

(* ---------------------------------------------------------------- requests and their decoding *)
Inductive request :=
| ReadCoils (start count : N) | ReadDiscreteInputs (start count : N)
| ReadHoldingRegisters (start count : N) | ReadInputRegisters (start count : N)
| WriteSingleCoil (addr : N) (v : bool) | WriteSingleRegister (addr v : N)
| WriteMultipleCoils (start : N) (vs : list bool) | WriteMultipleRegisters (start : N) (vs : list N).

Inductive decoded :=
| Empty                       (* no function code at all *)
| Unsupported (fc : N)        (* a function code this server does not implement *)
| Invalid (fc : N)            (* wrong length for its quantity, zero / address-overflowing range,
                                 undefined coil value, or beyond the quantity limits *)
| Valid (fc : N) (r : request).

(* 1 <= quantity <= limit and the last address start + quantity - 1 is at most 0xFFFF *)
Definition range_ok (start count limit : N) : bool :=
  (1 <=? count) && (count <=? limit) && (start + count <=? 65536).

(* bit k of the packed data: bit (k mod 8), counted from the least significant, of byte k / 8 *)
Definition bits_of (count : N) (data : list N) : list bool :=
  map (fun k => N.testbit (nth (k / 8) data 0) (N.of_nat (k mod 8))) (seq 0 (N.to_nat count)).
Fixpoint regs_of (data : list N) : list N :=
  match data with hi :: lo :: r => word hi lo :: regs_of r | _ => [] end.

Definition decode (pdu : list N) : decoded :=
  match pdu with
  | [] => Empty
  | fc :: body =>
      if (fc =? 1) || (fc =? 2) || (fc =? 3) || (fc =? 4) then
        match body with
        | [s1; s0; n1; n0] =>
            let s := word s1 s0 in let n := word n1 n0 in
            if range_ok s n (if fc <=? 2 then 2000 else 125) then
              Valid fc (if fc =? 1 then ReadCoils s n else if fc =? 2 then ReadDiscreteInputs s n
                        else if fc =? 3 then ReadHoldingRegisters s n else ReadInputRegisters s n)
            else Invalid fc
        | _ => Invalid fc
        end
      else if fc =? 5 then
        match body with
        | [a1; a0; v1; v0] =>
            if word v1 v0 =? 0xFF00 then Valid fc (WriteSingleCoil (word a1 a0) true)
            else if word v1 v0 =? 0 then Valid fc (WriteSingleCoil (word a1 a0) false)
            else Invalid fc
        | _ => Invalid fc
        end
      else if fc =? 6 then
        match body with
        | [a1; a0; v1; v0] => Valid fc (WriteSingleRegister (word a1 a0) (word v1 v0))
        | _ => Invalid fc
        end
      else if fc =? 15 then
        match body with
        | s1 :: s0 :: n1 :: n0 :: _ :: data =>
            let s := word s1 s0 in let n := word n1 n0 in
            if range_ok s n 1968 && (N.of_nat (length data) =? (n + 7) / 8)
            then Valid fc (WriteMultipleCoils s (bits_of n data)) else Invalid fc
        | _ => Invalid fc
        end
      else if fc =? 16 then
        match body with
        | s1 :: s0 :: n1 :: n0 :: _ :: data =>
            let s := word s1 s0 in let n := word n1 n0 in
            if range_ok s n 123 && (N.of_nat (length data) =? 2 * n)
            then Valid fc (WriteMultipleRegisters s (regs_of data)) else Invalid fc
        | _ => Invalid fc
        end
      else Unsupported fc
  end.

Definition kind_of (r : request) : kind :=
  match r with
  | ReadCoils _ _ => KReadCoils | ReadDiscreteInputs _ _ => KReadDiscreteInputs
  | ReadHoldingRegisters _ _ => KReadHoldingRegisters | ReadInputRegisters _ _ => KReadInputRegisters
  | WriteSingleCoil _ _ => KWriteSingleCoil | WriteSingleRegister _ _ => KWriteSingleRegister
  | WriteMultipleCoils _ _ => KWriteMultipleCoils | WriteMultipleRegisters _ _ => KWriteMultipleRegisters
  end.
Definition is_write (r : request) : bool := negb (kind_is_read (kind_of r)).

(* the address range (reads, write-multiple) or index (write-single) an authorization handler is told *)
Definition arg_of (r : request) : auth_arg :=
  match r with
  | ReadCoils s n | ReadDiscreteInputs s n | ReadHoldingRegisters s n | ReadInputRegisters s n => ARange s n
  | WriteSingleCoil a _ | WriteSingleRegister a _ => AIndex a
  | WriteMultipleCoils s vs => ARange s (N.of_nat (length vs))
  | WriteMultipleRegisters s vs => ARange s (N.of_nat (length vs))
  end.

(* ---------------------------------------------------------------- responses *)
(* exception response: the function code with its most significant bit set, then the code *)
Definition exception_pdu (fc code : N) : list N := [N.lor fc 128; code].

(* bits packed least significant first, eight to a byte, last byte zero padded *)
Fixpoint byte_of (bits : list bool) : N :=
  match bits with [] => 0 | b :: r => N.b2n b + 2 * byte_of r end.
Fixpoint pack_fuel (fuel : nat) (bits : list bool) : list N :=
  match fuel with
  | O => []
  | S f => match bits with [] => [] | _ => byte_of (firstn 8 bits) :: pack_fuel f (skipn 8 bits) end
  end.
Definition pack (bits : list bool) : list N := pack_fuel (length bits) bits.

(* items handed to a write-multiple handler: address start + i with the i-th transmitted value *)
Fixpoint indexed {A} (start : N) (vs : list A) : list (N * A) :=
  match vs with [] => [] | v :: r => (start, v) :: indexed (start + 1) r end.

Section Ref.
Context {St : Type}.
Variable H : handler St.

(* query addresses a, a+1, ... in ascending order until all n are read or one raises an exception;
   the calls made are exactly that prefix *)
Fixpoint read_seq {A} (get : N -> A + N) (mk : N -> event) (a : N) (n : nat) : (list A + N) * list event :=
  match n with
  | O => (inl [], [])
  | S n' =>
      match get a with
      | inr ex => (inr ex, [mk a])
      | inl v =>
          let '(r, log) := read_seq get mk (a + 1) n' in
          (match r with inl vs => inl (v :: vs) | inr ex => inr ex end, mk a :: log)
      end
  end.

Definition bits_response (fc : N) (r : (list bool + N) * list event) : list N * list event :=
  match r with
  | (inl vs, log) => (fc :: N.of_nat (length (pack vs)) :: pack vs, log)
  | (inr ex, log) => (exception_pdu fc ex, log)
  end.
Definition regs_response (fc : N) (r : (list N + N) * list event) : list N * list event :=
  match r with
  | (inl vs, log) => (fc :: 2 * N.of_nat (length vs) :: flat_map be vs, log)
  | (inr ex, log) => (exception_pdu fc ex, log)
  end.
Definition write_response (fc : N) (res : option N) (echo : list N) : list N :=
  match res with None => fc :: echo | Some ex => exception_pdu fc ex end.

(* the one handler call a write makes on the handler object with index u *)
Definition write_call (u : N) (r : request) : list event :=
  match r with
  | WriteSingleCoil a v => [EvWriteSingleCoil u a v]
  | WriteSingleRegister a v => [EvWriteSingleRegister u a v]
  | WriteMultipleCoils s vs => [EvWriteMultipleCoils u s (N.of_nat (length vs)) (indexed s vs)]
  | WriteMultipleRegisters s vs => [EvWriteMultipleRegisters u s (N.of_nat (length vs)) (indexed s vs)]
  | _ => []
  end.
Definition apply_write (st : St) (r : request) : St * option N :=
  match r with
  | WriteSingleCoil a v => write_single_coil H st a v
  | WriteSingleRegister a v => write_single_register H st a v
  | WriteMultipleCoils s vs => write_multiple_coils H st s (N.of_nat (length vs)) (indexed s vs)
  | WriteMultipleRegisters s vs => write_multiple_registers H st s (N.of_nat (length vs)) (indexed s vs)
  | _ => (st, None)
  end.

(* executing a valid request against the handler object with index u in state st: new state,
   response PDU, calls made *)
Definition ref_exec (fc u : N) (st : St) (r : request) : St * list N * list event :=
  match r with
  | ReadCoils s n =>
      let '(pdu, log) := bits_response fc (read_seq (read_coil H st) (EvReadCoil u) s (N.to_nat n)) in (st, pdu, log)
  | ReadDiscreteInputs s n =>
      let '(pdu, log) := bits_response fc (read_seq (read_discrete_input H st) (EvReadDiscreteInput u) s (N.to_nat n)) in (st, pdu, log)
  | ReadHoldingRegisters s n =>
      let '(pdu, log) := regs_response fc (read_seq (read_holding_register H st) (EvReadHoldingRegister u) s (N.to_nat n)) in (st, pdu, log)
  | ReadInputRegisters s n =>
      let '(pdu, log) := regs_response fc (read_seq (read_input_register H st) (EvReadInputRegister u) s (N.to_nat n)) in (st, pdu, log)
  | WriteSingleCoil a v =>
      let '(st', res) := apply_write st r in
      (st', write_response fc res (be a ++ be (if v then 0xFF00 else 0)), write_call u r)
  | WriteSingleRegister a v =>
      let '(st', res) := apply_write st r in (st', write_response fc res (be a ++ be v), write_call u r)
  | WriteMultipleCoils s vs =>
      let '(st', res) := apply_write st r in (st', write_response fc res (be s ++ be (N.of_nat (length vs))), write_call u r)
  | WriteMultipleRegisters s vs =>
      let '(st', res) := apply_write st r in (st', write_response fc res (be s ++ be (N.of_nat (length vs))), write_call u r)
  end.

(* a broadcast write is applied to every configured unit id in turn, in unit id order, results
   dropped. Each unit id's write goes to the handler object that unit id is mapped to, so an object
   serving k unit ids sees the write k times, each on the state the previous one left. *)
Fixpoint apply_all (m : list (N * N)) (g : N -> St) (r : request) : (N -> St) * list event :=
  match m with
  | [] => (g, [])
  | (_, h) :: rest =>
      let '(g', log) := apply_all rest (sset g h (fst (apply_write (g h) r))) r in
      (g', write_call h r ++ log)
  end.

(* ---------------------------------------------------------------- framing of a reply *)
(* MBAP: transaction id, protocol id 0, length = unit id + PDU, unit id; RTU: address, PDU, CRC low byte first *)
Definition adu (l : link) (tx : option N) (unit : N) (pdu : list N) : list N :=
  match l with
  | LTcp => be (match tx with Some t => t | None => 0 end) ++ [0; 0] ++ be (N.of_nat (length pdu) + 1) ++ [unit] ++ pdu
  | LRtu => let body := unit :: pdu in body ++ [crc body mod 256; crc body / 256]
  end.

(* ---------------------------------------------------------------- one frame *)
(* is the request permitted, and the authorization query it causes *)
Definition authorize (a : auth) (u : N) (r : request) : bool * list event :=
  match a with
  | NoAuth => (true, [])
  | AuthHandler p role => (p (kind_of r) u (arg_of r) role, [EvAuth (kind_of r) u (arg_of r) role])
  end.

(* reply bytes (nil = silence), unit states afterwards, application calls *)
Definition ref_handle_frame (l : link) (a : auth) (units : ucfg St) (fr : frame)
  : list N * ucfg St * list event :=
  (* only a frame addressed to a configured unit id is ever answered (C17), with one exception:
     the authorization veto comes before the unit lookup (C08, the carve-out C01 mentions) *)
  let served := match f_dest fr with DUnit u => match lookup u (u_map units) with Some _ => true | None => false end | DBroadcast => false end in
  let answer pdu := if served then adu l (f_tx fr) (dest_value (f_dest fr)) pdu else [] in
  match decode (f_pdu fr) with
  | Empty => ([], units, [])
  | Unsupported fc => (answer (exception_pdu fc 1), units, [])
  | Invalid fc => (answer (exception_pdu fc 3), units, [])
  | Valid fc r =>
      let '(ok, alog) := authorize a (dest_value (f_dest fr)) r in
      if negb ok then
        ((if dest_is_broadcast (f_dest fr) then [] else adu l (f_tx fr) (dest_value (f_dest fr)) (exception_pdu fc 1)), units, alog)
      else match f_dest fr with
           | DUnit u =>
               match lookup u (u_map units) with
               | None => ([], units, alog)
               | Some h =>
                   let '(st', pdu, log) := ref_exec fc h (u_store units h) r in
                   (adu l (f_tx fr) u pdu, with_store units (sset (u_store units) h st'), alog ++ log)
               end
           | DBroadcast =>
               if is_write r then
                 let '(g', log) := apply_all (u_map units) (u_store units) r in ([], with_store units g', alog ++ log)
               else ([], units, alog)
           end
  end.

(* ---------------------------------------------------------------- a connection *)
Fixpoint ref_session (l : link) (a : auth) (units : ucfg St) (frames : list frame)
  : list (list N) * ucfg St * list event :=
  match frames with
  | [] => ([], units, [])
  | fr :: rest =>
      let '(reply, units', log) := ref_handle_frame l a units fr in
      let '(rs, units'', log') := ref_session l a units' rest in
      (reply :: rs, units'', log ++ log')
  end.

(* ---------------------------------------------------------------- C02: the handler calls a frame must cause *)
Definition read_calls (u : N) (st : St) (r : request) : list event :=
  match r with
  | ReadCoils s n => snd (read_seq (read_coil H st) (EvReadCoil u) s (N.to_nat n))
  | ReadDiscreteInputs s n => snd (read_seq (read_discrete_input H st) (EvReadDiscreteInput u) s (N.to_nat n))
  | ReadHoldingRegisters s n => snd (read_seq (read_holding_register H st) (EvReadHoldingRegister u) s (N.to_nat n))
  | ReadInputRegisters s n => snd (read_seq (read_input_register H st) (EvReadInputRegister u) s (N.to_nat n))
  | _ => []
  end.

(* one write call for a valid, permitted write to a configured unit (one per configured unit id for a
   broadcast write, on the handler object that unit id maps to); the ascending prefix start .. first failing address for a valid, permitted
   read of a configured unit; nothing otherwise *)
Definition spec_calls (a : auth) (units : ucfg St) (fr : frame) : list event :=
  match decode (f_pdu fr) with
  | Valid _ r =>
      if fst (authorize a (dest_value (f_dest fr)) r) then
        match f_dest fr with
        | DUnit u =>
            match lookup u (u_map units) with
            | None => []
            | Some h => if is_write r then write_call h r else read_calls h (u_store units h) r
            end
        | DBroadcast => if is_write r then flat_map (fun uh => write_call (snd uh) r) (u_map units) else []
        end
      else []
  | _ => []
  end.
End Ref.
