(* Oracle for C18, written from the property text:
   "each error, exception, decode level and connection state is reported as its same-named
    counterpart. The result (success, standard exception or raw exception code) returned by an
    application write callback is what the client receives for all four write functions, and every
    completion callback fires exactly once whether or not the call itself reports an error."

   Names are plain strings; nothing here depends on generated files or on the model. *)
From Coq Require Import NArith List String Ascii Bool.
Import ListNotations.
Local Open Scope string_scope.

(* ---------- same-named ---------- *)
(* identifiers are compared after dropping '_' and folding ASCII case: V1_2 ~ V12, function_code ~ FunctionCode *)
Definition lower (c : ascii) : ascii :=
  let n := nat_of_ascii c in
  if (Nat.leb 65 n && Nat.leb n 90)%bool then ascii_of_nat (n + 32) else c.

Fixpoint norm (s : string) : string :=
  match s with
  | EmptyString => EmptyString
  | String c r => if Ascii.eqb c "_"%char then norm r else String (lower c) (norm r)
  end.

Definition same_name (a b : string) : bool := String.eqb (norm a) (norm b).

(* The C naming of three RequestError values appends a noun; these are the only aliases admitted. *)
Definition request_error_alias : list (string * string) :=
  [("Io", "IoError"); ("BadFrame", "BadFraming"); ("Internal", "InternalError")].

Definition in_alias (l : list (string * string)) (a b : string) : bool :=
  existsb (fun p => String.eqb (fst p) a && String.eqb (snd p) b) l.

Definition request_error_name_ok (rust ffi : string) : bool :=
  same_name rust ffi || in_alias request_error_alias rust ffi.

(* a Modbus exception e is reported to the C side as ModbusException<e> *)
Definition exception_name_ok (rust ffi : string) : bool := same_name ("ModbusException" ++ rust) ffi.

(* parameter / construction errors: same name, or one of these documented renamings *)
Definition param_error_alias : list (string * string) :=
  [("ChannelFull", "TooManyRequests"); ("ChannelClosed", "Shutdown"); ("BadRange", "InvalidRange");
   ("BadConfig", "BadTlsConfig")].
Definition param_error_name_ok (rust ffi : string) : bool :=
  same_name rust ffi || in_alias param_error_alias rust ffi.

(* ---------- Modbus exception codes (MODBUS Application Protocol V1.1b3, section 7) ---------- *)
Local Open Scope N_scope.
Definition standard_exception_name (code : N) : string :=
  match code with
  | 1 => "IllegalFunction"
  | 2 => "IllegalDataAddress"
  | 3 => "IllegalDataValue"
  | 4 => "ServerDeviceFailure"
  | 5 => "Acknowledge"
  | 6 => "ServerDeviceBusy"
  | 8 => "MemoryParityError"
  | 10 => "GatewayPathUnavailable"
  | 11 => "GatewayTargetDeviceFailedToRespond"
  | _ => "Unknown"
  end%string.

Definition standard_exception_code (name : string) : option N :=
  find (fun c => String.eqb (standard_exception_name c) name) [1; 2; 3; 4; 5; 6; 8; 10; 11].

(* what the client must receive for a write whose application callback returned
   (success, exception name, raw code): None = a positive reply, Some b = exception reply with code b *)
Definition write_result_spec (success : bool) (exception_name : string) (raw : N) : option (option N) :=
  if success then Some None
  else if String.eqb exception_name "Unknown" then Some (Some raw)
  else option_map Some (standard_exception_code exception_name).

(* ---------- plain data ("unit ids, ranges, values, timeouts and configuration pass through unchanged") ---------- *)
(* which C-side field must feed which Rust-side field / constructor parameter *)
Local Open Scope string_scope.
Definition field_spec : list (string * string * string) :=
  [("Indexed<bool>", "index", "index"); ("Indexed<bool>", "value", "value");
   ("Indexed<u16>", "index", "index"); ("Indexed<u16>", "value", "value");
   ("ffi::AddressRange", "start", "start"); ("ffi::AddressRange", "count", "count");
   ("RequestParam", "id", "unit_id"); ("RequestParam", "response_timeout", "timeout");
   ("doubling_retry_strategy", "min", "min_delay"); ("doubling_retry_strategy", "max", "max_delay")].

(* ---------- constructors ("configuration passes through unchanged") ---------- *)
(* for each parameter of a Rust client / server constructor: the C argument expression that may feed it
   (whitespace removed): the same-named C argument, converted by .into() / `as usize` / the address helpers *)
Definition param_spec : list (string * string) :=
  [("host", "get_host_addr(host,port)?"); ("addr", "get_socket_addr(ip_addr,port)?");
   ("max_queued_requests", "max_queued_requestsasusize"); ("max_sessions", "max_sessionsasusize");
   ("retry", "retry_strategy.into()"); ("retry", "retry.into()");
   ("decode_level", "decode_level.into()"); ("decode", "decode_level.into()");
   ("listener", "Some(listener.into())"); ("path", "&path.to_string_lossy()");
   ("serial_settings", "serial_params.into()"); ("settings", "serial_params.into()");
   ("tls_config", "tls_config.try_into()?"); ("tls_config", "tls_config");
   ("handlers", "handler_map.clone()"); ("filter", "filter.into()");
   ("auth_handler", "AuthorizationHandlerWrapper::new(auth).wrap()")].
Definition plumbing_row_ok (row : string * string * string * string) : bool :=
  let '(_, _, param, expr) := row in
  existsb (fun p => String.eqb (fst p) param && String.eqb (snd p) expr) param_spec.
(* the constructors the C ABI offers and the Rust constructors they must reach *)
Definition ctor_spec : list (string * string) :=
  [("client_channel_create_tcp", "spawn_tcp_client_task"); ("client_channel_create_rtu", "spawn_rtu_client_task");
   ("client_channel_create_tls", "spawn_tls_client_task"); ("server_create_tcp", "spawn_tcp_server_task");
   ("server_create_rtu", "spawn_rtu_server_task"); ("server_create_tls_impl", "spawn_tls_server_task_with_authz");
   ("server_create_tls_impl", "spawn_tls_server_task")].

(* ---------- a caller-owned value list across calls ("a list is unchanged by being passed to a call") ---------- *)
(* what a C caller does with ONE rodbus_bit_list / rodbus_register_list object: add a value, or pass the object to a
   write-multiple call with the given start address. The k-th call must carry exactly the values added so far, in order:
   passing the list to a call neither empties nor otherwise changes it (periodic write of a prepared block, retry after
   TooManyRequests, one more value added between two calls). *)
Inductive list_step (A : Type) := LsAdd (x : A) | LsCall (start : N).
Arguments LsAdd {A}. Arguments LsCall {A}.
Fixpoint list_calls_spec {A} (l : list A) (steps : list (list_step A)) : list (N * list A) :=
  match steps with
  | [] => []
  | LsAdd x :: rest => list_calls_spec (l ++ [x]) rest
  | LsCall s :: rest => (s, l) :: list_calls_spec l rest
  end.

(* ---------- TLS configuration through the C ABI ("configuration passes through unchanged") ---------- *)
(* The C-side configuration of rodbus_client_channel_create_tls (enum values by name; the three file paths are not
   interpreted, they must be handed over as they are) ... *)
Record tls_client_in := { ti_mode : string; ti_dns_name : string; ti_wildcard : bool; ti_password : string; ti_min : string }.
(* ... and the Rust API constructor call it must be equivalent to: constructor, expected server name (None = the server
   name is not verified), the C-side fields that feed the three paths, password, minimum TLS version. The result of the C
   function is the result of THIS call (Ok, or the same-named ParamError). *)
Record tls_call := { tc_ctor : string; tc_name : option string; tc_files : list string; tc_password : option string;
                     tc_min : string; tc_mode : option string }.
Definition opt_of_string (s : string) : option string := if String.eqb s "" then None else Some s.
Definition tls_min_spec (m : string) : option string :=
  if String.eqb m "V12" then Some "V1_2" else if String.eqb m "V13" then Some "V1_3" else None.
Definition tls_files : list string := ["peer_cert_path"; "local_cert_path"; "private_key_path"].
(* dns_name is the expected server name, verbatim; only "*" TOGETHER WITH allow_server_name_wildcard switches name
   verification off ("If set to true, a '*' may be used for dns_name to bypass server name validation"). An empty
   password means "no password". The self-signed mode does not use the name. *)
Definition tls_client_spec (i : tls_client_in) : option tls_call :=
  match tls_min_spec (ti_min i) with
  | None => None
  | Some m =>
      if String.eqb (ti_mode i) "AuthorityBased" then
        Some {| tc_ctor := "full_pki";
                tc_name := if ti_wildcard i && String.eqb (ti_dns_name i) "*" then None else Some (ti_dns_name i);
                tc_files := tls_files; tc_password := opt_of_string (ti_password i); tc_min := m; tc_mode := None |}
      else if String.eqb (ti_mode i) "SelfSigned" then
        Some {| tc_ctor := "self_signed"; tc_name := None; tc_files := tls_files; tc_password := opt_of_string (ti_password i);
                tc_min := m; tc_mode := None |}
      else None
  end.
(* rodbus_server_create_tls / _with_authz: TlsServerConfig::new with the same-named certificate mode *)
Record tls_server_in := { tsi_mode : string; tsi_password : string; tsi_min : string }.
Definition tls_server_spec (i : tls_server_in) : option tls_call :=
  match tls_min_spec (tsi_min i) with
  | None => None
  | Some m =>
      if String.eqb (tsi_mode i) "AuthorityBased" || String.eqb (tsi_mode i) "SelfSigned" then
        Some {| tc_ctor := "TlsServerConfig::new"; tc_name := None; tc_files := tls_files; tc_password := opt_of_string (tsi_password i);
                tc_min := m; tc_mode := Some (tsi_mode i) |}
      else None
  end.

(* ---------- state listeners ---------- *)
(* the adapter that hands a C listener to the Rust API keeps nothing but the C callbacks and forwards EVERY update,
   unconditionally (repeated equal states included): its update is `self.inner.on_change(value.into()); MaybeAsync::ready(())` *)
Definition listener_adapter_ok (r : string * list string * list string) : bool :=
  let '(_, fields, body) := r in
  match fields, body with
  | [f], [b1; b2] => String.eqb f "inner" && String.eqb b1 "self.inner.on_change(value.into())" && String.eqb b2 "MaybeAsync::ready(())"
  | _, _ => false
  end.

(* ---------- enable / disable through the C ABI ---------- *)
(* Ok means the setting was queued for the channel task (the Rust API's Channel::enable / disable return after the
   command is in the queue): FfiChannel keeps no state of its own and enable / disable are exactly the try_send *)
Definition ffi_settings_spec : list (string * list string) :=
  [("enable", ["self.send(Command::Setting(Setting::Enable))"]); ("disable", ["self.send(Command::Setting(Setting::Disable))"])].
