(* Oracle for C03 and C04, written from the property text and the Modbus Application Protocol
   (V1.1b3, sections 6.1-6.6, 6.11, 6.12, 7) and the Modbus messaging guide (MBAP header) /
   Modbus over serial line (RTU frame, CRC low byte first). No cursors, no buffers, no constants
   taken from the code. The only import besides the data types is the bitwise definition of
   CRC-16/MODBUS. *)
From Coq Require Import NArith List Bool Arith.
From Rodbus Require Import Base.ClientTypes Model.Crc.
Import ListNotations.
Local Open Scope N_scope.

(* ------------------------------------------------------------------ encoding primitives *)
(* a 16 bit quantity, most significant byte first *)
Definition be (v : N) : list N := [v / 256; v mod 256].

(* up to eight coils in one byte, first coil in the least significant bit *)
Fixpoint byte_of_bits (bits : list bool) : N :=
  match bits with
  | [] => 0
  | b :: r => (if b then 1 else 0) + 2 * byte_of_bits r
  end.

(* coils packed eight per byte in transmission order; the last byte is padded with zeros *)
Fixpoint pack_aux (fuel : nat) (bits : list bool) : list N :=
  match fuel with
  | O => []
  | S f => match bits with
           | [] => []
           | _ => byte_of_bits (firstn 8 bits) :: pack_aux f (skipn 8 bits)
           end
  end.
Definition pack (bits : list bool) : list N := pack_aux (length bits) bits.

Definition len {A} (l : list A) : N := N.of_nat (length l).
Definition bytes_for_bits (n : N) : N := (n + 7) / 8.

(* ------------------------------------------------------------------ C03: requests *)
(* the request PDU: function code, then the data of MODBUS Application Protocol section 6 *)
Definition ref_pdu (c : call) : list N :=
  match c with
  | CReadCoils s n => 1 :: be s ++ be n
  | CReadDiscreteInputs s n => 2 :: be s ++ be n
  | CReadHoldingRegisters s n => 3 :: be s ++ be n
  | CReadInputRegisters s n => 4 :: be s ++ be n
  | CWriteSingleCoil i v => 5 :: be i ++ (if v then [255; 0] else [0; 0])
  | CWriteSingleRegister i v => 6 :: be i ++ be v
  | CWriteMultipleCoils s vs => 15 :: be s ++ be (len vs) ++ [bytes_for_bits (len vs)] ++ pack vs
  | CWriteMultipleRegisters s vs => 16 :: be s ++ be (len vs) ++ [2 * len vs] ++ flat_map be vs
  end.

(* MBAP: transaction id, protocol id 0, length (unit id + PDU), unit id, PDU *)
Definition ref_encode_tcp (tx unit : N) (c : call) : list N :=
  let pdu := ref_pdu c in be tx ++ [0; 0] ++ be (len pdu + 1) ++ [unit] ++ pdu.

(* RTU: address, PDU, CRC-16 of both, low byte first *)
Definition ref_encode_rtu (unit : N) (c : call) : list N :=
  let body := unit :: ref_pdu c in body ++ [crc body mod 256; crc body / 256].

(* non-empty range inside the 16 bit address space *)
Definition range_ok (start count : N) : bool := (1 <=? count) && (start + count <=? 65536).

(* the protocol's quantity limits *)
Definition within_limits_b (c : call) : bool :=
  match c with
  | CReadCoils s n | CReadDiscreteInputs s n => range_ok s n && (n <=? 2000)
  | CReadHoldingRegisters s n | CReadInputRegisters s n => range_ok s n && (n <=? 125)
  | CWriteSingleCoil _ _ | CWriteSingleRegister _ _ => true
  | CWriteMultipleCoils s vs => range_ok s (len vs) && (len vs <=? 1968)
  | CWriteMultipleRegisters s vs => range_ok s (len vs) && (len vs <=? 123)
  end.
Definition within_limits (c : call) : Prop := within_limits_b c = true.

(* ------------------------------------------------------------------ C04: replies *)
Definition reply_fc (r : request) : N :=
  match r with
  | RReadCoils _ => 1 | RReadDiscreteInputs _ => 2 | RReadHoldingRegisters _ => 3 | RReadInputRegisters _ => 4
  | RWriteSingleCoil _ _ => 5 | RWriteSingleRegister _ _ => 6
  | RWriteMultipleCoils _ _ => 15 | RWriteMultipleRegisters _ _ => 16
  end.

(* coil k of a packed reply: bit (k mod 8) of byte (k / 8); register k: bytes 2k, 2k+1 big-endian *)
Definition bit_at (data : list N) (k : nat) : bool :=
  N.testbit (nth (k / 8) data 0) (N.of_nat (k mod 8)).
Definition reg_at (data : list N) (k : nat) : N :=
  nth (2 * k) data 0 * 256 + nth (2 * k + 1) data 0.
(* count values, the k-th one at address start + k *)
Definition indexed {A} (start : N) (f : nat -> A) (count : N) : list (N * A) :=
  map (fun k => (start + N.of_nat k, f k)) (seq 0 (N.to_nat count)).

Definition u16 (h l : N) : N := h * 256 + l.

(* Some v  iff  pdu is the genuine reply to r (right function code, exactly the length the
   request implies, writes echoed); v is then the data it carries. The byte-count byte of a read
   reply is redundant with the length and is not constrained (the property lists function code,
   length and echo). *)
Definition ref_reply (r : request) (pdu : list N) : option response :=
  match r, pdu with
  | RReadCoils (s, n), f :: _ :: data =>
      if (f =? 1) && (len data =? bytes_for_bits n) then Some (RespBits (indexed s (bit_at data) n)) else None
  | RReadDiscreteInputs (s, n), f :: _ :: data =>
      if (f =? 2) && (len data =? bytes_for_bits n) then Some (RespBits (indexed s (bit_at data) n)) else None
  | RReadHoldingRegisters (s, n), f :: _ :: data =>
      if (f =? 3) && (len data =? 2 * n) then Some (RespRegisters (indexed s (reg_at data) n)) else None
  | RReadInputRegisters (s, n), f :: _ :: data =>
      if (f =? 4) && (len data =? 2 * n) then Some (RespRegisters (indexed s (reg_at data) n)) else None
  | RWriteSingleCoil i v, [f; i1; i0; v1; v0] =>
      if (f =? 5) && (u16 i1 i0 =? i) && (u16 v1 v0 =? (if v then 65280 else 0)) then Some (RespCoil i v) else None
  | RWriteSingleRegister i v, [f; i1; i0; v1; v0] =>
      if (f =? 6) && (u16 i1 i0 =? i) && (u16 v1 v0 =? v) then Some (RespRegister i v) else None
  | RWriteMultipleCoils (s, n) _, [f; s1; s0; n1; n0] =>
      if (f =? 15) && (u16 s1 s0 =? s) && (u16 n1 n0 =? n) then Some (RespRange s n) else None
  | RWriteMultipleRegisters (s, n) _, [f; s1; s0; n1; n0] =>
      if (f =? 16) && (u16 s1 s0 =? s) && (u16 n1 n0 =? n) then Some (RespRange s n) else None
  | _, _ => None
  end.

(* a well-formed exception reply: function code + 0x80, one exception code byte, nothing else *)
Definition ref_exception (r : request) (pdu : list N) : option N :=
  match pdu with
  | [f; code] => if f =? reply_fc r + 128 then Some code else None
  | _ => None
  end.

(* the reply a conforming server sends for data v (reads: values; writes: the echo); bc is the
   byte-count byte, hi the unused high bits of the last coil byte *)
Definition ref_read_bits_reply (fc bc : N) (bits : list bool) : list N := fc :: bc :: pack bits.
Definition ref_read_registers_reply (fc bc : N) (regs : list N) : list N := fc :: bc :: flat_map be regs.

(* ------------------------------------------------------------------ C03 over a session *)
(* Which calls reach the client task (and are given a transaction id there): every read within the
   limits, every single write, and every write-multiple whose WriteMultiple value could be built
   (at most 65535 values, non-empty, no address overflow) - EVEN IF its count exceeds the function's
   limit: such a request is rejected by the task when it formats the frame, after it has taken an id. *)
Definition reaches_task (c : call) : bool :=
  match c with
  | CWriteMultipleCoils s vs | CWriteMultipleRegisters s vs => range_ok s (len vs) && (len vs <=? 65535)
  | _ => within_limits_b c
  end.

(* The wire log of one connection on which the calls cs = [(unit id, call); ...] are executed one
   after the other (each to completion), k requests having reached the task before: the frames of
   the calls within the limits, in order, the i-th request that reaches the task carrying
   transaction id i mod 65536 (MBAP; an RTU frame carries none). *)
Fixpoint ref_session_wire (tcp : bool) (k : N) (cs : list (N * call)) : list (list N) :=
  match cs with
  | [] => []
  | (uid, c) :: rest =>
      if within_limits_b c
      then (if tcp then ref_encode_tcp (k mod 65536) uid c else ref_encode_rtu uid c) :: ref_session_wire tcp (k + 1) rest
      else ref_session_wire tcp (if reaches_task c then k + 1 else k) rest
  end.

(* ------------------------------------------------------------------ C03: the complete byte stream of a connection *)
(* What happens to the connection while a call is being executed: the request is transmitted and
   the call runs to completion (reply, exception, bad reply or response timeout - whatever the peer
   sends meanwhile: stale or foreign frames, duplicates, partial replies, nothing); or the
   transport takes only the first j bytes of the frame before the request's timeout expires; or
   the connection is lost (I/O error, framing error) while the call waits for its reply. *)
Record call_fate := { cut_after : option nat;     (* Some j: the transport takes at most j bytes of the frame in time *)
                      connection_lost : bool }. (* the connection is lost while the call waits for its reply *)
Definition FateDone : call_fate := {| cut_after := None; connection_lost := false |}.
Definition FateCut (j : nat) : call_fate := {| cut_after := Some j; connection_lost := false |}.
Definition FateLost : call_fate := {| cut_after := None; connection_lost := true |}.

(* Everything the client writes on ONE connection, as one byte stream: the encodings of the calls
   within the limits, each exactly once, in order, nothing else - "or nothing" for every other
   call. A frame that the transport did not take completely within the request's timeout appears
   as a PREFIX of its encoding and is the last thing on the connection (the client closes it: the
   stream is unusable); nothing follows a lost connection either. *)
Fixpoint ref_session_stream (tcp : bool) (k : N) (cs : list (N * call * call_fate)) : list N :=
  match cs with
  | [] => []
  | (uid, c, fate) :: rest =>
      if within_limits_b c then
        let e := if tcp then ref_encode_tcp (k mod 65536) uid c else ref_encode_rtu uid c in
        let whole := e ++ (if connection_lost fate then [] else ref_session_stream tcp (k + 1) rest) in
        match cut_after fate with
        | Some j => if Nat.ltb j (length e) then firstn j e else whole
        | None => whole
        end
      else ref_session_stream tcp (if reaches_task c then k + 1 else k) rest
  end.

(* ------------------------------------------------------------------ C03 through the C ABI: caller-owned value lists *)
(* The C API passes the values of a write-multiple request in a caller-owned list object
   (rodbus_bit_list / rodbus_register_list): the caller adds values, hands the list to
   rodbus_client_channel_write_multiple_*, may add more values and hand it over again. A step is
   `inl values` (rodbus_*_list_add for each value) or `inr (unit, start)` (one write call). Each
   write call transmits the encoding of the values the list holds AT CALL TIME: the list is the
   caller's, a call does not change it. *)
Fixpoint ref_list_calls {A} (mk : N -> list A -> call) (held : list A) (steps : list (list A + N * N)) : list (N * call) :=
  match steps with
  | [] => []
  | inl vs :: rest => ref_list_calls mk (held ++ vs) rest
  | inr (uid, start) :: rest => (uid, mk start held) :: ref_list_calls mk held rest
  end.
