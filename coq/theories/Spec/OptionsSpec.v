(* Spec of the ClientOptions builder, written from its documentation (types.rs rustdoc), not from its code.

   "A ClientOptions builder": every call `.setter(v)` sets the option the setter is documented to set and nothing
   else; an option no call sets has its documented default.  So the value of an option after a chain of calls is the
   argument of the LAST call of its setter, whatever other setters are called before, between or after.

     channel_logging(v)        "Set the channel logging type"                       defaults to Verbose (code 0)
     max_queued_requests(v)    "Set the maximum number of queued requests"          defaults to 16
     decode_level(v)           "Set the decode level"                               defaults to DecodeLevel::default() (code 0)
     max_response_timeouts(v)  "Set the maximum number of consecutive response timeouts before forcing a
                                reconnect"                                           defaults to None (code 0): no limit

   Options and setters are identified by NAME (strings), so this file does not depend on the generated table. *)
From Coq Require Import NArith List String.
Import ListNotations.
Local Open Scope string_scope.

(* the option a setter sets *)
Definition setter_option (m : string) : option string :=
  if m =? "channel_logging" then Some "channel_logging"
  else if m =? "max_queued_requests" then Some "max_queued_requests"
  else if m =? "decode_level" then Some "decode_level"
  else if m =? "max_response_timeouts" then Some "max_timeouts"
  else None.

Definition option_default (n : string) : N := if n =? "max_queued_requests" then 16%N else 0%N.

Definition sets (m n : string) : bool := match setter_option m with Some x => x =? n | None => false end.

(* the value of option n after the calls cs (setter name, argument), applied left to right *)
Definition spec_value (cs : list (string * N)) (n : string) : N :=
  fold_left (fun acc c => if sets (fst c) n then snd c else acc) cs (option_default n).

(* C12: the limit in force on a TCP / TLS channel built from these options (None: never dropped for timeouts) *)
Definition spec_limit (cs : list (string * N)) : option N :=
  match spec_value cs "max_timeouts" with 0%N => None | n => Some n end.

Example spec_limit_survives_later_calls :
  spec_limit [("max_response_timeouts", 3%N); ("channel_logging", 1%N); ("decode_level", 2%N)] = Some 3%N.
Proof. reflexivity. Qed.
Example spec_last_call_wins :
  spec_limit [("max_response_timeouts", 3%N); ("max_queued_requests", 4%N); ("max_response_timeouts", 0%N)] = None.
Proof. reflexivity. Qed.
