(* Oracle for C04 through the C ABI: the name under which an exception reply reaches a completion
   callback. Written from the Modbus standard and the C header; no imports from the code. *)
From Coq Require Import NArith String.
Local Open Scope N_scope.

(* MODBUS Application Protocol V1.1b3 section 7, exception codes. The C API (rodbus.h,
   rodbus_request_error_t) reports an exception reply to every completion callback as
   MODBUS_EXCEPTION_<NAME>, any other code byte as MODBUS_EXCEPTION_UNKNOWN. *)
Definition exception_standard_name (code : N) : option string :=
  match code with
  | 1 => Some "IllegalFunction"
  | 2 => Some "IllegalDataAddress"
  | 3 => Some "IllegalDataValue"
  | 4 => Some "ServerDeviceFailure"
  | 5 => Some "Acknowledge"
  | 6 => Some "ServerDeviceBusy"
  | 8 => Some "MemoryParityError"
  | 10 => Some "GatewayPathUnavailable"
  | 11 => Some "GatewayTargetDeviceFailedToRespond"
  | _ => None
  end%string.
Definition cabi_exception_name (code : N) : string :=
  ("ModbusException" ++ match exception_standard_name code with Some n => n | None => "Unknown" end)%string.
