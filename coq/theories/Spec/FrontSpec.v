(* Oracle for the composed server front-end, built from the layer Specs ONLY (no generated table,
   no model): the address filter as the property text describes it (any / exactly this address /
   one of these / IPv4 wildcard with '*' octets), Spec/TrackerSpec.v (bounded queue, oldest-first
   eviction, shutdown), Spec/TlsSpec.v `expected` (admission, role). A script of peer operations
   yields, after every operation, which connections are served and with which role.
   Also owns the script alphabet of the front-end correspondence. *)
From Coq Require Import NArith List Bool String.
From Rodbus Require Import Base.Show Model.Tracker Spec.TrackerSpec Spec.TlsSpec.
Import ListNotations.
Local Open Scope N_scope.

Inductive pkind := KPlain | KSilent | KGood | KViewer | KBad | KRoleless.
Inductive fop := OConnect (src : N) (k : pkind) | OClose (k : nat) | OShutdown | ODrop.
Inductive tkind := TTcp | TTls | TTlsAuthz.

Definition cert_of (chains : bool) (roles : list string) : peer_cert :=
  {| chains_to_authority := chains; identical_to_configured := false; within_validity := true; name_matches := false;
     cert_exts := Some (OtherExtension 0 :: map ModbusRole roles) |}.
Definition tls_peer (c : peer_cert) : TlsSpec.peer := {| offers12 := true; offers13 := true; presented := c |}.

(* what a TLS peer of each kind offers and presents (ground truth relative to the server's authority) *)
Definition tls_peer_of (k : pkind) : option TlsSpec.peer :=
  match k with
  | KPlain | KSilent => None
  | KGood => Some (tls_peer (cert_of true ["operator"%string]))
  | KViewer => Some (tls_peer (cert_of true ["viewer"%string]))
  | KBad => Some (tls_peer (cert_of false ["operator"%string]))
  | KRoleless => Some (tls_peer (cert_of true []))
  end.


Definition show_item (served : bool) (role : option string) : string :=
  if served then match role with Some r => ("S:" ++ r)%string | None => "S"%string end else "-"%string.

(* the address filter of the property text, IPv4 sources *)
Inductive sfilter :=
| FAny
| FExact (a : N * N * N * N)
| FAnyOf (l : list (N * N * N * N))
| FWildcard (w : option N * option N * option N * option N).   (* None = '*' *)

Definition addr_eqb (x y : N * N * N * N) : bool :=
  let '(a, b, c, d) := x in let '(a', b', c', d') := y in (a =? a') && (b =? b') && (c =? c') && (d =? d').
Definition octet_matches (o : option N) (v : N) : bool := match o with None => true | Some x => x =? v end.
Definition admitted (f : sfilter) (x : N * N * N * N) : bool :=
  match f with
  | FAny => true
  | FExact a => addr_eqb a x
  | FAnyOf l => existsb (fun a => addr_eqb a x) l
  | FWildcard (w3, w2, w1, w0) => let '(a, b, c, d) := x in octet_matches w3 a && octet_matches w2 b && octet_matches w1 c && octet_matches w0 d
  end.

Section SpecDriver.
Variable flt : sfilter.
Variable tk : tkind.

(* does establishment succeed, and with which role is the session authorized (None = no authorization) *)
Definition spec_establish (k : pkind) : option (option string) :=
  match tk with
  | TTcp => Some None
  | TTls | TTlsAuthz =>
      let authz := match tk with TTlsAuthz => true | _ => false end in
      match tls_peer_of k with
      | Some p =>
          match expected {| e_side := ServerSide; e_min := TLS12; e_mode := ModeAuthority; e_authz := authz; e_expects_name := false |} p with
          | Established _ role => Some (if authz then role else None)
          | Refused => None
          end
      | None => None
      end
  end.

(* per connection: its acceptance number (None = never admitted) and what establishment gave *)
Definition sdstate : Type := sstate * list (option N * pkind).

Definition spec_do (m : nat) (s : sdstate) (o : fop) : sdstate :=
  let '(st, idx) := s in
  match o with
  | OConnect src k =>
      if admitted flt (127, 0, 0, src) && up st then
        let id := accepted st in
        let st1 := TrackerSpec.sstep m st Connect in
        let st2 := match k, spec_establish k with
                   | KSilent, _ => st1                     (* waits in the handshake: keeps its slot *)
                   | _, Some _ => st1
                   | _, None => TrackerSpec.sstep m st1 (ClientClose id)
                   end in
        (st2, idx ++ [(Some id, k)])
      else (st, idx ++ [(None, k)])
  | OClose k =>
      match nth_error idx k with
      | Some (Some id, _) => (TrackerSpec.sstep m st (ClientClose id), idx)
      | _ => (st, idx)
      end
  | OShutdown => (TrackerSpec.sstep m st Stop, idx)
  | ODrop => (TrackerSpec.sstep m st DropHandle, idx)
  end.

Definition spec_items (st : sstate) (idx : list (option N * pkind)) : list string :=
  map (fun e : option N * pkind =>
         match e with
         | (Some id, k) =>
             match k, spec_establish k with
             | KSilent, _ => show_item false None
             | _, Some role => show_item (existsb (N.eqb id) (TrackerSpec.served st)) role
             | _, None => show_item false None
             end
         | (None, _) => show_item false None
         end) idx.

Fixpoint spec_drive (m : nat) (s : sdstate) (ops : list fop) : list string :=
  match ops with
  | [] => []
  | o :: r => let s1 := spec_do m s o in show_list (fun x => x) "," (spec_items (fst s1) (snd s1)) :: spec_drive m s1 r
  end.

Definition spec_trace (m : nat) (ops : list fop) : string :=
  show_list (fun x => x) "|" (spec_drive m (sinit, []) ops).
End SpecDriver.
