(* Result of a Rust operation: a value, an error of class E, or a panic (overflow with overflow
   checks on, slice indexing out of range, unwrap/expect on None/Err). "Never panics" is then the
   theorem that Panic is unreachable, not an artefact of totalisation. *)
Inductive outcome (E A : Type) : Type :=
| Ok (a : A)
| Err (e : E)
| Panic.
Arguments Ok {E A} a.
Arguments Err {E A} e.
Arguments Panic {E A}.

Definition obind {E A B} (x : outcome E A) (f : A -> outcome E B) : outcome E B :=
  match x with Ok a => f a | Err e => Err e | Panic => Panic end.
Definition omap {E A B} (f : A -> B) (x : outcome E A) : outcome E B :=
  match x with Ok a => Ok (f a) | Err e => Err e | Panic => Panic end.
Definition of_option {E A} (e : E) (o : option A) : outcome E A :=
  match o with Some a => Ok a | None => Err e end.

Declare Scope outcome_scope.
Notation "x <- a ;; b" := (obind a (fun x => b)) (at level 61, a at next level, right associativity) : outcome_scope.
Notation "' p <- a ;; b" := (obind a (fun p => b)) (at level 61, p pattern, a at next level, right associativity) : outcome_scope.
