(* Interface types shared by the server model (Model/Server.v) and the protocol Spec
   (Spec/Modbus.v): frames as delivered by the reader, the application's point handlers as an
   arbitrary state machine, the authorization policy's argument types, and the ordered log of
   application-visible calls. Definitions only. *)
From Coq Require Import NArith List.
Import ListNotations.
Local Open Scope N_scope.

(* the eight request kinds *)
Inductive kind := KReadCoils | KReadDiscreteInputs | KReadHoldingRegisters | KReadInputRegisters
                | KWriteSingleCoil | KWriteSingleRegister | KWriteMultipleCoils | KWriteMultipleRegisters.

Definition kind_is_read (k : kind) : bool :=
  match k with KReadCoils | KReadDiscreteInputs | KReadHoldingRegisters | KReadInputRegisters => true | _ => false end.

(* what an authorization callback is told about the request *)
Inductive auth_arg := ARange (start count : N) | AIndex (idx : N).

(* destination of a frame: on serial links address 0 is the broadcast address *)
Inductive dest := DUnit (u : N) | DBroadcast.
Definition dest_value (d : dest) : N := match d with DUnit u => u | DBroadcast => 0 end.
Definition dest_is_broadcast (d : dest) : bool := match d with DBroadcast => true | _ => false end.

(* a frame delivered by the reader: transaction id (MBAP only), destination, PDU bytes *)
Record frame := { f_tx : option N; f_dest : dest; f_pdu : list N }.

(* the link a session runs on (MBAP over TCP/TLS, or RTU over a serial line) *)
Inductive link := LTcp | LRtu.

(* application point handlers: an arbitrary deterministic state machine. Reads cannot change the
   state (`&self` in the trait) and yield a value or an exception code; writes yield the new state
   and an optional exception code. The write-multiple handlers receive start, count and the items
   the iterator yields. *)
Record handler (St : Type) := {
  read_coil : St -> N -> bool + N;
  read_discrete_input : St -> N -> bool + N;
  read_holding_register : St -> N -> N + N;
  read_input_register : St -> N -> N + N;
  write_single_coil : St -> N -> bool -> St * option N;
  write_single_register : St -> N -> N -> St * option N;
  write_multiple_coils : St -> N -> N -> list (N * bool) -> St * option N;
  write_multiple_registers : St -> N -> N -> list (N * N) -> St * option N }.
Arguments read_coil {St}. Arguments read_discrete_input {St}. Arguments read_holding_register {St}.
Arguments read_input_register {St}. Arguments write_single_coil {St}. Arguments write_single_register {St}.
Arguments write_multiple_coils {St}. Arguments write_multiple_registers {St}.

(* a role string as its bytes *)
Definition role := list N.

(* authorization: none (plain TCP / RTU), or a policy consulted with the session's role *)
Definition policy := kind -> N -> auth_arg -> role -> bool.
Inductive auth := NoAuth | AuthHandler (p : policy) (r : role).

(* ordered log of everything the application sees; in the handler events u = index of the handler
   object that is called (the object does not know through which unit id), in EvAuth the frame's unit id *)
Inductive event :=
| EvReadCoil (u a : N) | EvReadDiscreteInput (u a : N)
| EvReadHoldingRegister (u a : N) | EvReadInputRegister (u a : N)
| EvWriteSingleCoil (u a : N) (v : bool) | EvWriteSingleRegister (u a v : N)
| EvWriteMultipleCoils (u start count : N) (items : list (N * bool))
| EvWriteMultipleRegisters (u start count : N) (items : list (N * N))
| EvAuth (k : kind) (u : N) (arg : auth_arg) (r : role).

Definition is_auth_event (e : event) : bool := match e with EvAuth _ _ _ _ => true | _ => false end.
Definition handler_events (l : list event) : list event := filter (fun e => negb (is_auth_event e)) l.
Definition auth_events (l : list event) : list event := filter is_auth_event l.

(* association lists *)
Section Assoc.
Context {A : Type}.
Fixpoint lookup (u : N) (m : list (N * A)) : option A :=
  match m with [] => None | (k, s) :: r => if k =? u then Some s else lookup u r end.
End Assoc.

(* ServerHandlerMap: BTreeMap<UnitId, Arc<Mutex<Box<T>>>>. Two unit ids may hold the SAME handler
   object, so the map goes from unit id to a handler index (ascending unit id, as the BTreeMap
   iterates) and the states are kept per handler index: a write through unit 1 is visible through
   unit 2 when both map to the same index. *)
Record ucfg (St : Type) := { u_map : list (N * N); u_store : N -> St }.
Arguments u_map {St}. Arguments u_store {St}.
Definition sset {St} (g : N -> St) (h : N) (s : St) : N -> St := fun k => if k =? h then s else g k.
Definition with_store {St} (us : ucfg St) (g : N -> St) : ucfg St := {| u_map := u_map us; u_store := g |}.
