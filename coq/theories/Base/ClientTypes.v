(* Data shared by the client codec model (Model/ClientRequest.v) and its oracle
   (Spec/ClientCodecSpec.v): what a user hands to the Channel API, what the client task holds
   once the request has been constructed, and what a completed request returns. Numbers are N;
   the Rust types are u16 / u8 / Vec<bool> / Vec<u16> (well-formedness predicates below). *)
From Coq Require Import NArith List Bool.
Import ListNotations.
Local Open Scope N_scope.

(* the arguments of one Channel API call: for reads the RAW fields (start, count) of the
   AddressRange handed to Channel::read_* (public fields: any pair in u16 x u16, validated or
   not); for write-multiple the arguments of WriteMultiple::from(start, values) *)
Inductive call :=
| CReadCoils (start count : N)
| CReadDiscreteInputs (start count : N)
| CReadHoldingRegisters (start count : N)
| CReadInputRegisters (start count : N)
| CWriteSingleCoil (index : N) (value : bool)
| CWriteSingleRegister (index value : N)
| CWriteMultipleCoils (start : N) (values : list bool)
| CWriteMultipleRegisters (start : N) (values : list N).

(* client/message.rs RequestDetails, without the promise: ranges are (start, count) *)
Inductive request :=
| RReadCoils (r : N * N)
| RReadDiscreteInputs (r : N * N)
| RReadHoldingRegisters (r : N * N)
| RReadInputRegisters (r : N * N)
| RWriteSingleCoil (index : N) (value : bool)
| RWriteSingleRegister (index value : N)
| RWriteMultipleCoils (r : N * N) (values : list bool)
| RWriteMultipleRegisters (r : N * N) (values : list N).

(* the value a request future resolves to: Vec<Indexed<bool>>, Vec<Indexed<u16>>, Indexed<bool>,
   Indexed<u16>, AddressRange *)
Inductive response :=
| RespBits (l : list (N * bool))
| RespRegisters (l : list (N * N))
| RespCoil (index : N) (value : bool)
| RespRegister (index value : N)
| RespRange (start count : N).

Definition is_u16 (v : N) : Prop := v < 65536.
Definition is_u8 (v : N) : Prop := v < 256.

(* the arguments are of the Rust types (u16 everywhere, registers u16) *)
Definition call_wf (c : call) : Prop :=
  match c with
  | CReadCoils s n | CReadDiscreteInputs s n | CReadHoldingRegisters s n | CReadInputRegisters s n => is_u16 s /\ is_u16 n
  | CWriteSingleCoil i _ => is_u16 i
  | CWriteSingleRegister i v => is_u16 i /\ is_u16 v
  | CWriteMultipleCoils s _ => is_u16 s
  | CWriteMultipleRegisters s vs => is_u16 s /\ Forall is_u16 vs
  end.

(* a range as AddressRange::try_from returns it: u16 start and count, non-empty, inside the
   address space; a request as the API constructs it *)
Definition range_wf (rg : N * N) : Prop :=
  is_u16 (fst rg) /\ is_u16 (snd rg) /\ 1 <= snd rg /\ fst rg + snd rg <= 65536.
Definition request_wf (r : request) : Prop :=
  match r with
  | RReadCoils rg | RReadDiscreteInputs rg | RReadHoldingRegisters rg | RReadInputRegisters rg => range_wf rg
  | RWriteSingleCoil _ _ | RWriteSingleRegister _ _ => True
  | RWriteMultipleCoils rg _ | RWriteMultipleRegisters rg _ => range_wf rg
  end.
