(* The session loop with its command channel, as a transition system over the list of `select!`
   outcomes, generic in the per-frame handler `hf` (instantiated with the model of
   SessionTask::handle_frame in Model/ServerRun.v and with the reference server in
   Model/ServerRender.v).

   SessionTask::run_one is
     select! { frame = reader.next_frame() => handle_frame(frame),  cmd = commands.recv() => apply_command(cmd) }
   and a reply is written by write_reply, which is
     select! { res = io.write(bytes) => res,  _ = (loop: recv() -> ChangeDecoding: apply, go on; Shutdown / None: return) => Err(Shutdown) }
   `select!` picks a ready branch at random; an event is the branch that was taken, so quantifying
   over all event lists covers every arrival order and every tie-break:
     parked in run_one    : EFrame f | EReadFailed | ECommand c | EClosed
     parked in write_reply: EWriteDone | EWriteFailed | ECommand c | EClosed
   EWriteDone / EWriteFailed while parked in run_one and EFrame / EReadFailed while parked in write_reply (the reader is not polled
   during a write) are not possible outcomes; `run` skips them, `possible` recognises the lists that
   contain none. Definitions only. *)
From Coq Require Import NArith List Bool.
From Rodbus Require Import Base.Outcome Base.ServerTypes.
Import ListNotations.
Local Open Scope N_scope.

(* ServerCommand; a decode level is an opaque number *)
Inductive command := ChangeDecoding (level : N) | Shutdown.

Inductive sevent :=
| EFrame (f : frame)          (* next_frame returned f *)
| EReadFailed                 (* next_frame returned an error (bad frame, I/O error, end of stream): `frame?` *)
| ECommand (c : command)      (* commands.recv() returned Some c *)
| EClosed                     (* commands.recv() returned None: every ServerHandle / the server task is gone *)
| EWriteDone                  (* io.write completed: the reply is on the wire *)
| EWriteFailed.               (* io.write returned an error: `Ok(res?)` in write_reply, `?` in handle_frame and run *)

Inductive run_end (E : Type) :=
| ROpen                        (* events exhausted, parked in run_one's select *)
| RBlocked (reply : list N)    (* events exhausted, parked in write_reply with this reply not yet delivered *)
| RShutdown                    (* RequestError::Shutdown *)
| RIo                          (* RequestError::Io: the reply write failed *)
| RReader                      (* the error next_frame returned (BadFrame / Io) *)
| RError (e : E)               (* a reply could not be formatted *)
| RPanic.
Arguments ROpen {E}. Arguments RBlocked {E}. Arguments RShutdown {E}. Arguments RIo {E}. Arguments RReader {E}. Arguments RError {E}. Arguments RPanic {E}.

Inductive mode := MIdle | MWriting (reply : list N).

Section Run.
Context {St E : Type}.
(* handling one frame: bytes to write (nil = nothing) or an error, new units, application calls *)
Variable hf : ucfg St -> frame -> outcome E (list N) * ucfg St * list event.

(* (replies delivered, in order; units; application calls; decode level; how it ended) *)
Fixpoint run (units : ucfg St) (decode : N) (m : mode) (evs : list sevent)
  : list (list N) * ucfg St * list event * N * run_end E :=
  match evs with
  | [] => ([], units, [], decode, match m with MIdle => ROpen | MWriting r => RBlocked r end)
  | ev :: rest =>
      match ev with
      | ECommand (ChangeDecoding d) => run units d m rest            (* apply_command / write_reply: *decode = x *)
      | ECommand Shutdown | EClosed => ([], units, [], decode, RShutdown)   (* a reply being written is dropped *)
      | EFrame f =>
          match m with
          | MWriting _ => run units decode m rest                    (* not possible: skipped *)
          | MIdle =>
              match hf units f with
              | (Ok bytes, units', lg) =>
                  let '(ws, u, lg', d, e) := run units' decode (match bytes with [] => MIdle | _ => MWriting bytes end) rest in
                  (ws, u, lg ++ lg', d, e)
              | (Err e, units', lg) => ([], units', lg, decode, RError e)
              | (Panic, units', lg) => ([], units', lg, decode, RPanic)
              end
          end
      | EWriteDone =>
          match m with
          | MIdle => run units decode m rest                         (* not possible: skipped *)
          | MWriting r => let '(ws, u, lg, d, e) := run units decode MIdle rest in (r :: ws, u, lg, d, e)
          end
      | EReadFailed =>
          match m with
          | MWriting _ => run units decode m rest                    (* not possible: skipped *)
          | MIdle => ([], units, [], decode, RReader)
          end
      | EWriteFailed =>
          match m with
          | MIdle => run units decode m rest                         (* not possible: skipped *)
          | MWriting _ => ([], units, [], decode, RIo)               (* the session ends; the handler's effects stay *)
          end
      end
  end.

(* the view that forgets the decode level *)
Definition observable (x : list (list N) * ucfg St * list event * N * run_end E)
  : list (list N) * ucfg St * list event * run_end E :=
  let '(ws, u, lg, _, e) := x in (ws, u, lg, e).

(* the event list without any ChangeDecoding *)
Fixpoint strip (evs : list sevent) : list sevent :=
  match evs with
  | [] => []
  | ECommand (ChangeDecoding _) :: rest => strip rest
  | ev :: rest => ev :: strip rest
  end.

(* a connection on which nothing but requests happens and every write completes at once *)
Definition plain (frames : list frame) : list sevent := flat_map (fun f => [EFrame f; EWriteDone]) frames.
End Run.

(* a frame handler that cannot fail *)
Definition ok_result {A B C E : Type} (x : A * B * C) : outcome E A * B * C := let '(a, b, c) := x in (Ok a, b, c).

