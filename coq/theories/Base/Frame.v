(* Observable vocabulary of the framing layer (C05/C06/C07): what a reader delivers and how a
   stream can end. Shared by the model (Model/Reader.v), the oracle (Spec/Framing.v) and the
   harness output format (harness/src/cmd/frames.rs prints exactly `show_run`). *)
From Coq Require Import NArith List String Bool.
From Rodbus Require Import Base.Show.
Import ListNotations.
Local Open Scope string_scope.

(* common/frame.rs: Frame { header: FrameHeader { destination, tx_id }, payload } *)
Record frame := { f_tx : option N; f_dest : N; f_bcast : bool; f_pdu : list N }.

(* error.rs: FrameParseError (the BadFrame classes) and RequestError::Internal *)
Inductive ferr :=
| UnknownProtocolId (p : N)
| FrameLengthTooBig (len max : nat)
| MbapLengthZero
| UnknownFunctionCode (fc : N)
| CrcValidationFailure (received expected : N)
| InternalError.                         (* RequestError::Internal(InsufficientBytesForRead..) *)

Inductive ioerr := UnexpectedEof | IoOther.

(* how the byte source behaves once the scripted chunks are used up *)
Inductive fin := FinEof | FinPending | FinErr.

(* how a reader run ends *)
Inductive ending :=
| EndBad (e : ferr)       (* next_frame returned Err(BadFrame(..)) / Err(Internal(..)) *)
| EndIo (k : ioerr)       (* next_frame returned Err(Io(..)) *)
| EndPending              (* next_frame is waiting for bytes that never come *)
| EndPanic
| EndOutOfFuel.

(* one thing a reader that is polled again after a framing error delivers *)
Inductive item := IFrame (f : frame) | IErr (e : ferr).

Definition show_frame (f : frame) : string :=
  "F(" ++ show_option show_N "-" (f_tx f) ++ "," ++ show_N (f_dest f) ++ "," ++ show_bool (f_bcast f) ++ ","
       ++ show_bytes (f_pdu f) ++ ")".
Definition show_ferr (e : ferr) : string :=
  match e with
  | UnknownProtocolId p => "BadFrame:UnknownProtocolId(" ++ show_N p ++ ")"
  | FrameLengthTooBig l m => "BadFrame:FrameLengthTooBig(" ++ show_nat l ++ "," ++ show_nat m ++ ")"
  | MbapLengthZero => "BadFrame:MbapLengthZero"
  | UnknownFunctionCode fc => "BadFrame:UnknownFunctionCode(" ++ show_N fc ++ ")"
  | CrcValidationFailure r x => "BadFrame:Crc(" ++ show_N r ++ "," ++ show_N x ++ ")"
  | InternalError => "Internal"
  end.
Definition show_ending (e : ending) : string :=
  match e with
  | EndBad e => show_ferr e
  | EndIo UnexpectedEof => "Io(UnexpectedEof)"
  | EndIo IoOther => "Io(Other)"
  | EndPending => "Pending"
  | EndPanic => "PANIC"
  | EndOutOfFuel => "OutOfFuel"
  end.
Definition show_item (i : item) : string :=
  match i with IFrame f => show_frame f | IErr e => "E(" ++ show_ferr e ++ ")" end.

Definition show_run (r : list item * ending) : string :=
  match fst r with
  | [] => show_ending (snd r)
  | l => show_list show_item " " l ++ " " ++ show_ending (snd r)
  end.
Definition show_frames (r : list frame * ending) : string := show_run (map IFrame (fst r), snd r).
