(* Rendering of model results as strings, so that the correspondence check can print one result
   per case and compare it textually with what the harness prints for the implementation. *)
From Coq Require Import NArith List String Ascii Bool.
Import ListNotations.
Local Open Scope string_scope.

Definition hex_digit (n : N) : ascii :=
  match n with
  | 0%N => "0" | 1%N => "1" | 2%N => "2" | 3%N => "3" | 4%N => "4" | 5%N => "5" | 6%N => "6" | 7%N => "7"
  | 8%N => "8" | 9%N => "9" | 10%N => "A" | 11%N => "B" | 12%N => "C" | 13%N => "D" | 14%N => "E" | _ => "F"
  end%char.

Definition show_byte (b : N) : string :=
  String (hex_digit (N.div b 16)) (String (hex_digit (N.modulo b 16)) EmptyString).

Fixpoint show_bytes (bs : list N) : string :=
  match bs with
  | [] => ""
  | b :: r => show_byte b ++ show_bytes r
  end.

(* decimal, least significant digit produced first, fuel = number of binary digits + 1 *)
Fixpoint show_N_aux (fuel : nat) (n : N) (acc : string) : string :=
  match fuel with
  | O => acc
  | S f =>
      let d := N.modulo n 10 in
      let acc' := String (hex_digit d) acc in
      let q := N.div n 10 in
      if N.eqb q 0 then acc' else show_N_aux f q acc'
  end.
Definition show_N (n : N) : string := show_N_aux (S (N.to_nat (N.size n))) n "".
Definition show_nat (n : nat) : string := show_N (N.of_nat n).
Definition show_bool (b : bool) : string := if b then "1" else "0".

Fixpoint show_list {A} (f : A -> string) (sep : string) (l : list A) : string :=
  match l with
  | [] => ""
  | [x] => f x
  | x :: r => f x ++ sep ++ show_list f sep r
  end.

Definition show_option {A} (f : A -> string) (none : string) (o : option A) : string :=
  match o with None => none | Some x => f x end.
