(* Compact case descriptions shared by the evaluation glue of the client checks (Model/ClientShow.v)
   and the Spec-only fallback (Spec/ClientSpecEval.v): value vectors from a seed, calls from the
   harness's (kind, start, count/value, values) fields. Depends on the data types only. *)
From Coq Require Import NArith List Bool String Ascii.
From Rodbus Require Import Base.Show Base.ClientTypes.
Import ListNotations.
Local Open Scope N_scope.

(* ---- value vectors: `s<seed>` with a count, or an explicit list ---- *)
Inductive vals := Seed (seed n : N) | Lst (l : list N).

Definition gen_u16 (seed i : N) : N :=
  if seed =? 0 then 0 else if seed =? 1 then 65535
  else N.land (seed * 7919 + i * 25173 + N.shiftr i 3 * 4099 + 13849) 65535.   (* = (.. + (i / 8) * 4099 + ..) mod 65536 *)
Fixpoint gen_list (fuel : nat) (seed i : N) : list N :=
  match fuel with O => [] | S f => gen_u16 seed i :: gen_list f seed (i + 1) end.
Definition expand (v : vals) : list N :=
  match v with Seed s n => gen_list (N.to_nat n) s 0 | Lst l => l end.
Definition to_coil (seeded : bool) (v : N) : bool :=
  if seeded then N.testbit v 4 else negb (v =? 0).   (* (v / 16) mod 2 = 1 *)
Definition expand_bits (v : vals) : list bool :=
  match v with
  | Seed s n => if s =? 0 then repeat false (N.to_nat n) else if s =? 1 then repeat true (N.to_nat n)
                else map (to_coil true) (gen_list (N.to_nat n) s 0)
  | Lst l => map (to_coil false) l
  end.

(* kind = Modbus function number; c = count / value as in the harness input line *)
Definition mk_call (kind s c : N) (v : vals) : call :=
  match kind with
  | 1 => CReadCoils s c
  | 2 => CReadDiscreteInputs s c
  | 3 => CReadHoldingRegisters s c
  | 4 => CReadInputRegisters s c
  | 5 => CWriteSingleCoil s (negb (c =? 0))
  | 6 => CWriteSingleRegister s c
  | 15 => CWriteMultipleCoils s (expand_bits v)
  | _ => CWriteMultipleRegisters s (expand v)
  end.


(* a byte string passed as (length, big-endian number) *)
Fixpoint bytes_of_aux (len : nat) (x : N) (acc : list N) : list N :=
  match len with O => acc | S l => bytes_of_aux l (N.shiftr x 8) (N.land x 255 :: acc) end.
Definition bytes_of (len : nat) (x : N) : list N := bytes_of_aux len x [].

(* the canonical rendering of a response (harness cresp / cconn format) *)
Local Open Scope string_scope.
Local Open Scope N_scope.
Definition show_hex4 (v : N) : string := show_byte (v / 256) ++ show_byte (v mod 256).
Fixpoint show_bits (l : list (N * bool)) : string :=
  match l with [] => "" | (_, b) :: r => String (if b then "1" else "0")%char (show_bits r) end.
Fixpoint show_regs (l : list (N * N)) : string :=
  match l with [] => "" | (_, v) :: r => show_hex4 v ++ show_regs r end.
Definition first_index {A} (l : list (N * A)) : string :=
  match l with [] => "-" | (i, _) :: _ => show_N i end.
Fixpoint consecutive {A} (i : N) (l : list (N * A)) : bool :=
  match l with [] => true | (j, _) :: r => (i =? j) && consecutive (i + 1) r end.
Definition show_indexed {A} (body : list (N * A) -> string) (l : list (N * A)) : string :=
  match l with
  | [] => "OK - -"
  | (i, _) :: _ => if consecutive i l then "OK " ++ show_N i ++ " " ++ body l else "OKX"
  end.
Definition show_response (r : response) : string :=
  match r with
  | RespBits l => show_indexed show_bits l
  | RespRegisters l => show_indexed show_regs l
  | RespCoil i v => "OK " ++ show_N i ++ " " ++ (if v then "1" else "0")
  | RespRegister i v => "OK " ++ show_N i ++ " " ++ show_hex4 v
  | RespRange s n => "OK " ++ show_N s ++ " " ++ show_N n
  end.

