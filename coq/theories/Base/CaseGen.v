(* Compact case descriptions shared by the evaluation glue of the client checks (Model/ClientShow.v)
   and the Spec-only fallback (Spec/ClientSpecEval.v): value vectors from a seed, calls from the
   harness's (kind, start, count/value, values) fields. Depends on the data types only. *)
From Coq Require Import NArith List Bool.
From Rodbus Require Import Base.ClientTypes.
Import ListNotations.
Local Open Scope N_scope.

(* ---- value vectors: `s<seed>` with a count, or an explicit list ---- *)
Inductive vals := Seed (seed n : N) | Lst (l : list N).

Definition gen_u16 (seed i : N) : N :=
  if seed =? 0 then 0 else if seed =? 1 then 65535
  else N.land (seed * 7919 + i * 25173 + N.shiftr i 3 * 4099 + 13849) 65535.   (* = (.. + (i / 8) * 4099 + ..) mod 65536 *)
Fixpoint gen_list (fuel : nat) (seed i : N) : list N :=
  match fuel with O => [] | S f => gen_u16 seed i :: gen_list f seed (i + 1) end.
Definition expand (v : vals) : list N :=
  match v with Seed s n => gen_list (N.to_nat n) s 0 | Lst l => l end.
Definition to_coil (seeded : bool) (v : N) : bool :=
  if seeded then N.testbit v 4 else negb (v =? 0).   (* (v / 16) mod 2 = 1 *)
Definition expand_bits (v : vals) : list bool :=
  match v with
  | Seed s n => if s =? 0 then repeat false (N.to_nat n) else if s =? 1 then repeat true (N.to_nat n)
                else map (to_coil true) (gen_list (N.to_nat n) s 0)
  | Lst l => map (to_coil false) l
  end.

(* kind = Modbus function number; c = count / value as in the harness input line *)
Definition mk_call (kind s c : N) (v : vals) : call :=
  match kind with
  | 1 => CReadCoils s c
  | 2 => CReadDiscreteInputs s c
  | 3 => CReadHoldingRegisters s c
  | 4 => CReadInputRegisters s c
  | 5 => CWriteSingleCoil s (negb (c =? 0))
  | 6 => CWriteSingleRegister s c
  | 15 => CWriteMultipleCoils s (expand_bits v)
  | _ => CWriteMultipleRegisters s (expand v)
  end.

