(* scursor::ReadCursor / WriteCursor as used by rodbus. A byte is an N below 256. *)
From Coq Require Import NArith List Bool Arith.
Import ListNotations.
Local Open Scope N_scope.

Definition byte_ok (b : N) : bool := b <? 256.
Definition bytes_ok (l : list N) : bool := forallb byte_ok l.
Definition u16_ok (v : N) : bool := v <? 65536.

Definition hi8 (v : N) : N := v / 256.
Definition lo8 (v : N) : N := v mod 256.
Definition be16 (v : N) : list N := [hi8 v; lo8 v].
Definition le16 (v : N) : list N := [lo8 v; hi8 v].
Definition u16_of (h l : N) : N := h * 256 + l.

(* ---- ReadCursor: the remaining input ---- *)
Definition rcur := list N.
Definition rd_u8 (c : rcur) : option (N * rcur) :=
  match c with b :: r => Some (b, r) | [] => None end.
Definition rd_u16 (c : rcur) : option (N * rcur) :=
  match c with h :: l :: r => Some (u16_of h l, r) | _ => None end.
Definition rd_bytes (n : nat) (c : rcur) : option (list N * rcur) :=
  if Nat.leb n (length c) then Some (firstn n c, skipn n c) else None.
Definition rd_is_empty (c : rcur) : bool := match c with [] => true | _ => false end.

(* ---- WriteCursor over a buffer of w_cap bytes: bytes written so far, oldest first ---- *)
Record wcur := { w_cap : nat; w_out : list N }.
Definition wnew (cap : nat) : wcur := {| w_cap := cap; w_out := [] |}.
Definition wr_u8 (w : wcur) (b : N) : option wcur :=
  if Nat.ltb (length (w_out w)) (w_cap w) then Some {| w_cap := w_cap w; w_out := w_out w ++ [b] |} else None.
Definition wr_u16_be (w : wcur) (v : N) : option wcur :=
  match wr_u8 w (hi8 v) with Some w1 => wr_u8 w1 (lo8 v) | None => None end.
Definition wr_u16_le (w : wcur) (v : N) : option wcur :=
  match wr_u8 w (lo8 v) with Some w1 => wr_u8 w1 (hi8 v) | None => None end.
Fixpoint wr_bytes (w : wcur) (bs : list N) : option wcur :=
  match bs with
  | [] => Some w
  | b :: r => match wr_u8 w b with Some w1 => wr_bytes w1 r | None => None end
  end.
Definition w_pos (w : wcur) : nat := length (w_out w).
