(* GENERATED stub: translator could not parse the source: TxId::next not understood *)
