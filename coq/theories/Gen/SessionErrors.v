(* GENERATED stub: translator could not parse the source: from_request_err: pattern not understood: RequestError::BadFrame(
                FrameParseError::CrcValidationFailure(_, _)
                | FrameParseError::UnknownFunctionCode(_)
                 *)
