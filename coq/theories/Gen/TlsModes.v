(* GENERATED stub: translator could not parse the source: TlsClientConfig::new: min_tls_version not forwarded to self_signed *)
