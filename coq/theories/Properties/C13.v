(* C13 - Client connection life-cycle is a legal state path; requests fail fast when down.
   Only statements, closed by `exact`, each followed by Print Assumptions.
   The listener trace of a run is the sequence of OListen outputs, starting with the Disabled that
   TcpChannelTask::run reports before anything else (`init_outputs`).  `Lifecycle.legal` is the
   Spec automaton written from the property text.  `es` ranges over ALL event lists. *)
From Coq Require Import NArith List.
From Rodbus Require Import Model.Retry Spec.Lifecycle Spec.ClientSpec Gen.SessionErrors Model.ClientTask Model.SerialTask
  Proofs.ClientBase Proofs.C13Proofs Proofs.C13Live Proofs.C13Serial Proofs.C13Wait.
Import ListNotations.
Local Open Scope N_scope.

(* the listener always observes a legal path: Disabled first; Connecting only from Disabled or a
   wait state; Connected only directly after Connecting; a wait state after every failed connect
   (WaitAfterFailedConnect) or lost connection (WaitAfterDisconnect); Disabled after a disable;
   Shutdown last *)
Theorem C13_legal : forall cfg hn mt rmin rmax es,
  legal (listens_of (init_outputs ++ snd (run cfg (init hn mt rmin rmax) es))) = true.
Proof. exact c13_legal. Qed.
Print Assumptions C13_legal.

(* Shutdown at most once, and then last *)
Theorem C13_shutdown_last : forall cfg hn mt rmin rmax es,
  shutdown_last (listens_of (init_outputs ++ snd (run cfg (init hn mt rmin rmax) es))) = true.
Proof. exact c13_shutdown_last. Qed.
Print Assumptions C13_shutdown_last.

(* after the task is gone nothing more is reported, and it stays gone (every later request then
   completes with Shutdown: C10_class) *)
Theorem C13_done_is_final : forall cfg s e, ph s = PDone ->
  ph (fst (step cfg s e)) = PDone /\ listens_of (snd (step cfg s e)) = [] /\ ~ In ODial (snd (step cfg s e)).
Proof. exact done_silent. Qed.
Print Assumptions C13_done_is_final.

(* while not connected a request fails at once with NoConnection instead of queueing: the phase is
   unchanged, nothing is written, no connection attempt is made *)
Theorem C13_fail_fast : forall cfg s r q, listens (ph s) = true -> connected (ph s) = false -> queue s = CReq r :: q ->
  step cfg s EvRecv = (set_chan s (q ++ firstn 1 (blocked s)) (skipn 1 (blocked s)), [OComplete (rq_id r) (RErr ReNoConnection)]).
Proof. exact c13_fail_fast. Qed.
Print Assumptions C13_fail_fast.

(* no connection attempt while disabled: in every reachable state, a step that starts a connection
   attempt leaves the channel enabled *)
Theorem C13_no_dial_while_disabled : forall cfg hn mt rmin rmax es e,
  let s := fst (run cfg (init hn mt rmin rmax) es) in
  In ODial (snd (step cfg s e)) -> enabled (fst (step cfg s e)) = true.
Proof. exact c13_no_dial. Qed.
Print Assumptions C13_no_dial_while_disabled.

(* shutdown, or dropping all handles, ends the task from every state that listens to the queue,
   with exactly one Shutdown notification ... *)
Theorem C13_terminates : forall cfg s, listens (ph s) = true ->
  (forall q, queue s = CShutdown :: q -> ph (fst (step cfg s EvRecv)) = PDone /\ listens_of (snd (step cfg s EvRecv)) = [LShutdown]) /\
  (queue s = [] -> closed s = true -> ph (fst (step cfg s EvRecv)) = PDone /\ listens_of (snd (step cfg s EvRecv)) = [LShutdown]).
Proof. exact c13_terminates. Qed.
Print Assumptions C13_terminates.

(* ... and the states that do not listen end by themselves: a request in flight is over at the
   latest when its timer fires (a write in progress: C10_no_stuck_writing) *)
Theorem C13_in_flight_ends : forall cfg s r tx d, ph s = PInFlight r tx d -> fire cfg d <= now s ->
  let s2 := fst (step cfg s EvTimer) in listens (ph s2) = true \/ ph s2 = PDone.
Proof. exact c13_in_flight_ends. Qed.
Print Assumptions C13_in_flight_ends.

(* liveness, from EVERY state (whatever the phase, whatever is queued in front): once a Shutdown
   command is in the queue, or once every handle is gone, the task's own steps (recv, its timers,
   the clock) lead to termination; `internal` admits only EvRecv / EvTimer / EvTick *)
Theorem C13_shutdown_from_every_state : forall cfg s,
  (queue s = [] -> blocked s = []) -> In CShutdown (queue s ++ blocked s) -> ph s <> PDone ->
  exists es, forallb internal es = true /\ ph (fst (run cfg s es)) = PDone.
Proof. exact shutdown_from_every_state. Qed.
Print Assumptions C13_shutdown_from_every_state.

Theorem C13_drop_all_handles_from_every_state : forall cfg s,
  handles s = 0%nat -> blocked s = [] -> ph s <> PDone ->
  exists es, forallb internal es = true /\ ph (fst (run cfg s es)) = PDone.
Proof. exact drop_from_every_state. Qed.
Print Assumptions C13_drop_all_handles_from_every_state.

(* an instance: a request whose write is parked by a transport that takes nothing and is never released, Shutdown queued
   behind it: at write start + request timeout the request fails, the listener hears WaitAfterDisconnect, and the
   Shutdown command is taken at that same instant *)
Example C13_shutdown_behind_a_parked_write :
  let cfg := {| cfg_cap := 4; cfg_res := 1 |} in
  let rq i := CReq {| rq_id := i; rq_kind := KRead; rq_timeout := 50 |} in
  let '(s, o) := run cfg (init 1 None 20 40)
    [EvSubmit CEnable SFuture; EvRecv; EvConnect true; EvWritePark; EvSubmit (rq 1%nat) SFuture; EvRecv; EvSubmit CShutdown SFuture;
     EvRecv; EvTick 49; EvTimer; EvRecv; EvTick 1; EvTimer; EvRecv] in
  ph s = PDone /\ now s = 50 /\
  o = [OListen LConnecting; ODial; OListen LConnected; OStamp 0 1; OComplete 1 (RErr ReIo); OEnd SeIoError; OListen (LWaitDisc 20); OListen LShutdown].
Proof. vm_compute. repeat split. Qed.

(* a disable closes an open connection and is reported as Disabled; while a request is in flight it
   waits in the queue until that transaction is over *)
Theorem C13_disable_closes : forall cfg s q, ph s = PIdle -> queue s = CDisable :: q ->
  let s' := fst (step cfg s EvRecv) in
  snd (step cfg s EvRecv) = [OEnd SeDisabled; OListen LDisabled] /\ ph s' = PWaitEnabled /\ enabled s' = false.
Proof. exact c13_disable_closes. Qed.
Print Assumptions C13_disable_closes.

Theorem C13_disable_waits_for_transaction : forall cfg s r tx d, ph s = PInFlight r tx d -> step cfg s EvRecv = (s, []).
Proof. exact c13_disable_waits. Qed.
Print Assumptions C13_disable_waits_for_transaction.

(* --- the wait states end exactly at wait_start + delay ---
   PWaiting u carries the deadline u = (instant the listener was told) + (announced delay).  Whatever
   happens in a wait state - requests failed fast, redundant enables, decode-level changes, submissions,
   the clock advancing - the phase and its deadline stay as they are; the state is left only by the end
   of the task, by a disable, or by its own timer at or after the deadline ... *)
Theorem C13_wait_deadline_unchanged : forall cfg s u e, ph s = PWaiting u ->
  let s' := fst (step cfg s e) in
  ph s' = PWaiting u \/ left_early s' \/ (e = EvTimer /\ fire cfg u <= now s).
Proof. exact wait_step. Qed.
Print Assumptions C13_wait_deadline_unchanged.

(* ... in particular handling a command: a client polled faster than the retry delay still reconnects *)
Theorem C13_wait_command_keeps_deadline : forall cfg s u c q, ph s = PWaiting u -> enabled s = true -> queue s = c :: q ->
  (exists r, c = CReq r) \/ c = CEnable \/ (exists l, c = CDecode l) ->
  ph (fst (step cfg s EvRecv)) = PWaiting u.
Proof. exact wait_command_keeps_deadline. Qed.
Print Assumptions C13_wait_command_keeps_deadline.

(* ... over whole runs (ALL event lists): still the same wait with the same deadline, or a first step
   left it for one of the three reasons ... *)
Theorem C13_wait_run : forall cfg es s u, ph s = PWaiting u ->
  ph (fst (run cfg s es)) = PWaiting u \/
  exists es1 e es2, es = (es1 ++ e :: es2)%list /\
    let s1 := fst (run cfg s es1) in ph s1 = PWaiting u /\
    (left_early (fst (step cfg s1 e)) \/ (e = EvTimer /\ fire cfg u <= now s1)).
Proof. exact wait_run. Qed.
Print Assumptions C13_wait_run.

(* ... and the timer does end it: nothing before fires_at(u), the next Connecting + dial from then on *)
Theorem C13_wait_ends_at_deadline : forall cfg s u, ph s = PWaiting u -> enabled s = true ->
  step cfg s EvTimer = if fire cfg u <=? now s then (set_ph s PConnecting, [OListen LConnecting; ODial]) else (s, []).
Proof. exact wait_timer. Qed.
Print Assumptions C13_wait_ends_at_deadline.

(* non-vacuity: six commands 3 apart during a 20 wait; the reconnect is at 20, not at 18 + 20 *)
Example C13_wait_nonvacuous :
  let cfg := {| cfg_cap := 4; cfg_res := 1 |} in
  let poll := [EvTick 3; EvSubmit CEnable SFuture; EvRecv; EvTimer] in
  listens_of (snd (run cfg (init 1 None 20 40)
     ([EvSubmit CEnable SFuture; EvRecv; EvConnect false] ++ poll ++ poll ++ poll ++ poll ++ poll ++ poll ++ [EvTick 1; EvTimer; EvTick 1; EvTimer])))
  = [LConnecting; LWaitFailed 20; LConnecting] /\
  now (fst (run cfg (init 1 None 20 40)
     ([EvSubmit CEnable SFuture; EvRecv; EvConnect false] ++ poll ++ poll ++ poll ++ poll ++ poll ++ poll ++ [EvTick 1; EvTimer; EvTick 1; EvTimer]))) = 20.
Proof. vm_compute. split; reflexivity. Qed.

(* --- serial channels (PortState) ---
   The serial task (Model/SerialTask.v) is the same outer loop with the port opened synchronously:
   whenever a step ends in the connecting phase the open result (environment) is applied at once.
   Its PortState trace (no Connecting notification, one Wait state, Open for Connected) is a legal
   path of the Spec automaton `plegal` for ALL serial event lists ... *)
Theorem C13_serial_legal : forall cfg hn rmin rmax es,
  plegal (port_trace (init_outputs ++ snd (srun cfg (sinit hn rmin rmax) es))) = true.
Proof. exact serial_legal. Qed.
Print Assumptions C13_serial_legal.

(* ... and every serial run is a run of the TCP system on the event list with the open results
   inserted (same outputs, same final task state), so the theorems stated for all TCP event lists
   (exactly once, timeouts, fail fast, termination) hold for the serial channel as well *)
Theorem C13_serial_is_tcp_run : forall cfg es x,
  snd (srun cfg x es) = snd (run cfg (ss x) (expand cfg x es)) /\
  ss (fst (srun cfg x es)) = fst (run cfg (ss x) (expand cfg x es)).
Proof. exact serial_is_tcp_run. Qed.
Print Assumptions C13_serial_is_tcp_run.

(* non-vacuity: refused, accepted then closed, disable while waiting, enable, shutdown *)
Example C13_nonvacuous :
  let cfg := {| cfg_cap := 4; cfg_res := 1 |} in
  listens_of (init_outputs ++ snd (run cfg (init 1 None 20 40)
     [EvSubmit CEnable SFuture; EvRecv; EvConnect false; EvTick 20; EvTimer; EvConnect true; EvEof;
      EvSubmit CDisable SFuture; EvRecv; EvSubmit CEnable SFfi; EvRecv; EvSubmit CShutdown SFuture; EvRecv]))
  = [LDisabled; LConnecting; LWaitFailed 20; LConnecting; LConnected; LWaitDisc 20; LDisabled; LConnecting; LShutdown].
Proof. vm_compute. reflexivity. Qed.
