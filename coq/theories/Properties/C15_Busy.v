(* C15 with sessions inside a slow application handler: the server task never waits on a session.
   Only statements, closed by `exact`, each followed by Print Assumptions.

   Model/ServerBusy.v puts busy sessions (inside a request handler that has not returned) around the tracker model;
   how apply_command hands a command to the sessions is generated from tcp/server.rs (Gen/ServerForward.v):
   `sender.try_send(command)`. With `sender.send(command).await` the statements below do not hold (see the last
   Example) and their proofs, which go through `forwarding_is_try_send`, stop compiling. *)
From Coq Require Import NArith List Bool.
From Rodbus Require Import Model.Tracker Spec.TrackerSpec Gen.ServerForward Model.ServerBusy Spec.BusySpec Proofs.ServerBusyProofs.
Import ListNotations.
Local Open Scope N_scope.

(* whatever the sessions do - however many are busy, however full their command queues are - and whatever arrives
   (connections, level changes, shutdown, a dropped handle), the server task is never left waiting for a session *)
Theorem C15_Busy_server_task_never_waits : forall evs c c' o,
  waiting c = false -> brun_gen c evs = Some (c', o) -> waiting c' = false.
Proof. exact never_waits. Qed.
Print Assumptions C15_Busy_server_task_never_waits.

(* ... so no event is ever left unprocessed because of a session *)
Theorem C15_Busy_no_event_deferred : forall c e c' o, waiting c = false -> bstep_gen c e = Some (c', o) -> ~ In BDeferred o.
Proof. exact never_deferred_step. Qed.
Print Assumptions C15_Busy_no_event_deferred.

(* the two functions the arms of ServerTask::run call contain no await point (generated counts) *)
Theorem C15_Busy_loop_bodies_have_no_await : apply_command_awaits = 0%nat /\ handle_awaits = 0%nat.
Proof. exact loop_bodies_have_no_await. Qed.
Print Assumptions C15_Busy_loop_bodies_have_no_await.

(* the tracker evolves exactly as if no session were busy: every theorem of Properties/C15.v (bound, oldest evicted,
   shutdown closes all, isolation ..) holds for the tracker state of this model on the projected events *)
Theorem C15_Busy_tracker_unaffected : forall evs c c' o, waiting c = false -> brun_gen c evs = Some (c', o) ->
  exists outs, run (base c) (project evs) = Some (base c', outs).
Proof. exact projects. Qed.
Print Assumptions C15_Busy_tracker_unaffected.

(* a session that ends tells the server task with `send(SessionClose(id)).await` (generated: session_close_notice), which
   is never lost: after a client closed or sent garbage the tracker holds no record of that session any more, however
   many sessions end at the same moment - so ended sessions never use up slots (with a `try_send` notice the model has
   no SessionEnded event here, this proof and C15_Busy_refines_spec stop compiling) *)
Theorem C15_Busy_ended_session_record_removed : forall c k c' o, waiting c = false -> running (base c) = true ->
  (brun_gen c (bexpand (ClientClose k)) = Some (c', o) \/ brun_gen c (bexpand (Garbage k)) = Some (c', o)) ->
  ~ In k (map fst (sessions (trk (base c')))).
Proof. exact ended_session_record_removed. Qed.
Print Assumptions C15_Busy_ended_session_record_removed.

(* for every max_sessions and every script the observable trace (open sockets, port, value, answered parked
   requests) is the Spec's: level changes, connections, requests on other sessions and shutdown are served at once
   while a handler is parked; a session the server closes meanwhile keeps only its socket until the handler returns *)
Theorem C15_Busy_refines_spec : forall m ops t, btrace_gen (binit m) ops = Some t -> t = bstrace m bsinit ops.
Proof. exact brefines. Qed.
Print Assumptions C15_Busy_refines_spec.

(* the script of the repaired defect: a session parked in its handler, nine level changes, then a new connection, a
   request on it, shutdown, a connection attempt, release *)
Example C15_Busy_nonvacuous :
  btrace_gen (binit 2) [Connect; Park 0; SetDecode; SetDecode; SetDecode; SetDecode; SetDecode; SetDecode; SetDecode; SetDecode; SetDecode;
                        Connect; Req 1 3; Stop; Connect; Release]
  = Some [([0], true, 0, []); ([0], true, 0, []);
          ([0], true, 0, []); ([0], true, 0, []); ([0], true, 0, []); ([0], true, 0, []); ([0], true, 0, []); ([0], true, 0, []);
          ([0], true, 0, []); ([0], true, 0, []); ([0], true, 0, []);
          ([0; 1], true, 0, []); ([0; 1], true, 3, []); ([0], false, 3, []); ([0], false, 3, []); ([], false, 3, [(0, false)])].
Proof. vm_compute. reflexivity. Qed.

(* had apply_command awaited `sender.send(command)`: after the ninth level change the server task waits on session 0,
   and the connection and the shutdown that follow are not processed *)
Example C15_Busy_send_await_would_wait :
  exists c o, brun ForwardSendAwait (binit 2) ([BBase (Accept true); BPark 0] ++ repeat (BBase Command) 9 ++ [BBase (Accept true); BBase Shutdown]) = Some (c, o) /\
    waiting c = true /\ running (base c) = true /\ live_ids (sessions (trk (base c))) = [0] /\ In BDeferred o.
Proof. vm_compute. eexists. eexists. split; [reflexivity|]. repeat split. right. right. right. right. right. right. right. right. right. right. left. reflexivity. Qed.
