(* The RTU server task loop (serial/server.rs RtuServerTask::run) over the serial session:
   open -> session.run -> on any non-Shutdown error wait after_disconnect() in sleep_for -> re-open,
   with the SAME SessionTask. Only statements, closed by `exact`, each followed by Print Assumptions.

   rtu_server_task (Model/ServerRun.v over Model/RtuServerLoop.v) takes a list of episodes: the open
   attempt fails and the task waits (EpOpenFails wait), or the port opens and the session runs on
   its select! outcomes, then waits (EpOpen sess wait). Wait events: WCommand c | WClosed | WAdvance dt
   (virtual nanoseconds). The retry strategy is Model/Retry.v (C14). Below this level the reader /
   parser also persist (C05/C06). *)
From Coq Require Import NArith List.
From Rodbus Require Import Base.Outcome Base.ServerTypes Base.ServerRun Model.Retry Model.RtuServerLoop Model.Server Model.ServerRun
  Proofs.ServerRunProofs Proofs.RtuServerLoopProofs.
Import ListNotations.
Local Open Scope N_scope.

Notation reset r := {| dmin := dmin r; dmax := dmax r; cur := dmin r |}.

(* handler state (and the decode level) persist across re-opens: after a session that ended with an
   error and a wait of the strategy's minimum delay, the next open port is served from exactly the
   handler states the failed session left; replies and calls of the task are the concatenation *)
Theorem C01_rtu_reopen_keeps_state : forall (St : Type) (H : handler St) units d retry sess wait rest ws u lg d1 e d2,
  session_run H LRtu NoAuth units d sess = (ws, u, lg, d1, e) -> reopens e = true ->
  sleep_for (dmin retry) d1 wait = (d2, SleepElapsed) ->
  rtu_server_task H units d retry (EpOpen sess wait :: rest) =
    (let '(ws', u', lg', d', r, e') := rtu_server_task H u d2 (reset retry) rest in (ws :: ws', u', lg ++ lg', d', r, e')).
Proof. exact (fun St H => @reopen_keeps_state St serr (handle_frame H LRtu NoAuth)). Qed.
Print Assumptions C01_rtu_reopen_keeps_state.

Theorem C01_rtu_open_failure_keeps_state : forall (St : Type) (H : handler St) units d retry retry' delay wait rest d2,
  step retry Fail = Some (retry', Some delay) -> sleep_for delay d wait = (d2, SleepElapsed) ->
  rtu_server_task H units d retry (EpOpenFails wait :: rest) =
    (let '(ws, u, lg, d', r, e) := rtu_server_task H units d2 retry' rest in ([] :: ws, u, lg, d', r, e)).
Proof. exact (fun St H => @open_failure_keeps_state St serr (handle_frame H LRtu NoAuth)). Qed.
Print Assumptions C01_rtu_open_failure_keeps_state.

(* Shutdown (or the closing of the command channel) ends the task from every state: port open ... *)
Theorem C01_rtu_shutdown_while_open : forall (St : Type) (H : handler St) units d retry pre ev post wait rest ws u lg d1 e,
  ends ev -> session_run H LRtu NoAuth units d pre = (ws, u, lg, d1, e) -> (e = ROpen \/ exists r, e = RBlocked r) ->
  rtu_server_task H units d retry (EpOpen (pre ++ ev :: post) wait :: rest) = ([ws], u, lg, d1, reset retry, TShutdown).
Proof. exact (fun St H => @shutdown_while_open St serr (handle_frame H LRtu NoAuth)). Qed.
Print Assumptions C01_rtu_shutdown_while_open.

(* ... waiting after a session that failed ... *)
Theorem C01_rtu_shutdown_while_waiting : forall (St : Type) (H : handler St) units d retry sess pre ev post rest ws u lg d1 e d2 rem,
  wends ev -> session_run H LRtu NoAuth units d sess = (ws, u, lg, d1, e) -> reopens e = true ->
  sleep_for (dmin retry) d1 pre = (d2, SleepWaiting rem) ->
  rtu_server_task H units d retry (EpOpen sess (pre ++ ev :: post) :: rest) = ([ws], u, lg, d2, reset retry, TShutdown).
Proof. exact (fun St H => @shutdown_while_waiting_after_session St serr (handle_frame H LRtu NoAuth)). Qed.
Print Assumptions C01_rtu_shutdown_while_waiting.

(* ... waiting after a failed open attempt *)
Theorem C01_rtu_shutdown_while_waiting_to_open : forall (St : Type) (H : handler St) units d retry retry' delay pre ev post rest d2 rem,
  wends ev -> step retry Fail = Some (retry', Some delay) -> sleep_for delay d pre = (d2, SleepWaiting rem) ->
  rtu_server_task H units d retry (EpOpenFails (pre ++ ev :: post) :: rest) = ([[]], units, [], d2, retry', TShutdown).
Proof. exact (fun St H => @shutdown_while_waiting_after_open_failure St serr (handle_frame H LRtu NoAuth)). Qed.
Print Assumptions C01_rtu_shutdown_while_waiting_to_open.

(* sleep_for: a decode level change is applied and the wait goes on with the same time left ... *)
Theorem C01_rtu_wait_applies_level : forall rem d x rest,
  sleep_for rem d (WCommand (ChangeDecoding x) :: rest) = sleep_for rem x rest.
Proof. exact wait_applies_level. Qed.
Print Assumptions C01_rtu_wait_applies_level.

(* ... it never ends before the delay has passed, whatever commands arrive (a sleep_for that returned
   after one command would) ... *)
Theorem C01_rtu_wait_not_shortened : forall evs rem d, advance_total evs < rem -> snd (sleep_for rem d evs) <> SleepElapsed.
Proof. exact sleep_not_early. Qed.
Print Assumptions C01_rtu_wait_not_shortened.

(* ... and it does end once the delay has passed, whatever level changes arrive *)
Theorem C01_rtu_wait_elapses : forall evs rem d, no_wend evs -> 0 < rem -> rem <= advance_total evs ->
  snd (sleep_for rem d evs) = SleepElapsed.
Proof. exact sleep_elapses. Qed.
Print Assumptions C01_rtu_wait_elapses.

(* level changes anywhere - in sessions and in waits - are unobservable for the whole task *)
Theorem C01_rtu_levels_unobservable : forall (St : Type) (H : handler St) eps units d d' retry,
  tobs (rtu_server_task H units d retry eps) = tobs (rtu_server_task H units d' retry (estrip eps)).
Proof. exact (fun St H => @levels_unobservable St serr (handle_frame H LRtu NoAuth)). Qed.
Print Assumptions C01_rtu_levels_unobservable.
