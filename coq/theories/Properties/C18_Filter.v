(* C18: the address filter built through the C ABI is the Rust API's filter built the documented way.
   Only statements, closed by `exact`, each followed by Print Assumptions. *)
From Coq Require Import NArith List String Bool.
From Rodbus Require Import Gen.FfiTables Model.Filter Spec.FfiFilterSpec Model.FfiFilter.
From Rodbus Require Proofs.FfiFilterProofs.
Import ListNotations.
Module P := Rodbus.Proofs.FfiFilterProofs.

(* For EVERY string and every sequence of further strings (any IPv6 literal parser): rodbus_address_filter_create(s)
   followed by rodbus_address_filter_add(a_1) .. (a_n) - interpreted over the parse order and the add arms REGENERATED from
   ffi server.rs - builds the filter and returns the codes the Spec prescribes: an IP address gives the one-element set
   (tried BEFORE the wildcard reading), anything else a wildcard or InvalidIpAddress; only a set can be extended, a failed
   add leaves the filter as it was. *)
Theorem C18_filter_build : forall parse_v6 s adds, ffi_filter_build parse_v6 s adds = filter_build_spec parse_v6 s adds.
Proof. exact P.build_is_spec. Qed.
Print Assumptions C18_filter_build.

(* in particular a plain IPv4 string gives AnyOf{that address} and a following add succeeds: create("127.0.0.1"),
   add("127.0.0.2") = AnyOf{127.0.0.1, 127.0.0.2} *)
Theorem C18_filter_plain_ip_extendable : forall parse_v6 s a t b, parse_ipv4 s = Some a -> parse_ip parse_v6 t = Some b ->
  ffi_filter_build parse_v6 s [t] = Some (AnyOf [a; b], [true]).
Proof. exact P.plain_ip_extendable. Qed.
Print Assumptions C18_filter_plain_ip_extendable.

Theorem C18_filter_add_arms : add_arms_known filter_add_arms = true /\ map fst filter_add_arms = ["Any"; "AnyOf"; "WildcardIpv4"]%string.
Proof. exact P.arms_known. Qed.
Print Assumptions C18_filter_add_arms.
